"""C09 generator: bounded enumeration of Python 3.12 abstract syntax + a catalogue of lexical forms.

Every case is (id, ctx, text, pytext) where `text` is what Scenic compiles and `pytext` what CPython
parses (identical for ctx = module; for the embedded contexts the Python fragment padded so that
its nodes have the same line/column as inside the Scenic text).  The CPython tree of the fragment is
encoded as JSON for PyFront.tla (constructor + fields + positions), see encode().

ASDL is the abstract grammar of Python 3.12 (Parser/Python.asdl); the same table is carried by
spec/PyFront.tla (Grammar) and the harness checks the two and `ast.<C>._fields` agree.
"""

import ast
import io
import itertools
import random
import re
import tokenize

# constructor -> (sort, [(field, kind, sort)])
# kind: node | list | opt | holes (list whose items may be None) | atom | optatom | atoms
_ASDL = """
mod Module body:list:stmt type_ignores:list:type_ignore
stmt FunctionDef name:atom args:node:arguments body:list:stmt decorator_list:list:expr returns:opt:expr type_comment:optatom type_params:list:type_param
stmt AsyncFunctionDef name:atom args:node:arguments body:list:stmt decorator_list:list:expr returns:opt:expr type_comment:optatom type_params:list:type_param
stmt ClassDef name:atom bases:list:expr keywords:list:keyword body:list:stmt decorator_list:list:expr type_params:list:type_param
stmt Return value:opt:expr
stmt Delete targets:list:expr
stmt Assign targets:list:expr value:node:expr type_comment:optatom
stmt TypeAlias name:node:expr type_params:list:type_param value:node:expr
stmt AugAssign target:node:expr op:node:operator value:node:expr
stmt AnnAssign target:node:expr annotation:node:expr value:opt:expr simple:atom
stmt For target:node:expr iter:node:expr body:list:stmt orelse:list:stmt type_comment:optatom
stmt AsyncFor target:node:expr iter:node:expr body:list:stmt orelse:list:stmt type_comment:optatom
stmt While test:node:expr body:list:stmt orelse:list:stmt
stmt If test:node:expr body:list:stmt orelse:list:stmt
stmt With items:list:withitem body:list:stmt type_comment:optatom
stmt AsyncWith items:list:withitem body:list:stmt type_comment:optatom
stmt Match subject:node:expr cases:list:match_case
stmt Raise exc:opt:expr cause:opt:expr
stmt Try body:list:stmt handlers:list:excepthandler orelse:list:stmt finalbody:list:stmt
stmt TryStar body:list:stmt handlers:list:excepthandler orelse:list:stmt finalbody:list:stmt
stmt Assert test:node:expr msg:opt:expr
stmt Import names:list:alias
stmt ImportFrom module:optatom names:list:alias level:optatom
stmt Global names:atoms
stmt Nonlocal names:atoms
stmt Expr value:node:expr
stmt Pass
stmt Break
stmt Continue
expr BoolOp op:node:boolop values:list:expr
expr NamedExpr target:node:expr value:node:expr
expr BinOp left:node:expr op:node:operator right:node:expr
expr UnaryOp op:node:unaryop operand:node:expr
expr Lambda args:node:arguments body:node:expr
expr IfExp test:node:expr body:node:expr orelse:node:expr
expr Dict keys:holes:expr values:list:expr
expr Set elts:list:expr
expr ListComp elt:node:expr generators:list:comprehension
expr SetComp elt:node:expr generators:list:comprehension
expr DictComp key:node:expr value:node:expr generators:list:comprehension
expr GeneratorExp elt:node:expr generators:list:comprehension
expr Await value:node:expr
expr Yield value:opt:expr
expr YieldFrom value:node:expr
expr Compare left:node:expr ops:list:cmpop comparators:list:expr
expr Call func:node:expr args:list:expr keywords:list:keyword
expr FormattedValue value:node:expr conversion:atom format_spec:opt:expr
expr JoinedStr values:list:expr
expr Constant value:atom kind:optatom
expr Attribute value:node:expr attr:atom ctx:node:expr_context
expr Subscript value:node:expr slice:node:expr ctx:node:expr_context
expr Starred value:node:expr ctx:node:expr_context
expr Name id:atom ctx:node:expr_context
expr List elts:list:expr ctx:node:expr_context
expr Tuple elts:list:expr ctx:node:expr_context
expr Slice lower:opt:expr upper:opt:expr step:opt:expr
expr_context Load
expr_context Store
expr_context Del
boolop And
boolop Or
operator Add
operator Sub
operator Mult
operator MatMult
operator Div
operator Mod
operator Pow
operator LShift
operator RShift
operator BitOr
operator BitXor
operator BitAnd
operator FloorDiv
unaryop Invert
unaryop Not
unaryop UAdd
unaryop USub
cmpop Eq
cmpop NotEq
cmpop Lt
cmpop LtE
cmpop Gt
cmpop GtE
cmpop Is
cmpop IsNot
cmpop In
cmpop NotIn
comprehension comprehension target:node:expr iter:node:expr ifs:list:expr is_async:atom
excepthandler ExceptHandler type:opt:expr name:optatom body:list:stmt
arguments arguments posonlyargs:list:arg args:list:arg vararg:opt:arg kwonlyargs:list:arg kw_defaults:holes:expr kwarg:opt:arg defaults:list:expr
arg arg arg:atom annotation:opt:expr type_comment:optatom
keyword keyword arg:optatom value:node:expr
alias alias name:atom asname:optatom
withitem withitem context_expr:node:expr optional_vars:opt:expr
match_case match_case pattern:node:pattern guard:opt:expr body:list:stmt
pattern MatchValue value:node:expr
pattern MatchSingleton value:atom
pattern MatchSequence patterns:list:pattern
pattern MatchMapping keys:list:expr patterns:list:pattern rest:optatom
pattern MatchClass cls:node:expr patterns:list:pattern kwd_attrs:atoms kwd_patterns:list:pattern
pattern MatchStar name:optatom
pattern MatchAs pattern:opt:pattern name:optatom
pattern MatchOr patterns:list:pattern
type_param TypeVar name:atom bound:opt:expr
type_param ParamSpec name:atom
type_param TypeVarTuple name:atom
type_ignore TypeIgnore lineno:atom tag:atom
"""

ASDL = {}
for _l in _ASDL.strip().splitlines():
    _p = _l.split()
    ASDL[_p[1]] = (_p[0], [tuple(x.split(":")) + (("-",) if x.count(":") == 1 else ()) for x in _p[2:]])

SORTS = {}
for _c, (_s, _f) in ASDL.items():
    SORTS.setdefault(_s, []).append(_c)


def grammar_table():
    """The table in the shape PyFront.tla prints it (EmitGrammar), for the cross-check."""
    return {c: {"sort": s, "fields": [list(f) for f in fs]} for c, (s, fs) in ASDL.items()}


def check_against_cpython():
    """ASDL must agree with the running CPython's ast module (names and field order)."""
    bad = []
    for c, (_s, fs) in ASDL.items():
        cls = getattr(ast, c, None)
        if cls is None:
            bad.append(f"{c}: no such ast class")
            continue
        if tuple(f[0] for f in fs) != tuple(cls._fields):
            bad.append(f"{c}: fields {cls._fields} != {[f[0] for f in fs]}")
    return bad


# --------------------------------------------------------------------------- JSON encoding

_SAFE = re.compile(r"^[A-Za-z0-9_.]*$")


def enc_atom(v):
    s = str(v)
    if _SAFE.match(s):
        return s
    return "~" + s.encode("utf-8", "surrogatepass").hex()


def enc_const(v):
    if isinstance(v, bool) or v is None or v is Ellipsis:
        return "k" + repr(v)
    if isinstance(v, int) and 0 <= v < 10**9:
        return "i" + str(v)
    return "x" + (type(v).__name__ + ":" + repr(v)).encode("utf-8", "surrogatepass").hex()


HOLE = {"c": "NoneHole", "a": [], "p": [], "s": 0}


def encode(node, dl=0, dc=None):
    """ast node -> JSON tree {c, a, p, s}.  Positions are kept as CPython reports them."""
    c = type(node).__name__
    _sort, fields = ASDL[c]
    a = []
    for name, kind, _fs in fields:
        v = getattr(node, name, None)
        if kind == "node":
            a.append(encode(v))
        elif kind == "list":
            a.append([encode(x) for x in v])
        elif kind == "opt":
            a.append([] if v is None else [encode(v)])
        elif kind == "holes":
            a.append([HOLE if x is None else encode(x) for x in v])
        elif kind == "atom":
            a.append(enc_const(v) if c in ("Constant", "MatchSingleton") and name == "value" else enc_atom(v))
        elif kind == "optatom":
            a.append([] if v is None else [enc_atom(v)])
        elif kind == "atoms":
            a.append([enc_atom(x) for x in v])
    if hasattr(node, "lineno") and "lineno" in getattr(node, "_attributes", ()):
        p = [node.lineno, node.col_offset, node.end_lineno, node.end_col_offset]
    else:
        p = []
    return {"c": c, "a": a, "p": p, "s": 0}


def compact(tree):
    """JSON tree -> (compact wire form [c, id, field...], positions by id).  Ids number the nodes
    in preorder from 1; positions[id] is the node's [lineno, col, end_lineno, end_col] or []."""
    pos = [None]

    def go(t):
        if t["c"] == "NoneHole":
            return ["NoneHole", 0]
        pos.append(t["p"])
        out = [t["c"], len(pos) - 1]
        for (_fn, kind, _fs), v in zip(ASDL[t["c"]][1], t["a"]):
            if kind == "node":
                out.append(go(v))
            elif kind in ("list", "opt", "holes"):
                out.append([go(x) for x in v])
            else:
                out.append(v)
        return out

    return go(tree), pos


def resolve(t, pos):
    """A tree printed by the spec (p = [id] or []) -> the same tree with real positions."""
    if t["c"] in ("NoneHole", "Error_"):
        return t
    a = []
    for (_fn, kind, _fs), v in zip(ASDL[t["c"]][1], t["a"]):
        if kind == "node":
            a.append(resolve(v, pos))
        elif kind in ("list", "opt", "holes"):
            a.append([resolve(x, pos) for x in v])
        elif t["c"] == "Constant" and isinstance(v, str) and v.startswith("L"):
            a.append("i" + str(pos[int(v[1:])][0]))
        else:
            a.append(v)
    return {"c": t["c"], "a": a, "p": (pos[t["p"][0]] or []) if t["p"] else [], "s": t["s"]}


# --------------------------------------------------------------------------- default instances

L = ast.Load()


def N(i=0):
    return ast.Name(id=f"v{i}", ctx=L)


def noargs():
    return ast.arguments(posonlyargs=[], args=[], vararg=None, kwonlyargs=[], kw_defaults=[], kwarg=None, defaults=[])


def comp():
    return ast.comprehension(target=ast.Name(id="t0", ctx=L), iter=N(1), ifs=[], is_async=0)


def default(c):
    """A minimal instance of constructor c (contexts are all Load; CPython fixes them on reparse)."""
    P = [ast.Pass()]
    d = {
        "FunctionDef": lambda: ast.FunctionDef(name="f0", args=noargs(), body=[ast.Pass()], decorator_list=[], returns=None, type_comment=None, type_params=[]),
        "AsyncFunctionDef": lambda: ast.AsyncFunctionDef(name="f0", args=noargs(), body=[ast.Pass()], decorator_list=[], returns=None, type_comment=None, type_params=[]),
        "ClassDef": lambda: ast.ClassDef(name="C0", bases=[], keywords=[], body=[ast.Pass()], decorator_list=[], type_params=[]),
        "Return": lambda: ast.Return(value=None),
        "Delete": lambda: ast.Delete(targets=[N(0)]),
        "Assign": lambda: ast.Assign(targets=[N(0)], value=N(1), type_comment=None),
        "TypeAlias": lambda: ast.TypeAlias(name=ast.Name(id="T0", ctx=L), type_params=[], value=N(1)),
        "AugAssign": lambda: ast.AugAssign(target=N(0), op=ast.Add(), value=N(1)),
        "AnnAssign": lambda: ast.AnnAssign(target=N(0), annotation=N(1), value=None, simple=1),
        "For": lambda: ast.For(target=N(0), iter=N(1), body=[ast.Pass()], orelse=[], type_comment=None),
        "AsyncFor": lambda: ast.AsyncFor(target=N(0), iter=N(1), body=[ast.Pass()], orelse=[], type_comment=None),
        "While": lambda: ast.While(test=N(0), body=[ast.Pass()], orelse=[]),
        "If": lambda: ast.If(test=N(0), body=[ast.Pass()], orelse=[]),
        "With": lambda: ast.With(items=[ast.withitem(context_expr=N(0), optional_vars=None)], body=[ast.Pass()], type_comment=None),
        "AsyncWith": lambda: ast.AsyncWith(items=[ast.withitem(context_expr=N(0), optional_vars=None)], body=[ast.Pass()], type_comment=None),
        "Match": lambda: ast.Match(subject=N(0), cases=[default("match_case")]),
        "Raise": lambda: ast.Raise(exc=None, cause=None),
        "Try": lambda: ast.Try(body=[ast.Pass()], handlers=[default("ExceptHandler")], orelse=[], finalbody=[]),
        "TryStar": lambda: ast.TryStar(body=[ast.Pass()], handlers=[ast.ExceptHandler(type=N(0), name=None, body=[ast.Pass()])], orelse=[], finalbody=[]),
        "Assert": lambda: ast.Assert(test=N(0), msg=None),
        "Import": lambda: ast.Import(names=[ast.alias(name="m0", asname=None)]),
        "ImportFrom": lambda: ast.ImportFrom(module="m0", names=[ast.alias(name="n0", asname=None)], level=0),
        "Global": lambda: ast.Global(names=["g0"]),
        "Nonlocal": lambda: ast.Nonlocal(names=["g0"]),
        "Expr": lambda: ast.Expr(value=N(0)),
        "Pass": ast.Pass,
        "Break": ast.Break,
        "Continue": ast.Continue,
        "BoolOp": lambda: ast.BoolOp(op=ast.And(), values=[N(0), N(1)]),
        "NamedExpr": lambda: ast.NamedExpr(target=ast.Name(id="t0", ctx=L), value=N(1)),
        "BinOp": lambda: ast.BinOp(left=N(0), op=ast.Add(), right=N(1)),
        "UnaryOp": lambda: ast.UnaryOp(op=ast.USub(), operand=N(0)),
        "Lambda": lambda: ast.Lambda(args=noargs(), body=N(0)),
        "IfExp": lambda: ast.IfExp(test=N(0), body=N(1), orelse=N(2)),
        "Dict": lambda: ast.Dict(keys=[N(0)], values=[N(1)]),
        "Set": lambda: ast.Set(elts=[N(0)]),
        "ListComp": lambda: ast.ListComp(elt=N(0), generators=[comp()]),
        "SetComp": lambda: ast.SetComp(elt=N(0), generators=[comp()]),
        "DictComp": lambda: ast.DictComp(key=N(0), value=N(2), generators=[comp()]),
        "GeneratorExp": lambda: ast.GeneratorExp(elt=N(0), generators=[comp()]),
        "Await": lambda: ast.Await(value=N(0)),
        "Yield": lambda: ast.Yield(value=None),
        "YieldFrom": lambda: ast.YieldFrom(value=N(0)),
        "Compare": lambda: ast.Compare(left=N(0), ops=[ast.Lt()], comparators=[N(1)]),
        "Call": lambda: ast.Call(func=N(0), args=[], keywords=[]),
        "FormattedValue": lambda: ast.FormattedValue(value=N(0), conversion=-1, format_spec=None),
        "JoinedStr": lambda: ast.JoinedStr(values=[ast.Constant(value="s", kind=None), default("FormattedValue")]),
        "Constant": lambda: ast.Constant(value=7, kind=None),
        "Attribute": lambda: ast.Attribute(value=N(0), attr="at0", ctx=L),
        "Subscript": lambda: ast.Subscript(value=N(0), slice=N(1), ctx=L),
        "Starred": lambda: ast.Starred(value=N(0), ctx=L),
        "Name": lambda: N(3),
        "List": lambda: ast.List(elts=[N(0)], ctx=L),
        "Tuple": lambda: ast.Tuple(elts=[N(0), N(1)], ctx=L),
        "Slice": lambda: ast.Slice(lower=N(0), upper=None, step=None),
        "comprehension": comp,
        "ExceptHandler": lambda: ast.ExceptHandler(type=None, name=None, body=[ast.Pass()]),
        "arguments": noargs,
        "arg": lambda: ast.arg(arg="p0", annotation=None, type_comment=None),
        "keyword": lambda: ast.keyword(arg="k0", value=N(0)),
        "alias": lambda: ast.alias(name="n0", asname=None),
        "withitem": lambda: ast.withitem(context_expr=N(0), optional_vars=None),
        "match_case": lambda: ast.match_case(pattern=ast.MatchAs(pattern=None, name=None), guard=None, body=[ast.Pass()]),
        "MatchValue": lambda: ast.MatchValue(value=ast.Constant(value=1, kind=None)),
        "MatchSingleton": lambda: ast.MatchSingleton(value=None),
        "MatchSequence": lambda: ast.MatchSequence(patterns=[ast.MatchAs(pattern=None, name="q0")]),
        "MatchMapping": lambda: ast.MatchMapping(keys=[ast.Constant(value=1, kind=None)], patterns=[ast.MatchAs(pattern=None, name="q0")], rest=None),
        "MatchClass": lambda: ast.MatchClass(cls=N(0), patterns=[], kwd_attrs=[], kwd_patterns=[]),
        "MatchStar": lambda: ast.MatchStar(name="q1"),
        "MatchAs": lambda: ast.MatchAs(pattern=None, name="q0"),
        "MatchOr": lambda: ast.MatchOr(patterns=[ast.MatchValue(value=ast.Constant(value=1, kind=None)), ast.MatchValue(value=ast.Constant(value=2, kind=None))]),
        "TypeVar": lambda: ast.TypeVar(name="T1", bound=None),
        "ParamSpec": lambda: ast.ParamSpec(name="P1"),
        "TypeVarTuple": lambda: ast.TypeVarTuple(name="Ts1"),
        "Module": lambda: ast.Module(body=[ast.Pass()], type_ignores=[]),
    }
    if c in d:
        return d[c]()
    return getattr(ast, c)()  # operators, contexts


# richer variants of K (beyond the minimal instance), exercised under every P.f like the default
VARIANTS = {
    "Constant": [lambda: ast.Constant(value=v, kind=None) for v in (1.5, 2j, "s", b"b", True, None, Ellipsis, 10**20)],
    "arguments": [
        lambda: ast.arguments(posonlyargs=[ast.arg(arg="p0")], args=[ast.arg(arg="p1"), ast.arg(arg="p2")], vararg=ast.arg(arg="p3"),
                              kwonlyargs=[ast.arg(arg="p4"), ast.arg(arg="p5")], kw_defaults=[None, N(0)], kwarg=ast.arg(arg="p6"), defaults=[N(1)]),
    ],
    "Call": [lambda: ast.Call(func=N(0), args=[N(1), ast.Starred(value=N(2), ctx=L)], keywords=[ast.keyword(arg="k0", value=N(3)), ast.keyword(arg=None, value=N(4))])],
    "Dict": [lambda: ast.Dict(keys=[None, N(0)], values=[N(1), N(2)])],
    "Slice": [lambda: ast.Slice(lower=None, upper=N(0), step=N(1))],
    "ExceptHandler": [lambda: ast.ExceptHandler(type=N(0), name="e0", body=[ast.Pass()])],
    "ImportFrom": [lambda: ast.ImportFrom(module=None, names=[ast.alias(name="*", asname=None)], level=2)],
    "alias": [lambda: ast.alias(name="n0.n1", asname="n2")],
    "withitem": [lambda: ast.withitem(context_expr=N(0), optional_vars=ast.Name(id="w0", ctx=L))],
    "JoinedStr": [lambda: ast.JoinedStr(values=[ast.FormattedValue(value=N(0), conversion=-1, format_spec=ast.JoinedStr(values=[ast.Constant(value=">4", kind=None)]))])],
    "MatchClass": [lambda: ast.MatchClass(cls=N(0), patterns=[ast.MatchAs(pattern=None, name="q0")], kwd_attrs=["ka"], kwd_patterns=[ast.MatchAs(pattern=None, name="q1")])],
    "MatchMapping": [lambda: ast.MatchMapping(keys=[], patterns=[], rest="q2")],
    "ClassDef": [lambda: ast.ClassDef(name="C1", bases=[N(0)], keywords=[ast.keyword(arg="k0", value=N(1))], body=[ast.Pass()], decorator_list=[], type_params=[])],
    "Try": [lambda: ast.Try(body=[ast.Pass()], handlers=[], orelse=[], finalbody=[ast.Pass()])],
}


def instances(c):
    yield "0", default(c)
    for i, mk in enumerate(VARIANTS.get(c, ())):
        yield str(i + 1), mk()


# --------------------------------------------------------------------------- placing K under P.f

_PARALLEL = {  # list fields that must keep the same length as another list field
    ("Dict", "keys"): "values", ("Dict", "values"): "keys",
    ("Compare", "ops"): "comparators", ("Compare", "comparators"): "ops",
    ("MatchMapping", "keys"): "patterns", ("MatchMapping", "patterns"): "keys",
    ("MatchClass", "kwd_patterns"): "kwd_attrs",
}


def place(pc, fname, kind, kinst, second):
    """A default P with field fname holding kinst (as the only / the second item of a list)."""
    p = default(pc)
    if kind in ("node", "opt"):
        setattr(p, fname, kinst)
        if pc == "Raise" and fname == "cause":
            p.exc = N(0)
        if pc == "AnnAssign" and fname == "target" and not isinstance(kinst, ast.Name):
            p.simple = 0
        return p
    cur = getattr(p, fname)
    sort_default = cur[0] if cur else None
    if second:
        if sort_default is None:
            fsort = [f for f in ASDL[pc][1] if f[0] == fname][0][2]
            sort_default = {"stmt": ast.Pass(), "expr": N(5), "keyword": default("keyword"), "arg": ast.arg(arg="p9"),
                            "type_param": ast.TypeVar(name="T9", bound=None), "alias": ast.alias(name="n9", asname=None),
                            "withitem": default("withitem"), "excepthandler": ast.ExceptHandler(type=N(6), name=None, body=[ast.Pass()]),
                            "match_case": default("match_case"), "comprehension": comp(), "pattern": ast.MatchValue(value=ast.Constant(value=3)),
                            "cmpop": ast.Gt()}.get(fsort)
            if sort_default is None:
                return None
        new = [sort_default, kinst]
    else:
        new = [kinst]
    if pc == "BoolOp" and fname == "values" and not second:
        new = [kinst, N(1)]
    setattr(p, fname, new)
    other = _PARALLEL.get((pc, fname))
    if other:
        o = getattr(p, other)
        filler = {"values": N(7), "keys": N(7), "comparators": N(7), "ops": ast.Lt(), "patterns": ast.MatchAs(pattern=None, name="q7"), "kwd_attrs": "ka"}
        if pc == "MatchMapping" and other == "keys":
            filler["keys"] = ast.Constant(value=9)
        while len(o) < len(new):
            o.append(filler[other] if other != "patterns" else ast.MatchAs(pattern=None, name=f"q{7+len(o)}"))
        del o[len(new):]
    if pc == "arguments":
        if fname == "kw_defaults":
            p.kwonlyargs = [ast.arg(arg=f"p{7+i}") for i in range(len(new))]
        if fname == "kwonlyargs":
            p.kw_defaults = [None] * len(new)
        if fname == "defaults":
            p.args = [ast.arg(arg=f"p{7+i}") for i in range(len(new))]
    if pc in ("Try", "TryStar") and fname == "orelse":
        pass  # handlers present by default
    return p


def host(node):
    """Wrap a node of any sort into a minimal module."""
    sort = ASDL[type(node).__name__][0]
    if sort == "mod":
        return node
    if sort == "stmt":
        return ast.Module(body=[node], type_ignores=[])
    if sort == "expr":
        if isinstance(node, ast.Slice):
            return host(ast.Subscript(value=N(8), slice=node, ctx=L))
        if isinstance(node, ast.FormattedValue):
            return host(ast.JoinedStr(values=[node]))
        if isinstance(node, ast.Starred):
            return host(ast.List(elts=[node], ctx=L))
        return ast.Module(body=[ast.Assign(targets=[ast.Name(id="r0", ctx=L)], value=node, type_comment=None)], type_ignores=[])
    if sort == "arguments":
        return host(ast.FunctionDef(name="f1", args=node, body=[ast.Pass()], decorator_list=[], returns=None, type_comment=None, type_params=[]))
    if sort == "arg":
        a = noargs()
        a.args = [node]
        return host(a)
    if sort == "keyword":
        return host(ast.Call(func=N(8), args=[], keywords=[node]))
    if sort == "alias":
        return host(ast.Import(names=[node]))
    if sort == "withitem":
        return host(ast.With(items=[node], body=[ast.Pass()], type_comment=None))
    if sort == "match_case":
        return host(ast.Match(subject=N(8), cases=[node]))
    if sort == "pattern":
        if isinstance(node, ast.MatchStar):
            return host(ast.MatchSequence(patterns=[node]))
        return host(ast.match_case(pattern=node, guard=None, body=[ast.Pass()]))
    if sort == "comprehension":
        return host(ast.ListComp(elt=N(8), generators=[node]))
    if sort == "excepthandler":
        return host(ast.Try(body=[ast.Pass()], handlers=[node], orelse=[], finalbody=[]))
    if sort == "type_param":
        return host(ast.FunctionDef(name="f1", args=noargs(), body=[ast.Pass()], decorator_list=[], returns=None, type_comment=None, type_params=[node]))
    raise ValueError(sort)


class _StripCtx(ast.NodeTransformer):
    def visit_Load(self, n):
        return ast.Load()

    visit_Store = visit_Del = visit_Load


def _shape(tree):
    return ast.dump(_StripCtx().visit(tree))


def roundtrip(mod):
    """unparse -> parse; the text is kept only when CPython reads it back as the same tree
    (contexts aside, which CPython assigns).  Returns text or None."""
    try:
        mod = ast.fix_missing_locations(mod)
        text = ast.unparse(mod) + "\n"
        back = ast.parse(text)
    except Exception:
        return None
    import copy

    if _shape(copy.deepcopy(back)) != _shape(copy.deepcopy(mod)):
        return None
    return text


def contains_pair(tree, pc, fname, kc):
    for n in ast.walk(tree):
        if type(n).__name__ == pc:
            v = getattr(n, fname, None)
            vs = v if isinstance(v, list) else [v]
            if any(type(x).__name__ == kc for x in vs if x is not None):
                return True
    return False


def pairwise():
    """Yield (pair_id, module_text) for every P.f := K (K minimal + variants, first/second position)
    that CPython reads back; also returns the count of dropped candidates through the `stats` dict."""
    stats = {"candidates": 0, "dropped": 0}
    out = []
    seen = set()
    for pc, (_psort, fields) in ASDL.items():
        for fname, kind, fsort in fields:
            if kind not in ("node", "list", "opt", "holes") or fsort == "expr_context" or fsort == "type_ignore":
                continue
            for kc in SORTS[fsort]:
                if kc == "MatMult" and pc == "BinOp":
                    continue  # a @ b is Scenic's vector operator (documented difference)
                if kc == "AnnAssign" and pc == "ClassDef":
                    continue  # an annotated assignment in a class body is a Scenic property definition
                for vid, kinst in instances(kc):
                    for second in ((False, True) if kind in ("list", "holes") else (False,)):
                        stats["candidates"] += 1
                        try:
                            p = place(pc, fname, kind, kinst if not second else default(kc) if vid == "0" else kinst, second)
                            if p is None:
                                stats["dropped"] += 1
                                continue
                            text = roundtrip(host(p))
                        except Exception:
                            text = None
                        if text is None or not contains_pair(ast.parse(text), pc, fname, kc):
                            stats["dropped"] += 1
                            continue
                        if text in seen:
                            continue
                        seen.add(text)
                        out.append((f"{pc}.{fname}={kc}#{vid}{'b' if second else 'a'}", text))
    return out, stats


# --------------------------------------------------------------------------- lexical catalogue

# module-level templates (statements).  Identifiers avoid every Scenic keyword (hard and soft).
LEX_STMTS = [
    # decorators
    ("deco-call", "@d0(1, k0=2)\n@d1.at0\ndef f0(p0):\n    return p0\n"),
    ("deco-class", "@d0\nclass C0(B0, metaclass=M0):\n    xx = 1\n"),
    ("deco-expr", "@(d0 if c0 else d1)\ndef f0(): pass\n"),
    # function signatures
    ("sig-all", "def f0(p0, p1=1, /, p2=2, *p3, p4, p5=5, **p6) -> r0:\n    pass\n"),
    ("sig-annot", "def f0(p0: int, *p1: str, p2: 'q' = 3, **p3: dict) -> None: ...\n"),
    ("sig-kwonly", "def f0(*, p0, p1=1): pass\n"),
    ("sig-generic", "def f0[T0, *Ts0, **P0](p0: T0) -> T0:\n    return p0\n"),
    ("sig-bound", "def f0[T0: int, T1: (int, str)](p0): pass\n"),
    ("class-generic", "class C0[T0](B0[T0]):\n    pass\n"),
    ("type-alias", "type A0 = int | str\ntype A1[T0] = list[T0]\n"),
    ("lambda-defaults", "g0 = lambda p0, p1=1, *p2, p3, p4=4, **p5: (p0, p1)\n"),
    ("lambda-posonly", "g0 = lambda p0, /, p1: p0\n"),
    # async forms
    ("async-def", "async def f0():\n    await g0()\n    async with c0 as w0, c1:\n        pass\n    async for i0 in g1():\n        pass\n    return [j0 async for j0 in g2() if await j0]\n"),
    ("async-gen", "async def f0():\n    yield 1\n    r0 = (i0 async for i0 in g0())\n"),
    # match patterns
    ("match-seq", "match s0:\n    case [1, 2, *r0]:\n        pass\n    case (h0, *_):\n        pass\n    case []:\n        pass\n"),
    ("match-map", "match s0:\n    case {'k0': v0, 'k1': [a0, b0], **r0}:\n        pass\n    case {}:\n        pass\n"),
    ("match-class", "match s0:\n    case P0(1, q0, kk=2, jj=P1()):\n        pass\n    case m0.P2():\n        pass\n"),
    ("match-or-as", "match s0:\n    case 1 | 2 | 3 as n0:\n        pass\n    case (4 | 5) as n1 if n1 > 4:\n        pass\n"),
    ("match-const", "match s0:\n    case None:\n        pass\n    case True | False:\n        pass\n    case -1 | 2.5 | 1+2j | 'st' | b'by':\n        pass\n    case m0.K0:\n        pass\n    case _:\n        pass\n"),
    ("match-tuple-subject", "match s0, s1:\n    case a0, b0:\n        pass\n"),
    ("match-star-subject", "match *s0, s1:\n    case [*a0, b0]:\n        pass\n"),
    ("match-soft", "match = 1\ncase = 2\nmatch[case]\nprint(match, case)\n"),
    # star targets
    ("empty-target-for", "for () in s0:\n    pass\nfor [] in s0: pass\n"),
    ("empty-target-assign", "() = s0\n[] = s0\na0, () = s0\n"),
    ("empty-target-del", "del ()\ndel []\n"),
    ("empty-target-with", "with c0 as ():\n    pass\n"),
    ("empty-target-comp", "r0 = [1 for () in s0]\n"),
    ("empty-display-load", "r0 = (), [], {}\ng0((), [])\n"),
    ("sig-star-annot-unpack", "def f0(*p0: *T0):\n    pass\n"),
    ("sig-star-annot-unpack-more", "def f0(p0, *p1: *tuple[int, ...], p2: int = 1, **p3: str) -> None:\n    pass\n"),
    ("sig-star-annot-plain", "def f0(*p0: T0, **p1: T1):\n    pass\n"),
    ("fdebug-after-formfeed", "s0 = 'a\x0cb'\ny0 = f'{s0=}'\n"),
    ("fdebug-after-linesep", "s0 = 'a\u2028b\x1cc\x85d'\ny0 = f'{s0 = }'\n"),
    ("formfeed-between-statements", "s0 = 1\n\x0cy0 = f'{s0=:>3}'\n"),
    ("star-target", "a0, *b0 = s0\n*a1, b1 = s0\n[a2, *b2] = s0\n(a3, (b3, *c3)) = s0\n"),
    ("star-for", "for a0, *b0 in s0:\n    pass\nfor (a1, b1), c1 in s0: pass\n"),
    ("star-subscript", "a0[0], b0.at0, *c0[1:2] = s0\n"),
    ("chain-assign", "a0 = b0 = c0, d0 = s0\n"),
    ("aug-assign", "a0 += 1; a0 -= 1; a0 *= 2; a0 /= 2; a0 //= 2; a0 %= 2; a0 **= 2; a0 >>= 1; a0 <<= 1; a0 &= 1; a0 ^= 1; a0 |= 1\n"),
    ("aug-matmult", "a0 @= b0\n"),
    ("ann-assign", "a0: int = 1\nb0: list[int]\n(c0): int = 2\nd0.at0: str = 's'\ne0[0]: int = 3\n"),
    ("del-forms", "del a0, b0[0], c0.at0\ndel (d0, e0)\ndel [g0]\n"),
    # walrus
    ("walrus", "if (n0 := len(a0)) > 1: pass\nwhile (c0 := g0()): pass\nr0 = [y0 := 1, y0 ** 2]\nr1 = [z0 for w0 in s0 if (z0 := w0)]\ng0(x0 := 1)\n"),
    # comprehensions
    ("comp-nested", "r0 = [i0 * j0 for i0 in a0 if i0 for j0 in b0 if j0 if i0 < j0]\n"),
    ("comp-dict-set", "r0 = {k0: v0 for k0, v0 in a0}\nr1 = {i0 for i0 in a0}\nr2 = sum(i0 for i0 in a0)\nr3 = g0(i0 for i0 in a0)\n"),
    ("comp-star-target", "r0 = [a0 for a0, *b0 in s0]\n"),
    # line continuation and layout
    ("continuation", "a0 = 1 + \\\n    2\nif a0 and \\\n   b0:\n    pass\n"),
    ("paren-multiline", "a0 = (1 +\n      2)\nb0 = [\n    1,\n    2,\n]\nc0 = g0(\n    1,\n    k0=2,\n)\n"),
    ("semicolons", "a0 = 1; b0 = 2;\nif a0: b0 = 3; c0 = 4\n"),
    ("comments", "# lead\na0 = 1  # trail\n\n\n# mid\nb0 = 2\n"),
    ("tabs", "if a0:\n\tb0 = 1\n\tif b0:\n\t\tc0 = 2\n"),
    ("blank-indent", "def f0():\n    a0 = 1\n\n    # c\n    return a0\n\n"),
    ("docstrings", 'def f0():\n    """doc"""\n    return 1\nclass C0(B0):\n    """cdoc"""\n'),
    ("no-trailing-newline", "a0 = 1"),
    ("formfeed-unicode-ident", "été0 = 1\nα = été0\n"),
    # control flow
    ("try-full", "try:\n    pass\nexcept E0:\n    pass\nexcept (E1, E2) as e0:\n    raise E3 from e0\nexcept:\n    raise\nelse:\n    pass\nfinally:\n    pass\n"),
    ("try-star", "try:\n    pass\nexcept* E0 as e0:\n    pass\nexcept* (E1, E2):\n    pass\n"),
    ("with-forms", "with a0 as b0, c0 as (d0, e0), g0():\n    pass\nwith (a1 as b1, c1 as d1,):\n    pass\nwith (a2): pass\nwith (a3, b3): pass\n"),
    ("loops-else", "for i0 in a0:\n    break\nelse:\n    pass\nwhile a0:\n    continue\nelse:\n    pass\n"),
    ("if-chain", "if a0:\n    pass\nelif b0:\n    pass\nelif c0:\n    pass\nelse:\n    pass\n"),
    ("imports", "import m0, m1.m2 as m3\nfrom m4 import n0, n1 as n2\nfrom . import n3\nfrom ..m5 import (n4, n5 as n6,)\nfrom ...m6.m7 import *\nfrom .... import n7\n"),
    ("global-nonlocal", "def f0():\n    global g0, g1\n    def f1():\n        nonlocal h0\n"),
    ("yield-forms", "def f0():\n    a0 = yield\n    b0 = yield 1, 2\n    yield from g0()\n    c0 = (yield)\n    return (yield 3)\n"),
    ("return-star", "def f0():\n    return 1, *a0\n"),
    ("assert-raise", "assert a0, 'msg'\nassert (a0, b0)\nraise E0('x') from None\n"),
    # expression statements exercising operators
    ("precedence", "r0 = a0 or b0 and not c0 < d0 | e0 ^ g0 & h0 << 1 + 2 * -3 ** -i0\n"),
    ("compare-chain", "r0 = a0 < b0 <= c0 == d0 != e0 > g0 >= h0 is i0 is not j0 in k0 not in l0\n"),
    ("power-unary", "r0 = -a0 ** -b0\nr1 = (-a0) ** 2\nr2 = ~+-a0\nr3 = not not a0\n"),
    ("ternary-nested", "r0 = a0 if b0 else c0 if d0 else e0\nr1 = (a0 if b0 else c0) if d0 else e0\n"),
    ("subscripts", "r0 = a0[1], a0[1:2], a0[::3], a0[1:2, ::3], a0[...], a0[b0:c0:d0], a0[(1, 2)], a0[*b0], a0[1:2, *b0]\n"),
    ("calls", "g0(1, *a0, 2, *b0, k0=3, **c0, k1=4, **d0)\ng0(a0)(b0)[c0].at0(d0)\ng0(i0 for i0 in a0)\n"),
    ("displays", "r0 = [], (), {}, {1}, {1: 2}, [*a0], (*a0,), {*a0}, {**a0}, {**a0, 1: 2}, (1,), [1,], {1,}\n"),
    ("attr-number", "r0 = 1 .real, 1.0.real, (1).real, 1j.imag\n"),
    ("ellipsis-none", "r0 = ..., None, True, False, __debug__\n"),
    ("dunder-names", "__all__ = ['a0']\n_x0 = __name__\n"),
    ("paren-yield-await-lambda", "def f0():\n    r0 = [(yield), (lambda: (yield))]\n"),
    ("star-expr-stmt", "*a0, b0\n"),
    ("print-soft-kw", "print(a0, end='')\nexec('x')\n"),
]

# expression templates; hosted as `r0 = <e>` and embedded (parenthesised) in require / specifier
LEX_EXPRS = [
    # string prefixes and quote styles
    ("str-single", "'a'"), ("str-double", '"a"'), ("str-triple-s", "'''a\nb'''"), ("str-triple-d", '"""a\n"b" c"""'),
    ("str-raw", r"r'\n\d'"), ("str-Raw", r'R"\n"'), ("str-bytes", r"b'a\x00\n'"), ("str-Bytes", 'B"a"'), ("str-br", r"br'\n'"), ("str-rb", r"rb'\n'"),
    ("str-Rb", r'Rb"\n"'), ("str-u", "u'a'"), ("str-U", 'U"a"'), ("str-empty", "''"), ("str-quotes-inside", "'a\"b' \"c'd\""),
    # escapes
    ("esc-simple", r"'\n\t\r\\\'\"\a\b\f\v\0'"), ("esc-octal", r"'\7\77\377'"), ("esc-hex", r"'\x41\xff'"), ("esc-u", r"'é\U0001F600'"),
    ("esc-N", r"'\N{BULLET}\N{LATIN SMALL LETTER E WITH ACUTE}'"), ("esc-linecont", "'a\\\nb'"), ("esc-bytes", r"b'\x41\101\n\\'"),
    ("str-nonascii", "'é中\U0001F600'"),
    # implicit concatenation
    ("cat-two", "'a' 'b'"), ("cat-three", "'a' \"b\" '''c'''"), ("cat-bytes", "b'a' b'b'"), ("cat-raw", r"'a\n' r'b\n'"), ("cat-u", "u'a' 'b'"),
    ("cat-multiline", "('a'\n 'b'\n 'c')"), ("cat-f-first", "f'{v0}' 'b'"), ("cat-f-last", "'a' f'{v0}'"), ("cat-f-mid", "'a' f'{v0}' 'b' f'{v1}' 'c'"),
    ("cat-f-f", "f'a{v0}' f'b{v1}'"), ("cat-f-noexpr", "f'a' 'b'"), ("cat-f-only-text", "f'a' f'b'"),
    # f-strings
    ("f-plain", "f'a{v0}b'"), ("f-empty", "f''"), ("f-text-only", "f'abc'"), ("f-two", "f'{v0}{v1}'"), ("f-expr", "f'{v0 + 1}{v1.at0[0]}{g0(v2)}'"),
    ("f-spaces", "f'{ v0 }'"), ("f-triple", "f'''a\n{v0}\nb'''"), ("f-triple-expr-multiline", "f'''{\nv0\n}'''"), ("f-raw", r"rf'\d{v0}\n'"), ("f-Raw", r"fR'\d{v0}'"),
    ("f-upper", "F'{v0}'"), ("f-spec", "f'{v0:>10}'"), ("f-spec-nested", "f'{v0:{v1}}'"), ("f-spec-nested2", "f'{v0:{v1}.{v2}}'"), ("f-spec-deep", "f'{v0:{v1:{v2}}}'"),
    ("f-spec-date", "f'{v0:%Y-%m-%d}'"), ("f-spec-empty", "f'{v0:}'"), ("f-spec-colon-expr", "f'{v0[1:2]:x}'"), ("f-lambda-paren", "f'{(lambda: 1)()}'"),
    ("f-dict", "f'{ {1: 2}[1] }'"), ("f-tuple", "f'{v0, v1}'"), ("f-star", "f'{*v0, v1}'"), ("f-ternary", "f'{v0 if v1 else v2}'"), ("f-walrus", "f'{(v9 := 1)}'"),
    ("f-nested-same-quote", "f'{f'{v0}'}'"), ("f-nested-other-quote", "f'{f\"{v0}\"}'"), ("f-nested-deep", "f'{f'{f'{v0}'}'}'"), ("f-quote-in-expr", "f'{v0['k']}'"),
    ("f-string-in-expr", "f'{'a' + v0}'"), ("f-ne", "f'{v0!=v1}'"), ("f-eqeq", "f'{v0==v1}'"), ("f-kwarg", "f'{g0(k0=1)}'"), ("f-yield-paren", "f'{(yield)}'"),
    ("f-comment-multiline", "f'''{\nv0  # c\n}'''"), ("f-backslash-in-expr", "f'{'\\n'.join(v0)}'"),
    # f-string conversions                                       (fstr-bang)
    ("f-conv-r", "f'{v0!r}'"), ("f-conv-s", "f'{v0!s}'"), ("f-conv-a", "f'{v0!a}'"), ("f-conv-spec", "f'{v0!r:>10}'"), ("f-conv-nested-spec", "f'{v0!s:{v1}}'"),
    ("f-conv-in-nested", "f'{v0:{v1!r}}'"), ("f-conv-text", "f'a{v0!r}b'"),
    # f-string escapes in the literal part                        (fstr-escape)
    ("f-esc-n", r"f'a\nb{v0}'"), ("f-esc-t-after", r"f'{v0}\t'"), ("f-esc-hex", r"f'\x41{v0}'"), ("f-esc-N", r"f'\N{BULLET}{v0}'"), ("f-esc-quote", r"f'\'{v0}\''"),
    ("f-esc-backslash", r"f'\\{v0}'"), ("f-esc-text-only", r"f'a\nb'"), ("f-esc-linecont", "f'a\\\nb{v0}'"), ("f-esc-spec", r"f'{v0:\n}'"), ("f-esc-u", r"f'é{v0}'"),
    # doubled braces                                              (fstr-braces)
    ("f-braces", "f'{{a}}{v0}'"), ("f-braces-only", "f'{{}}'"), ("f-braces-open", "f'{{{v0}'"), ("f-braces-close", "f'{v0}}}'"),
    # debug form                                                  (fstr-debug)
    ("f-debug", "f'{v0=}'"), ("f-debug-spaces", "f'{v0 = }'"), ("f-debug-conv", "f'{v0=!s}'"), ("f-debug-spec", "f'{v0=:>4}'"), ("f-debug-text", "f'a{v0=}b'"), ("f-debug-expr", "f'{v0+1=}'"),
    # numeric literals
    ("num-int", "[0, 7, 10, 1_000_000, 00, 0_0]"), ("num-hex", "[0x1F, 0Xff, 0x_f]"), ("num-oct", "[0o17, 0O7, 0o_7]"), ("num-bin", "[0b11, 0B1, 0b_1]"),
    ("num-big", "[123456789012345678901234567890, 0xFFFFFFFFFFFFFFFFFF]"), ("num-float", "[1.5, .5, 5., 1e3, 1E-3, 1.5e+3, 1_0.0_1, 1e1_0]"),
    ("num-imag", "[1j, 1.5J, .5j, 1e3j, 1_0j]"), ("num-neg", "[-1, -1.5, -1j, +1]"), ("num-complex-expr", "[1+2j, 1-2j]"),
    ("num-float-repr", "[0.1, 1e400, 1e-400, 0.30000000000000004]"),
]

# ---- rewrite triggers in several positions (module level; the harness also embeds the expressions)
TRIGGER_EXPRS = [
    ("trig-ego", "ego"), ("trig-ego-attr", "ego.at0"), ("trig-ego-call-arg", "g0(ego, k0=ego)"), ("trig-ego-nested", "[ego for i0 in a0 if ego]"),
    ("trig-ego-lambda", "lambda p0=ego: ego"), ("trig-ego-fstring", "f'{ego}'"), ("trig-ego-subscript", "a0[ego]"), ("trig-ego-binop", "ego + workspace"),
    ("trig-workspace", "workspace"), ("trig-workspace-attr", "workspace.at0.at1"), ("trig-workspace-call", "workspace.at0(1)"),
    ("trig-gp", "globalParameters"), ("trig-gp-attr", "globalParameters.qq"), ("trig-gp-sub", "globalParameters['qq']"), ("trig-gp-arg", "g0(globalParameters)"),
    ("trig-str", "str(a0)"), ("trig-int", "int(a0)"), ("trig-float", "float(a0)"), ("trig-str-nested", "str(int(float(a0)))"), ("trig-str-kw", "str(a0, encoding=b0)"),
    ("trig-str-noncall", "g0(str, int, float)"), ("trig-str-attr-call", "str.join(a0, b0)"), ("trig-str-method", "a0.str(b0)"), ("trig-int-ego", "int(ego)"),
    ("trig-str-isinstance", "isinstance(a0, (str, int, float))"), ("trig-bool-not-lifted", "bool(a0)"), ("trig-ego-called", "ego()"),
    ("trig-star", "g0(*a0)"), ("trig-star-two", "g0(1, *a0, *b0, 2)"), ("trig-star-kw", "g0(*a0, k0=1, **b0)"), ("trig-star-nested", "g0(*h0(*a0))"),
    ("trig-star-ego", "g0(*ego)"), ("trig-star-str", "str(*a0)"), ("trig-star-method", "a0.at0(*b0)"), ("trig-star-multiline", "g0(1,\n    *a0)"),
    ("trig-dstar-only", "g0(**a0)"), ("trig-star-in-list", "[*a0]"), ("trig-star-lambda", "(lambda *p0: p0)(*a0)"), ("trig-star-expr", "g0(*(a0 or b0))"),
]

TRIGGER_STMTS = [
    ("trig-class-nobase", "class C0:\n    pass\n"),
    ("trig-class-nobase-paren", "class C0():\n    xx = 1\n"),
    ("trig-class-base", "class C0(B0):\n    xx = 1\n"),
    ("trig-class-kw-only", "class C0(metaclass=M0):\n    pass\n"),
    ("trig-class-doc", 'class C0:\n    """doc"""\n    xx = 1\n    def m0(self):\n        return ego\n'),
    ("trig-class-nested", "class C0(B0):\n    class C1:\n        pass\n"),
    ("trig-class-in-def", "def f0():\n    class C0:\n        pass\n    return C0\n"),
    ("trig-class-deco", "@d0\nclass C0:\n    pass\n"),
    ("trig-class-star-base", "class C0(*a0):\n    pass\n"),
    ("trig-class-generic", "class C0[T0]:\n    pass\n"),
    ("trig-ego-def", "def f0():\n    return ego.at0\n"),
    ("trig-ego-default", "def f0(p0=ego):\n    pass\n"),
    ("trig-ego-deco", "@ego\ndef f0(): pass\n"),
    ("trig-ego-for-iter", "for i0 in ego:\n    pass\n"),
    ("trig-ego-with", "with ego as w0:\n    pass\n"),
    ("trig-ego-del", "del ego\n"),
    ("trig-ego-for-target", "for ego in a0:\n    pass\n"),
    ("trig-ego-aug", "ego += 1\n"),
    ("trig-ego-tuple-target", "ego, a0 = b0\n"),
    ("trig-ego-walrus", "r0 = (ego := 1)\n"),
    ("trig-ego-with-target", "with a0 as ego:\n    pass\n"),
    ("trig-workspace-del", "del workspace\n"),
    ("trig-gp-store", "globalParameters = 1\n"),
    ("trig-str-store", "str = 1\n"),
    ("trig-int-for", "for int in a0:\n    pass\n"),
    ("trig-float-del", "del float\n"),
    ("trig-str-param", "def f0(str, int=1):\n    pass\n"),
    ("trig-str-attr-store", "a0.str = 1\n"),
    ("trig-str-import", "import m0 as str\n"),
    ("trig-star-stmt", "g0(*a0)\nr0 = h0(*b0, *c0)\n"),
    ("trig-star-in-def", "def f0(*p0):\n    return g0(*p0)\n"),
    ("trig-star-in-lambda", "r0 = lambda *p0: g0(*p0)\n"),
    ("trig-star-in-class", "class C0(B0):\n    xx = g0(*a0)\n"),
    ("trig-star-deco", "@d0(*a0)\ndef f0(): pass\n"),
    ("trig-all", "class C0:\n    def m0(self, *p0):\n        return str(g0(*p0, ego, globalParameters.qq, int(workspace.at0)))\n"),
]

def arg_orderings(maxeach=2):
    """Every order of 0..maxeach positional (P), *iterable (S), keyword (K) and **mapping (D) arguments
    that CPython accepts in a call (the same list is accepted for class bases/keywords), as
    (order string, argument text)."""
    seen = set()
    for a, b, c, d in itertools.product(range(maxeach + 1), repeat=4):
        for perm in set(itertools.permutations("P" * a + "S" * b + "K" * c + "D" * d)):
            seen.add("".join(perm))
    out = []
    for o in sorted(seen, key=lambda x: (len(x), x)):
        cnt = {"P": 0, "S": 0, "K": 0, "D": 0}
        parts = []
        for ch in o:
            i = cnt[ch]
            cnt[ch] += 1
            parts.append({"P": f"a{i}", "S": f"*s{i}", "K": f"k{i}=w{i}", "D": f"**d{i}"}[ch])
        args = ", ".join(parts)
        try:
            ast.parse(f"g0({args})\n")
        except SyntaxError:
            continue
        out.append((o or "none", args))
    return out


def debug_field_forms():
    """f-string replacement fields: expression x debug `=` x conversion x format spec (incl. empty
    and nested specs, nested debug fields), as (id, expression text)."""
    out = []
    exprs = [("n", "v0"), ("e", "v0 + 1"), ("sp", " v0 ")]
    eqs = [("", ""), ("eq", "="), ("eqsp", " = ")]
    convs = [("", ""), ("r", "!r"), ("s", "!s"), ("a", "!a")]
    specs = [("", ""), ("emp", ":"), ("w", ":>4"), ("f", ":.2f"), ("nest", ":{v1}"), ("nest2", ":{v1}.{v2}"), ("nestdbg", ":{v1=}"),
             ("nestconv", ":{v1!r:>3}"), ("text", ":%Y-%m")]
    for (ei, e), (qi, q), (ci, c), (si, sp) in itertools.product(exprs, eqs, convs, specs):
        out.append((f"fdbg-{ei}-{qi or 'no'}-{ci or 'no'}-{si or 'no'}", "f'a{" + e + q + c + sp + "}b'"))
    out.append(("fdbg-two", "f'{v0=}{v1=!s}{v2=:>3}'"))
    out.append(("fdbg-triple", "f\'\'\'{v0=}\n{v1 = :>3}\'\'\'"))
    out.append(("fdbg-concat", "'s' f'{v0=:.2f}' 't' f'{v1=}'"))
    return out


def subscript_forms():
    """Subscripts with 1..3 index elements (name / slice / extended slice / starred / ellipsis), with and
    without a trailing comma, as load / store / del / augmented-assignment targets and in annotations;
    only those CPython accepts are kept.  Returns (id, module text)."""
    elems = {"n": "i{k}", "s": "{k}:j{k}", "x": "::s{k}", "t": "*t{k}", "e": "...", "p": "(i{k}, j{k})"}
    out = []
    for n in (1, 2, 3):
        for kinds in itertools.product(elems, repeat=n):
            idx = ", ".join(elems[kd].format(k=k) for k, kd in enumerate(kinds))
            for comma in ("", ","):
                sub = f"a0[{idx}{comma}]"
                forms = {"load": f"r0 = {sub}\n", "store": f"{sub} = r0\n", "del": f"del {sub}\n", "aug": f"{sub} += 1\n",
                         "ann": f"r0: {sub} = 1\n", "sig": f"def f0(p0: {sub}) -> {sub}:\n    pass\n", "nested": f"r0 = a0[b0[{idx}{comma}]]\n"}
                for fk, text in forms.items():
                    try:
                        ast.parse(text)
                    except SyntaxError:
                        continue
                    out.append((f"sub-{''.join(kinds)}{'c' if comma else ''}-{fk}", text))
    return out


_KEYWORDS_CACHE = None


def scenic_keywords():
    global _KEYWORDS_CACHE
    if _KEYWORDS_CACHE is None:
        from scenic.syntax.parser import ScenicParser

        _KEYWORDS_CACHE = set(ScenicParser.KEYWORDS) | set(ScenicParser.SOFT_KEYWORDS)
    return _KEYWORDS_CACHE


# --------------------------------------------------------------------------- lexical features


def features(text):
    """Token-level features of a text that the tree does not carry (used by the spec's trigger
    predicates for the as-implemented f-string deviations)."""
    feats = set()
    toks = []
    try:  # keep the tokens before a tokenizer error: the parser sees them too
        for t in tokenize.generate_tokens(io.StringIO(text).readline):
            toks.append(t)
    except Exception:
        pass
    fstack = []  # prefixes of the enclosing f-strings
    brace = []  # per f-string: current nesting of replacement-field braces
    prev_sig = None
    for i, t in enumerate(toks):
        ty = t.type
        if ty == tokenize.FSTRING_START:
            fstack.append(t.string.lower())
            brace.append(0)
        elif ty == tokenize.FSTRING_END:
            if fstack:
                fstack.pop()
                brace.pop()
        elif ty == tokenize.FSTRING_MIDDLE and fstack:
            raw = "r" in fstack[-1]
            src = t.string
            if "\\" in src and not raw:
                feats.add("fstr-escape")
            lit = src if raw else re.sub(r"\\N\{[^}]*\}", "", src)
            if "{" in lit or "}" in lit:
                feats.add("fstr-braces")
        elif fstack and ty == tokenize.OP:
            if t.string == "!" and i + 1 < len(toks) and toks[i + 1].type == tokenize.NAME:
                feats.add("fstr-bang")
            if t.string == "=" and i + 1 < len(toks) and toks[i + 1].string in ("}", "!", ":"):
                feats.add("fstr-debug")
        if ty == tokenize.STRING and prev_sig is not None and prev_sig.type == tokenize.STRING:
            feats.add("concat")
        if ty == tokenize.STRING and prev_sig is not None and prev_sig.type == tokenize.FSTRING_END:
            feats.add("concat-f")
        if ty == tokenize.FSTRING_START and prev_sig is not None and prev_sig.type in (tokenize.STRING, tokenize.FSTRING_END):
            feats.add("concat-f")
        if ty not in (tokenize.NL, tokenize.COMMENT):
            prev_sig = t
    return sorted(feats)


# --------------------------------------------------------------------------- cases


def _indent(text):
    return "".join(("    " + l if l.strip() else l) for l in text.splitlines(True))


def embed_behavior(stmt_text):
    body = _indent(stmt_text if stmt_text.endswith("\n") else stmt_text + "\n")
    return "behavior Bh0():\n" + body, "def Bh0():\n" + body


def embed_expr(prefix, etext, paren):
    """Scenic: prefix [ ( ] e [ ) ]; Python: the same columns for e inside one pair of parentheses."""
    if paren:
        s = prefix + "(" + etext + ")\n"
        pre = len(prefix) + 1
    else:
        s = prefix + etext + "\n"
        pre = len(prefix)
    return s, "(" + " " * (pre - 1) + etext + "\n)\n"


REQ_PREFIX = "require "
SPEC_PREFIX = "zz0 = new Object with pp0 "


def _has(tree, *types):
    return any(isinstance(n, types) for n in ast.walk(tree))


def make_case(cid, ctx, text, pytext, kind):
    """Parse pytext with CPython; returns the case dict or None (dropped)."""
    try:
        tree = ast.parse(pytext)
    except (SyntaxError, ValueError, RecursionError):
        return None
    if ctx == "behavior":
        frag = tree.body[0]  # the def: the spec looks at its body
    elif ctx in ("require", "specifier"):
        frag = tree.body[0].value
    else:
        frag = tree
    return {"id": cid, "ctx": ctx, "text": text, "pytext": pytext, "kind": kind, "feat": features(text), "tree": encode(frag)}


def all_cases(tier, seed):
    """The case list for a tier.  Returns (cases, stats)."""
    rnd = random.Random(seed * 104729 + 17)
    pairs, stats = pairwise()
    stats["pairs"] = len(pairs)
    cases = []
    dropped = stats["dropped"]
    kw = scenic_keywords()

    def ok_ident(text):
        try:
            names = {t.string for t in tokenize.generate_tokens(io.StringIO(text).readline) if t.type == tokenize.NAME}
        except Exception:
            return True
        import keyword

        return not any(n in kw and not keyword.iskeyword(n) and n not in ("match", "case", "type", "_", "ego", "workspace") for n in names)

    def add(cid, ctx, text, pytext, kind):
        nonlocal dropped
        c = make_case(cid, ctx, text, pytext, kind)
        if c is None:
            dropped += 1
        else:
            cases.append(c)

    # ---- pairwise trees: module level (all), plus embeddings
    emb = []
    for k, (pid, text) in enumerate(pairs):
        if tier == "quick" and pid.endswith("b") and (k + seed) % 3:
            continue  # quick: a third of the second-position variants
        add("pw:" + pid, "module", text, text, "pair")
        tree = ast.parse(text)
        # statement-rooted -> behaviour body (yield is refused in behaviours: not part of the claim)
        if not _has(tree, ast.Yield, ast.YieldFrom):
            emb.append(("beh",) + (pid, text))
        # expression-rooted (host `r0 = <e>`) -> require condition / specifier argument
        b = tree.body
        if len(b) == 1 and isinstance(b[0], ast.Assign) and len(b[0].targets) == 1 and isinstance(b[0].targets[0], ast.Name) and b[0].targets[0].id == "r0":
            emb.append(("expr", pid, ast.unparse(b[0].value)))
    if tier == "quick":
        rnd.shuffle(emb)
        emb = emb[: len(emb) // 10]
        emb.sort()
    for e in emb:
        if e[0] == "beh":
            s, p = embed_behavior(e[2])
            add("pw-beh:" + e[1], "behavior", s, p, "pair")
        else:
            for paren in (True, False):
                s, p = embed_expr(REQ_PREFIX, e[2], paren)
                add(f"pw-req{'P' if paren else 'U'}:" + e[1], "require", s, p, "pair")
                s, p = embed_expr(SPEC_PREFIX, e[2], paren)
                add(f"pw-spec{'P' if paren else 'U'}:" + e[1], "specifier", s, p, "pair")

    # ---- argument lists: every order of positional / *args / keyword / **kwargs CPython accepts (0..2 of
    # each), in calls and in class definitions (all at module level; calls also inside behaviours)
    orders = arg_orderings()
    stats["arg_orderings"] = len(orders)
    for k, (o, args) in enumerate(orders):
        t = f"r0 = g0({args})\n"
        add(f"ord:call:{o}", "module", t, t, "order")
        t = f"class C0({args}):\n    pass\n"
        add(f"ord:class:{o}", "module", t, t, "order")
        if tier != "quick" or (k + seed) % 4 == 0:
            s_, p_ = embed_behavior(f"r0 = g0({args})\n")
            add(f"ord-beh:call:{o}", "behavior", s_, p_, "order")
            s_, p_ = embed_expr(REQ_PREFIX, f"g0({args})", True)
            add(f"ord-reqP:call:{o}", "require", s_, p_, "order")

    # ---- f-string debug fields x conversion x format spec; subscripts x elements x trailing comma x use
    for k, (fid, e) in enumerate(debug_field_forms()):
        t = "r0 = " + e + "\n"
        add(f"fdbg:{fid}", "module", t, t, "fdbg")
        if tier != "quick" or (k + seed) % 6 == 0:
            s_, p_ = embed_behavior(t)
            add(f"fdbg-beh:{fid}", "behavior", s_, p_, "fdbg")
            if "\n" not in e:
                s_, p_ = embed_expr(SPEC_PREFIX, e, True)
                add(f"fdbg-specP:{fid}", "specifier", s_, p_, "fdbg")
    subs = subscript_forms()
    stats["subscript_forms"] = len(subs)
    for k, (sid, t) in enumerate(subs):
        nel = len(sid.split("-")[1].rstrip("c"))
        if tier == "quick" and ((nel == 3 and (k + seed) % 8) or (nel == 2 and (k + seed) % 2)):
            continue  # quick: an eighth of the three-element forms, half of the two-element ones
        add(f"sub:{sid}", "module", t, t, "subscript")
        if tier != "quick" or (k + seed) % 8 == 0:
            s_, p_ = embed_behavior(t)
            add(f"sub-beh:{sid}", "behavior", s_, p_, "subscript")

    # ---- lexical catalogue and rewrite triggers: every context
    for group, stmts, exprs in (("lex", LEX_STMTS, LEX_EXPRS), ("trig", TRIGGER_STMTS, TRIGGER_EXPRS)):
        for lid, text in stmts:
            add(f"{group}:{lid}", "module", text, text, group)
            try:
                t = ast.parse(text)
            except SyntaxError:
                continue
            if not _has(t, ast.Yield, ast.YieldFrom) and not text.startswith(("\t", " ")):
                s, p = embed_behavior(text)
                add(f"{group}-beh:{lid}", "behavior", s, p, group)
        for lid, e in exprs:
            text = "r0 = " + e + "\n"
            add(f"{group}:{lid}", "module", text, text, group)
            s, p = embed_behavior("r0 = " + e + "\ng0(" + e + ")\n")
            if "yield" not in e:
                add(f"{group}-beh:{lid}", "behavior", s, p, group)
            multiline = "\n" in e and not e.startswith(("(", "'''", '"""', "f'''"))
            for paren in (True, False):
                if multiline and not paren:
                    continue
                s, p = embed_expr(REQ_PREFIX, e, paren)
                add(f"{group}-req{'P' if paren else 'U'}:{lid}", "require", s, p, group)
                s, p = embed_expr(SPEC_PREFIX, e, paren)
                add(f"{group}-spec{'P' if paren else 'U'}:{lid}", "specifier", s, p, group)
    bad = [c["id"] for c in cases if not ok_ident(c["pytext"])]
    if bad:
        raise AssertionError(f"generator used a Scenic keyword as identifier: {bad[:5]}")
    stats["dropped"] = dropped
    return cases, stats
