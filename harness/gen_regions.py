"""Lattice regions shared by C16 (RegionAlg.tla) and C03 (RegionSampling.tla).

One descriptor (a dict of integers, coordinates = real coordinates * 8) is the single source for
both worlds: `to_tla` hands it to TLC unchanged, `build` constructs the real scenic region
through the public Python API.  This printer pair is the trusted glue (DESIGN 1.3)."""

import math
import random

S = 8  # lattice scale: integer = real * 8


def _i(x):
    v = x * S
    r = round(v)
    assert abs(v - r) < 1e-9, x
    return int(r)


def P(k, n=(), s=(), name=""):
    return {"k": k, "n": [int(v) for v in n], "s": [[int(v) for v in e] for e in s], "name": name}


# ---- constructors from real coordinates
def vol(name, *boxes):
    return P("vol", (), [[_i(v) for v in b] for b in boxes], name)


def poly(name, z, *rects):
    return P("poly", (_i(z),), [[_i(v) for v in r] for r in rects], name)


def mpoly(name, z, *rects):
    """A PolygonalRegion whose shapely geometry is a MultiPolygon of pairwise disjoint (not even
    touching) rectangles, in the given order of components."""
    d = poly(name, z, *rects)
    d["multi"] = True
    return d


def fp(name, *rects):
    return P("fp", (), [[_i(v) for v in r] for r in rects], name)


def rect(name, cx, cy, z, width, length, h4):
    return P("rect", (_i(cx), _i(cy), _i(z), _i(width), _i(length), h4), (), name)


def circ(name, cx, cy, z, r):
    return P("circ", (_i(cx), _i(cy), _i(z), _i(r)), (), name)


def sect(name, cx, cy, z, r, h8, half):
    return P("sect", (_i(cx), _i(cy), _i(z), _i(r), h8, half), (), name)


def pline(name, *pts):
    return P("pline", (), [[_i(v) for v in p] for p in pts], name)


def path(name, *pts):
    return P("path", (), [[_i(v) for v in p] for p in pts], name)


def pset(name, *pts):
    return P("pset", (), [[_i(v) for v in p] for p in pts], name)


def sph(name, cx, cy, cz, r):
    return P("sph", (_i(cx), _i(cy), _i(cz), _i(r)), (), name)


def surf(name, *boxes):
    return P("surf", (), [[_i(v) for v in b] for b in boxes], name)


def grid(name, rows, ax, ay, bx, by):
    """GridRegion: rows[y][x] == 0 is free space; the point of cell (x, y) is (ax*x + bx, ay*y + by, 0)
    (class docstring).  For the spec it is the point set of the free cells."""
    pts = [(ax * x + bx, ay * y + by, 0) for y, row in enumerate(rows) for x, v in enumerate(row) if v == 0]
    d = pset(name, *pts)
    d["grid"] = {"rows": rows, "ax": ax, "ay": ay, "bx": bx, "by": by}
    return d


def comp(op, a, b):
    return {"k": op, "a": to_tla(a), "b": to_tla(b), "name": f"{a['name']}{ {'inter': '&', 'union': '|', 'diff': '-'}[op]}{b['name']}"}


ALL = P("all", name="everywhere")
EMPTY = P("empty", name="nowhere")


def catalogue():
    """Three or more instances per kind, planar kinds at the two heights 0 and 2."""
    return [
        vol("V1", (-2, 2, -1, 3, -1, 3)),
        vol("V2", (0, 4, -3, 1, 1, 4)),
        vol("V3", (-4, 0, -4, -2, -1, 1), (-4, -2, -2, 2, -1, 1)),
        poly("P1", 0, (-3, 1, -2, 2)),
        poly("P2", 2, (-3, 3, -3, -1), (-3, 3, 1, 3), (-3, -1, -1, 1), (1, 3, -1, 1)),
        poly("P3", 2, (0, 4, 0, 2), (0, 2, 2, 4)),
        poly("P4", 0, (-1, 3, -3, 1)),
        rect("R1", 1, 0, 0, 4, 2, 0),
        rect("R2", -1, 1, 2, 2, 6, 1),
        rect("R3", 0, -2, 2, 6, 2, 2),
        circ("C1", 0, 0, 0, 3),
        circ("C2", 1, 1, 2, 2),
        circ("C3", -2, 0, 2, 3),
        sect("S1", 0, 0, 0, 4, 0, 1),
        sect("S2", 0, -1, 2, 4, 2, 2),
        sect("S3", 1, 0, 2, 3, 4, 3),
        sect("S4", 0, 0, 2, 4, 1, 1),
        pline("L1", (-4, 0.25), (3.25, 0.25), (3.25, -3)),
        pline("L2", (-1.75, -4), (-1.75, 4)),
        pline("L3", (-3, 2.25), (2, 2.25)),
        path("T1", (-3, 0.25, 2), (3.25, 0.25, 2), (3.25, 0.25, -1)),
        path("T2", (-1.75, -3, 0), (-1.75, 3, 0)),
        pset("Q1", (0.25, 0.25, 0), (-1.75, 0.25, 0), (3.25, -2.75, 0), (0.25, 2.25, 2), (-2.75, -2.75, 2), (1.25, 1.25, 2)),
        pset("Q2", (0.25, 0.25, 0), (1.25, 0.25, 0), (-1.75, -1.75, 0), (2.25, -2.75, 0)),
        pset("Q3", (1.25, 1.25, 2), (-2.75, 0.25, 2), (2.25, -1.75, 2), (0.25, 3.25, 2), (1.25, 1.25, 0.25)),
        # mesh volumes whose horizontal cross-sections have a hole: a frame (box minus a through box)
        # and a two-level shape (solid slab below z = 1, frame above)
        vol("W1", (-3, 3, -3, -1, -1, 3), (-3, 3, 1, 3, -1, 3), (-3, -1, -1, 1, -1, 3), (1, 3, -1, 1, -1, 3)),
        vol("W2", (-3, 3, -3, 3, -1, 1), (-3, 3, -3, -1, 1, 3), (-3, 3, 1, 3, 1, 3), (-3, -1, -1, 1, 1, 3), (1, 3, -1, 1, 1, 3)),
        poly("H1", 2, (-0.5, 0.75, -0.5, 0.75)),       # wholly inside the hole
        poly("H2", 2, (-2, 2, -2, 2)),                 # covers the hole and part of the frame
        # polygons with several connected components of different areas (2,1 at z=0; 1,3,2 at z=2)
        mpoly("M1", 0, (-4, -2, -1, 0), (2, 3, -1, 0)),
        mpoly("M3", 2, (-4, -3, -4, -3), (-2, 1, -4, -3), (2, 4, -4, -3)),
        fp("F1", (-2, 2, -2, 2)),
        fp("F2", (0, 3, 0, 1), (0, 1, 1, 3)),
        ALL,
        EMPTY,
    ]


def more_multipolygons():
    """Further multi-component polygons and the strips that cut a polygon into disjoint pieces of
    different areas (used by C03's triangulation checks)."""
    return [
        mpoly("M2", 0, (-4, -3, 1, 2), (0, 2, 1, 2)),                 # areas 1, 2
        mpoly("M4", 2, (1, 3, 2, 3), (-3, -2, 2, 3)),                 # areas 2, 1
        poly("K1", 0, (0, 1, -3, 3)),      # R1 - K1: pieces of area 2 and 4
        poly("K2", 2, (-1, 0, -4, 0)),     # R3 - K2: pieces of area 4 and 6
        poly("K3", 2, (-1, 0, -2, 4)),     # P2 & K3: pieces of area 1 and 2 (the annulus' hole splits the strip)
        poly("K4", 0, (2, 4, 2.5, 3.5)),   # P1 | K4: two components of area 16 and 2
    ]


def shift_z(desc, dz, name=None):
    """The same region translated by dz lattice units along z (exact).  Footprints, everywhere and
    nowhere are invariant; a PolylineRegion cannot leave z = 0."""
    import copy

    d = copy.deepcopy(desc)
    k = d["k"]
    if k in ("vol", "surf"):
        for b in d["s"]:
            b[4] += dz
            b[5] += dz
    elif k == "poly":
        d["n"][0] += dz
    elif k in ("rect", "circ", "sect", "sph"):
        d["n"][2] += dz
    elif k in ("path", "pset"):
        for q in d["s"]:
            q[2] += dz
    elif k == "pline" and dz:
        raise ValueError("a PolylineRegion lies at z = 0")
    d["name"] = name or (f"{desc['name']}@z{dz / S:+g}" if dz else desc["name"])
    return d


def probe_grid():
    xs = [-4.75 + k for k in range(10)]
    zs = [-0.75, 0, 0.25, 1.25, 2, 2.25, 3.25]
    return [[_i(x), _i(y), _i(z)] for z in zs for y in xs for x in xs]


def to_tla(desc):
    if desc["k"] in ("inter", "union", "diff"):
        return {"k": desc["k"], "a": desc["a"], "b": desc["b"]}
    return {"k": desc["k"], "n": desc["n"], "s": desc["s"]}


def is_planar(d):
    return d["k"] in ("poly", "rect", "circ", "sect")


def z_of(d):
    return d["n"][0] if d["k"] == "poly" else d["n"][2]


def snap(v):
    """Real coordinate -> lattice integer: an even value when v lies on a quarter line, else the
    odd value standing for the open interval between two quarter lines."""
    f = float(v) * S
    r = round(f)
    if abs(f - r) < 1e-6 and r % 2 == 0:
        return int(r)
    return 2 * math.floor(f / 2) + 1


def snap_point(p):
    return [snap(p[0]), snap(p[1]), snap(p[2])]


# ---- the real regions
def build(desc):
    import shapely.geometry
    import shapely.ops
    import trimesh

    from scenic.core import regions as R
    from scenic.core.vectors import Vector

    k, n, s = desc["k"], desc["n"], desc["s"]
    f = lambda v: v / S  # noqa: E731
    if k == "vol":
        if len(s) == 1:
            b = s[0]
            return R.BoxRegion(
                dimensions=(f(b[1] - b[0]), f(b[3] - b[2]), f(b[5] - b[4])),
                position=Vector(f(b[0] + b[1]) / 2, f(b[2] + b[3]) / 2, f(b[4] + b[5]) / 2),
            )
        meshes = []
        for b in s:
            m = trimesh.creation.box(
                (f(b[1] - b[0]), f(b[3] - b[2]), f(b[5] - b[4])),
                transform=trimesh.transformations.translation_matrix(
                    (f(b[0] + b[1]) / 2, f(b[2] + b[3]) / 2, f(b[4] + b[5]) / 2)
                ),
            )
            meshes.append(m)
        return R.MeshVolumeRegion(trimesh.boolean.union(meshes), centerMesh=False)
    if k == "poly" and desc.get("multi"):
        g = shapely.geometry.MultiPolygon([shapely.geometry.box(f(r[0]), f(r[2]), f(r[1]), f(r[3])) for r in s])
        return R.PolygonalRegion(polygon=g, z=f(n[0]))
    if k in ("poly", "fp"):
        g = shapely.ops.unary_union([shapely.geometry.box(f(r[0]), f(r[2]), f(r[1]), f(r[3])) for r in s])
        if k == "fp" and desc.get("via_polygon") is not None:
            # the footprint object a PolygonalRegion caches (PolygonalRegion.footprint)
            return R.PolygonalRegion(polygon=g, z=desc["via_polygon"]).footprint
        if k == "fp":
            return R.PolygonalFootprintRegion(g)
        return R.PolygonalRegion(polygon=g, z=f(n[0]))
    if k == "rect":
        return R.RectangularRegion(Vector(f(n[0]), f(n[1]), f(n[2])), n[5] * math.pi / 2, f(n[3]), f(n[4]))
    if k == "circ":
        return R.CircularRegion(Vector(f(n[0]), f(n[1]), f(n[2])), f(n[3]))
    if k == "sect":
        return R.SectorRegion(Vector(f(n[0]), f(n[1]), f(n[2])), f(n[3]), n[4] * math.pi / 4, n[5] * math.pi / 2)
    if k == "pline":
        return R.PolylineRegion(points=[(f(p[0]), f(p[1])) for p in s])
    if k == "path":
        return R.PathRegion(points=[(f(p[0]), f(p[1]), f(p[2])) for p in s])
    if k == "pset" and "grid" in desc:
        g = desc["grid"]
        return R.GridRegion(desc.get("name") or "grid", g["rows"], g["ax"], g["ay"], g["bx"], g["by"])
    if k == "sph":
        return R.SpheroidRegion(dimensions=(2 * f(n[3]), 2 * f(n[3]), 2 * f(n[3])), position=Vector(f(n[0]), f(n[1]), f(n[2])))
    if k == "surf":
        b = s[0]
        box = R.BoxRegion(
            dimensions=(f(b[1] - b[0]), f(b[3] - b[2]), f(b[5] - b[4])),
            position=Vector(f(b[0] + b[1]) / 2, f(b[2] + b[3]) / 2, f(b[4] + b[5]) / 2),
        )
        return box.getSurfaceRegion()
    if k == "pset":
        return R.PointSetRegion(desc.get("name") or "pts", [(f(p[0]), f(p[1]), f(p[2])) for p in s])
    if k == "all":
        return R.everywhere
    if k == "empty":
        return R.nowhere
    raise ValueError(k)


def seed_all(seed):
    import numpy

    random.seed(seed)
    numpy.random.seed(seed % (2**32))
