"""Lattice solids shared by C04 (Overlap.tla) and C02 (Checker.tla).

One internal description (unions of axis-aligned lattice boxes, in half-units, grouped into
bodies), two printers:
  * the JSON constant read by the TLA+ specifications (integer coordinates scaled x4, every
    coordinate even, shapes centred on their bounding-box centre);
  * the real Scenic objects / regions (BoxShape, MeshShape from trimesh box unions,
    MeshVolumeRegion, PolygonalFootprintRegion).
This printer pair is the trusted glue (DESIGN.md 1.3).  Nothing in here decides geometry:
overlap / containment / distance come from the TLA+ oracle only.
"""

import math
import random
from fractions import Fraction

S = 4  # TLA+ integer coordinates = real coordinate * S (quarter units); lattice = half units

# ----------------------------------------------------------------------------- rotations
_RZ = ((0, -1, 0), (1, 0, 0), (0, 0, 1))  # yaw +90 deg (counter-clockwise about z)
_RX = ((1, 0, 0), (0, 0, -1), (0, 1, 0))  # pitch +90 deg (about x)
_RY = ((0, 0, 1), (0, 1, 0), (-1, 0, 0))  # roll +90 deg (about y)
_ID = ((1, 0, 0), (0, 1, 0), (0, 0, 1))


def _mm(a, b):
    return tuple(tuple(sum(a[i][k] * b[k][j] for k in range(3)) for j in range(3)) for i in range(3))


def _mpow(m, k):
    r = _ID
    for _ in range(k % 4):
        r = _mm(r, m)
    return r


def euler_matrix(yq, pq, rq):
    """Documented convention (reference: intrinsic Z-X-Y = yaw, pitch, roll): R = Rz(yaw) Rx(pitch) Ry(roll),
    angles in quarter turns."""
    return _mm(_mm(_mpow(_RZ, yq), _mpow(_RX, pq)), _mpow(_RY, rq))


def rotations():
    """The 24 cube rotations as (matrix, (yaw, pitch, roll) in quarter turns).  Index 0..3 are the
    yaw-only rotations (the planar ones), expressed with pitch = roll = 0 exactly."""
    out, seen = [], set()
    order = [(y, 0, 0) for y in range(4)]
    order += [(y, p, r) for p in (0, 1, -1, 2) for r in (0, 1, -1, 2) for y in (0, 1, 2, -1)]
    for y, p, r in order:
        m = euler_matrix(y, p, r)
        if m not in seen:
            seen.add(m)
            out.append((m, (y, p, r)))
    assert len(out) == 24
    return out


ROTS = rotations()


_ROT_ID = {m: i for i, (m, _a) in enumerate(ROTS)}


def compose(qi, ri):
    """1-based id of the global rotation parent(qi) * local(ri) (glue: window sizes, bare regions)."""
    return _ROT_ID[_mm(ROTS[qi - 1][0], ROTS[ri - 1][0])] + 1


def rot_angles(ri):
    y, p, r = ROTS[ri][1]
    return y * math.pi / 2, p * math.pi / 2, r * math.pi / 2


# ----------------------------------------------------------------------------- shapes
# base shapes: bodies -> parts ((x0,y0,z0),(x1,y1,z1)) in units (multiples of 1/2), uncentred
BASE = {
    "cube": [[((0, 0, 0), (1, 1, 1))]],
    "bar": [[((0, 0, 0), (2, 1, 1))]],
    "brick": [[((0, 0, 0), (1, 2, 3))]],
    "L": [[((0, 0, 0), (2, 1, 1)), ((0, 1, 0), (1, 2, 1))]],
    "tripod": [[((0, 0, 0), (2, 1, 1)), ((0, 1, 0), (1, 2, 1)), ((0, 0, 1), (1, 1, 2))]],
    "U": [[((0, 0, 0), (3, 1, 1)), ((0, 1, 0), (1, 2, 1)), ((2, 1, 0), (3, 2, 1))]],
    "twin": [[((0, 0, 0), (1, 1, 1))], [((2, 0, 0), (3, 1, 1))]],
    "twinL": [[((0, 0, 0), (2, 1, 1)), ((0, 1, 0), (1, 2, 1))], [((3, 0, 0), (4, 1, 1))]],
    "big": [[((0, 0, 0), (4, 4, 2))]],
    "bigL": [[((0, 0, 0), (4, 2, 2)), ((0, 2, 0), (2, 4, 2))]],
    "room": [[((0, 0, 0), (6, 6, 4))]],
    "roomL": [[((0, 0, 0), (6, 3, 4)), ((0, 3, 0), (3, 6, 4))]],
    "wall": [[((0, 0, 0), (6, 1, 4))]],
    "hall": [[((0, 0, 0), (16, 16, 6))]],
    "hallL": [[((0, 0, 0), (12, 6, 4)), ((0, 6, 0), (6, 12, 4))]],
}


def _entry(name, base, scale=(1, 1, 1), kind="mesh"):
    """A catalogue entry.  kind 'box' -> BoxShape (only for one-part bases), 'mesh' -> MeshShape."""
    bodies = BASE[base]
    sc = [Fraction(s) for s in scale]
    allp = [p for b in bodies for p in b]
    lo = [min(Fraction(p[0][i]) for p in allp) * sc[i] for i in range(3)]
    hi = [max(Fraction(p[1][i]) for p in allp) * sc[i] for i in range(3)]
    c = [(lo[i] + hi[i]) / 2 for i in range(3)]
    parts, body = [], []
    for bi, b in enumerate(bodies):
        for p in b:
            l = [(Fraction(p[0][i]) * sc[i] - c[i]) * S for i in range(3)]
            h = [(Fraction(p[1][i]) * sc[i] - c[i]) * S for i in range(3)]
            assert all(v.denominator == 1 and v.numerator % 2 == 0 for v in l + h), (name, l, h)
            parts.append({"lo": [int(v) for v in l], "hi": [int(v) for v in h]})
            body.append(bi + 1)
    dims = [hi[i] - lo[i] for i in range(3)]
    if kind == "box":
        assert len(parts) == 1
    return {
        "name": name,
        "base": base,
        "scale": [float(s) for s in sc],
        "kind": kind,
        "parts": parts,
        "body": body,
        "dims": [float(d) for d in dims],
    }


def catalogue():
    """Objects first (ids 1..), containers last.  Two entries with the same base share one real
    Shape instance (exercises precomputed per-shape data reused under different scalings)."""
    cat = [
        _entry("cube", "cube", kind="box"),
        _entry("bar", "bar", kind="box"),
        _entry("brick", "brick", kind="box"),
        _entry("barM", "bar", kind="mesh"),
        _entry("cube2", "cube", (2, 2, 2), kind="box"),
        _entry("L", "L"),
        _entry("Lwide", "L", (2, 1, 2)),
        _entry("tripod", "tripod"),
        _entry("U", "U"),
        _entry("twin", "twin"),
        _entry("twinL", "twinL"),
        _entry("big", "big", kind="box"),
        _entry("bigL", "bigL"),
        _entry("room", "room", kind="mesh"),
        _entry("roomL", "roomL"),
        _entry("wall", "wall", kind="box"),
        _entry("hall", "hall", kind="mesh"),
        _entry("hallL", "hallL"),
    ]
    return cat


CAT = catalogue()
CAT_INDEX = {e["name"]: i + 1 for i, e in enumerate(CAT)}  # 1-based ids, as in TLA+
SMALL = [CAT_INDEX[n] for n in ("cube", "bar", "brick", "barM", "cube2", "L", "Lwide", "tripod", "U", "twin", "twinL")]
LARGE = [CAT_INDEX[n] for n in ("big", "bigL")]
BOXES = [CAT_INDEX[n] for n in ("cube", "bar", "brick", "cube2", "big")]
BIGOBJ = [CAT_INDEX[n] for n in ("big", "big", "bigL", "cube2")]
TILTABLE = [CAT_INDEX[n] for n in ("bar", "brick", "bar", "brick", "big")]  # BoxShapes that a tilt changes
ROOMS = [CAT_INDEX[n] for n in ("big", "bigL", "room", "roomL")]

# rectilinear polygon footprints: interior-disjoint rectangles ((x0,y0),(x1,y1)) in units
POLYS = [
    {"name": "rect", "rects": [((-3, -2), (3, 2))]},
    {"name": "Lpoly", "rects": [((-3, -3), (3, 0)), ((-3, 0), (0, 3))]},
    {"name": "ring", "rects": [((-3, -3), (3, -1)), ((-3, 1), (3, 3)), ((-3, -1), (-1, 1)), ((1, -1), (3, 1))]},
]


def polys_json():
    out = []
    for p in POLYS:
        out.append(
            {
                "name": p["name"],
                "rects": [
                    {"lo": [int(Fraction(r[0][0]) * S), int(Fraction(r[0][1]) * S)],
                     "hi": [int(Fraction(r[1][0]) * S), int(Fraction(r[1][1]) * S)]}
                    for r in p["rects"]
                ],
            }
        )
    return out


def base_data():
    return {
        "shapes": [{k: e[k] for k in ("name", "kind", "parts", "body")} for e in CAT],
        "rots": [[list(r) for r in m] for m, _a in ROTS],
        "polys": polys_json(),
    }


# ----------------------------------------------------------------------------- real objects
_shape_cache = {}
_mesh_cache = {}


def _boxmesh(lo, hi):
    import numpy as np
    import trimesh

    lo = np.array(lo, float)
    hi = np.array(hi, float)
    m = trimesh.creation.box(extents=hi - lo)
    m.apply_translation((lo + hi) / 2)
    return m


def base_mesh(base):
    """Watertight trimesh of a base shape (units): boolean union inside a body, concatenation of
    the disjoint bodies."""
    import trimesh

    if base in _mesh_cache:
        return _mesh_cache[base]
    ms = []
    for parts in BASE[base]:
        bm = [_boxmesh(*p) for p in parts]
        m = bm[0] if len(bm) == 1 else trimesh.boolean.union(bm)
        ms.append(m)
    mesh = ms[0] if len(ms) == 1 else trimesh.util.concatenate(ms)
    if not mesh.is_volume:
        raise RuntimeError(f"generated mesh for {base} is not a volume")
    _mesh_cache[base] = mesh
    return mesh


def real_shape(entry):
    """One Shape instance per (base, kind): scaled variants reuse it with explicit dimensions."""
    from scenic.core.shapes import BoxShape, MeshShape

    key = entry["base"] if entry["kind"] == "mesh" else "__box__"
    if key not in _shape_cache:
        if entry["kind"] == "box":
            _shape_cache[key] = BoxShape()
        else:
            _shape_cache[key] = MeshShape(base_mesh(entry["base"]))
    return _shape_cache[key]


def real_pos(p):
    return tuple(v / S for v in p)


def frame(g):
    """(orientation, position map) of the generic frame g: 0 = identity, 1 = yaw with cos 3/5, sin 4/5."""
    from scenic.core.vectors import Orientation

    if not g:
        return None, (lambda p: p)
    return Orientation.fromEuler(math.atan2(4, 3), 0, 0), (lambda p: ((3 * p[0] - 4 * p[1]) / 5, (4 * p[0] + 3 * p[1]) / 5, p[2]))


def make_object(si, ri, pos, qi=1, g=0, **props):
    """Real scenic Object for catalogue id si (1-based), local rotation index ri (1-based: the
    object's own yaw / pitch / roll), position x4, parent rotation index qi (parentOrientation)."""
    from scenic.core.object_types import Object
    from scenic.core.vectors import Orientation

    e = CAT[si - 1]
    yaw, pitch, roll = rot_angles(ri - 1)
    w, l, h = e["dims"]
    G, move = frame(g)
    if qi != 1 or g:
        po = Orientation.fromEuler(*rot_angles(qi - 1))
        props["parentOrientation"] = G * po if g else po
    return Object._with(
        position=move(real_pos(pos)), shape=real_shape(e), width=w, length=l, height=h,
        yaw=yaw, pitch=pitch, roll=roll, **props,
    )


def make_region(si, ri, pos, g=0):
    """Real MeshVolumeRegion (no precomputed shape data) for the same solid."""
    from scenic.core.regions import MeshVolumeRegion
    from scenic.core.vectors import Orientation, Vector

    e = CAT[si - 1]
    yaw, pitch, roll = rot_angles(ri - 1)
    G, move = frame(g)
    rot = Orientation.fromEuler(yaw, pitch, roll)
    return MeshVolumeRegion(
        base_mesh(e["base"]), dimensions=tuple(e["dims"]), position=Vector(*move(real_pos(pos))),
        rotation=G * rot if g else rot,
    )


def scenic_shape(name):
    """For generated Scenic programs (`from gen_solids import scenic_shape`)."""
    return real_shape(CAT[CAT_INDEX[name] - 1])


def make_polygon(pi):
    import shapely.geometry as sg
    import shapely.ops

    rects = POLYS[pi - 1]["rects"]
    return shapely.ops.unary_union([sg.box(r[0][0], r[0][1], r[1][0], r[1][1]) for r in rects])


def make_footprint(pi):
    from scenic.core.regions import PolygonalFootprintRegion

    return PolygonalFootprintRegion(make_polygon(pi))


def check_rotation_glue():
    """The harness' Euler convention against scenic's Orientation (C07 checks the convention itself;
    here a mismatch only means the glue is unusable -> caller raises MachineryError)."""
    import numpy as np
    from scenic.core.vectors import Orientation

    for m, (y, p, r) in ROTS:
        o = Orientation.fromEuler(y * math.pi / 2, p * math.pi / 2, r * math.pi / 2)
        got = np.round(o.r.as_matrix()).astype(int)
        if tuple(map(tuple, got.tolist())) != m:
            return False
    return True


# ----------------------------------------------------------------------------- case generators
def _span(si, ri):
    """Half extents (x4) of a catalogue shape under a rotation (glue only: picks a window)."""
    e = CAT[si - 1]
    m = ROTS[ri - 1][0]
    half = [d * S / 2 for d in e["dims"]]
    return [sum(abs(m[i][j]) * half[j] for j in range(3)) for i in range(3)]


def _even(x):
    return 2 * int(round(x / 2))


def random_pair_cases(rng, n, start_id=1):
    """Object/object configurations for the procedures isect (Object.intersects and
    MeshVolumeRegion.intersects) and dist (minimumDistanceTo)."""
    cases = []
    objs = SMALL + LARGE
    planar = [1, 2, 3, 4]
    for k in range(n):
        a = rng.choice(objs)
        b = rng.choice(SMALL if rng.random() < 0.8 else objs)
        mode = rng.random()
        if mode < 0.3:  # both planar: fast paths
            ra, rb = rng.choice(planar), rng.choice(planar)
            if rng.random() < 0.7:
                a, b = rng.choice(BOXES), rng.choice(BOXES)
        elif mode < 0.45:
            ra, rb = rng.choice(planar), rng.randrange(1, 25)
        else:
            ra, rb = rng.randrange(1, 25), rng.randrange(1, 25)
        qa = qb = 1
        u0 = rng.random()
        if u0 < 0.14:
            # tilt that comes ONLY from the parent frame: local pitch = roll = 0 (a yaw), non-planar
            # parentOrientation; against planar boxes and other solids tilted the same way
            a = rng.choice(TILTABLE)
            ra, qa = rng.choice(planar), rng.randrange(5, 25)
            v = rng.random()
            if v < 0.5:
                b, rb, qb = rng.choice(BOXES), rng.choice(planar), 1
            elif v < 0.8:
                b, rb, qb = rng.choice(TILTABLE), rng.choice(planar), rng.randrange(5, 25)
            else:
                b, rb, qb = rng.choice(SMALL), rng.randrange(1, 25), 1
            if rng.random() < 0.5:
                a, ra, qa, b, rb, qb = b, rb, qb, a, ra, qa
        nested = u0 >= 0.14 and rng.random() < 0.15
        if nested:  # a small solid inside / across a large one: nesting without surface contact
            a, b = rng.choice(ROOMS), rng.choice(SMALL)
            if rng.random() < 0.5:
                a, b, ra, rb = b, a, rb, ra
        sa, sb = _span(a, compose(qa, ra)), _span(b, compose(qb, rb))
        pa = [_even(rng.randint(-8, 8)) for _ in range(3)]
        pb = []
        for i in range(3):
            reach = sa[i] + sb[i]
            u = rng.random()
            if nested:
                d = rng.randint(-int(abs(sa[i] - sb[i])) - 2, int(abs(sa[i] - sb[i])) + 2)
            elif u < 0.25:
                d = 0 if rng.random() < 0.5 else rng.choice((-2, 2))
            elif u < 0.85:
                d = rng.randint(-int(reach) - 2, int(reach) + 2)
            else:
                d = rng.randint(-int(reach) - 8, int(reach) + 8)
            pb.append(pa[i] + _even(d))
        if (mode < 0.3 or u0 < 0.14) and rng.random() < 0.4:
            pb[2] = pa[2]  # same height: the 2-D fast path of minimumDistanceTo
        proc = "isect" if rng.random() < 0.7 else "dist"
        api = "obj" if (proc == "dist" or rng.random() < 0.7) else "reg"
        cases.append({"id": start_id + k, "proc": proc, "api": api, "a": a, "qa": qa, "ra": ra, "pa": pa,
                      "b": b, "qb": qb, "rb": rb, "pb": pb, "poly": 0, "g": 0})
    return cases


def random_cont_cases(rng, n, start_id=1):
    """Container/object configurations for containsObject (mesh containers and footprints)."""
    cases = []
    for k in range(n):
        b = rng.choice(SMALL)
        rb = rng.randrange(1, 25)
        qb = 1
        if rng.random() < 0.2:  # a box tilted only through its parent frame
            b, rb, qb = rng.choice(TILTABLE[:4]), rng.choice((1, 2, 3, 4)), rng.randrange(5, 25)
        xtr = rng.random() < 0.11
        if xtr:  # a large object at an extremity of a large non-convex container, generic frame
            b, rb, qb = rng.choice(BIGOBJ), rng.choice((1, 2, 3, 4, 1, 2, 3, 4, rng.randrange(1, 25))), 1
        sb = _span(b, compose(qb, rb))
        if xtr or rng.random() < 0.65:
            a = CAT_INDEX["hallL"] if xtr else rng.choice(ROOMS)
            ra = rng.randrange(1, 25) if rng.random() < 0.5 else rng.choice((1, 2, 3, 4))
            pa = [_even(rng.randint(-6, 6)) for _ in range(3)]
            sa = _span(a, ra)
            g = 1 if xtr or rng.random() < 0.4 else 0   # whole configuration in the generic (3/5, 4/5) frame
            edge = xtr or rng.random() < 0.5            # object near the extremities of the container
            pb = []
            for i in range(3):
                inner = max(0, int(sa[i] - sb[i]))
                u = rng.random()
                if edge and i < 2:
                    d = rng.choice((-1, 1)) * (inner - rng.choice((2, 2, 2, 4, -2) if xtr else (0, 2, 2, 4)))
                elif u < 0.7:
                    d = rng.randint(-inner - 2, inner + 2)
                else:
                    d = rng.randint(-int(sa[i] + sb[i]) - 4, int(sa[i] + sb[i]) + 4)
                pb.append(pa[i] + _even(d))
            cases.append({"id": start_id + k, "proc": "cont", "api": "reg", "a": a, "qa": 1, "ra": ra, "pa": pa,
                          "b": b, "qb": qb, "rb": rb, "pb": pb, "poly": 0, "g": g, "tag": "xtr" if xtr else ""})
        else:
            pi = rng.randrange(1, len(POLYS) + 1)
            pb = [_even(rng.randint(-14, 14)), _even(rng.randint(-14, 14)), _even(rng.randint(-20, 20))]
            cases.append({"id": start_id + k, "proc": "foot", "api": "reg", "a": 1, "qa": 1, "ra": 1, "pa": [0, 0, 0],
                          "b": b, "qb": qb, "rb": rb, "pb": pb, "poly": pi, "g": 0})
    return cases
