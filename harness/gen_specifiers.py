"""C06 generator: the DOCUMENTED specifier table, the class tables, and the printer that turns
an abstract case (class, word of specifier symbols) into Scenic text.

Everything in DOC_SYMBOLS / DOC_FORMS is transcribed by hand from
/repo/docs/reference/specifiers.rst (see DESIGN.md Appendix E) -- never from the code.  The
class tables are transcribed from the class documentation (docstrings of Point / OrientedPoint /
Object from which docs/reference/classes.rst is generated, docs/porting.rst for 2D mode) and,
for the user classes, from the program text this module itself prints (trusted glue).

A *symbol* is an abstract specifier record (what TLC ranges over): forms of the reference that
specify the same properties with the same priorities, dependencies and modifying-ness are the
same symbol (e.g. `offset by`, `beyond`, `following`, `in <region with orientation>`).  A *form*
is a concrete syntactic form with arguments; `slot` (the position in the written order) selects
distinct arguments, so that every source of a property yields a distinguishable value.
"""

import json
import math
import re

P1, P2, P3 = 1, 2, 3

# --------------------------------------------------------------------------- documented symbols


def _sym(id_, pri, deps=(), ismod=False, mod=(), novec=False, name=None):
    return {
        "id": id_,
        "name": name or id_,
        "pri": dict(pri),
        "deps": sorted(deps),
        "ismod": ismod,
        "mod": sorted(mod),
        "novec": novec,
    }


ON_DEPS = ("baseOffset", "contactTolerance", "onDirection")
DOC_SYMBOLS = [
    # with <property> <value>: the given property, priority 1, no dependencies
    _sym("with_position", {"position": P1}),
    _sym("with_parentOrientation", {"parentOrientation": P1}),
    _sym("with_yaw", {"yaw": P1}),
    _sym("with_heading", {"heading": P1}),
    _sym("with_width", {"width": P1}),
    _sym("with_length", {"length": P1}),
    _sym("with_regionContainedIn", {"regionContainedIn": P1}),
    _sym("with_bar", {"bar": P1}),
    _sym("with_foo", {"foo": P1}),
    _sym("with_tag", {"tag": P1}),
    _sym("with_lim", {"lim": P1}),
    # at <vector>, in <region without preferred orientation>
    _sym("pos1", {"position": P1}),
    # in <region with orientation>, offset by, offset along, beyond, following
    _sym("pos1_po3", {"position": P1, "parentOrientation": P3}),
    # contained in <region>
    _sym("ci", {"position": P1, "regionContainedIn": P1}),
    _sym("ci_o", {"position": P1, "regionContainedIn": P1, "parentOrientation": P3}),
    # on (region | Object | vector): may modify position; not with a vector
    _sym("on_vec", {"position": P1}, ON_DEPS, True, ("position",), novec=True, name="on"),
    _sym("on_reg", {"position": P1}, ON_DEPS, True, ("position",), name="on"),
    _sym("on_reg_o", {"position": P1, "parentOrientation": P2}, ON_DEPS, True, ("position",), name="on"),
    # visible [from P] / not visible [from P]
    _sym("vis", {"position": P3}, ("regionContainedIn",)),
    _sym("notvis", {"position": P3}, ("regionContainedIn",)),
    # facing <orientation> / facing <vector field>
    _sym("facing_o", {"yaw": P1, "pitch": P1, "roll": P1}, ("parentOrientation",), name="facing"),
    _sym("facing_f", {"yaw": P1, "pitch": P1, "roll": P1}, ("position", "parentOrientation"), name="facing"),
    # facing toward / away from, apparently facing
    _sym("yaw1", {"yaw": P1}, ("position", "parentOrientation")),
    # facing directly toward / away from
    _sym("yawpitch1", {"yaw": P1, "pitch": P1}, ("position", "parentOrientation")),
]
# (left | right) of, (ahead of | behind), (above | below)  x  vector / OrientedPoint / Object
for _axis in ("width", "length", "height"):
    DOC_SYMBOLS += [
        _sym(f"dir_vec_{_axis}", {"position": P1}, (_axis, "orientation")),
        _sym(f"dir_op_{_axis}", {"position": P1, "parentOrientation": P3}, (_axis,)),
        _sym(f"dir_obj_{_axis}", {"position": P1, "parentOrientation": P3}, (_axis, "contactTolerance")),
    ]
SYM = {s["id"]: s for s in DOC_SYMBOLS}

# --------------------------------------------------------------------------- concrete forms
# (form id, symbol id, reference section, text(slot) for 3D, text(slot) for 2D or None, mask)
# mask: {"position": "z"} = only the z coordinate of the value is reproducible (random point of a
# mesh surface); {"position": "skip"} = the value is an independent random draw.


def _v(x, y, z):
    return f"({x}, {y}, {z})"


FORMS = []


def _form(fid, sym, section, t3, t2=None, mask=None):
    FORMS.append({"id": fid, "sym": sym, "section": section, "t3": t3, "t2": t2, "mask": mask or {}})


_form("with position", "with_position", "with", lambda i: f"with position {_v(11 + i, 1.5 + i, 0.5 + i)}",
      lambda i: f"with position ({11 + i}, {1.5 + i})")
_form("with parentOrientation", "with_parentOrientation", "with",
      lambda i: f"with parentOrientation ({12 + 10 * i} deg, {2 + i} deg, {1 + i} deg)",
      lambda i: f"with parentOrientation {12 + 10 * i} deg")
_form("with yaw", "with_yaw", "with", lambda i: f"with yaw {13 + 10 * i} deg", lambda i: f"with yaw {13 + 10 * i} deg")
_form("with heading", "with_heading", "with", lambda i: f"with heading {14 + 10 * i} deg",
      lambda i: f"with heading {14 + 10 * i} deg")
_form("with width", "with_width", "with", lambda i: f"with width {3 + i}", lambda i: f"with width {3 + i}")
_form("with length", "with_length", "with", lambda i: f"with length {5 + i}", lambda i: f"with length {5 + i}")
_form("with regionContainedIn", "with_regionContainedIn", "with", lambda i: f"with regionContainedIn RC{i}",
      lambda i: f"with regionContainedIn RC{i}")
_form("with bar", "with_bar", "with", lambda i: f"with bar {100 + i}", lambda i: f"with bar {100 + i}")
_form("with foo", "with_foo", "with", lambda i: f"with foo {200 + i}", lambda i: f"with foo {200 + i}")
_form("with tag", "with_tag", "with", lambda i: f"with tag {300 + i}", lambda i: f"with tag {300 + i}")
_form("with lim", "with_lim", "with", lambda i: f"with lim {400 + i}", lambda i: f"with lim {400 + i}")
_form("at V", "pos1", "at", lambda i: f"at {_v(10 + i, 1 + i, 0.25 + i)}", lambda i: f"at ({10 + i}, {1 + i})")
_form("in R", "pos1", "in", lambda i: f"in RA{i}", lambda i: f"in RA{i}")
_form("in R(o)", "pos1_po3", "in", lambda i: f"in RO{i}", lambda i: f"in RO{i}")
_form("offset by V", "pos1_po3", "offset by", lambda i: f"offset by {_v(1 + i, 2, 0.5)}", lambda i: f"offset by ({1 + i}, 2)")
_form("offset along H by V", "pos1_po3", "offset along", lambda i: f"offset along {21 + 10 * i} deg by {_v(2 + i, 1, 0.25)}",
      lambda i: f"offset along {21 + 10 * i} deg by ({2 + i}, 1)")
_form("offset along F by V", "pos1_po3", "offset along", lambda i: f"offset along VA{i} by {_v(2, 1 + i, 0.75)}")
_form("beyond V by V from V", "pos1_po3", "beyond", lambda i: f"beyond {_v(3 + i, 4, 1)} by {_v(1, 2, 0)} from {_v(0, i, 0)}")
_form("beyond V by s", "pos1_po3", "beyond", lambda i: f"beyond {_v(3, 4 + i, 1)} by {2 + i}",
      lambda i: f"beyond (3, {4 + i}) by {2 + i}")
_form("beyond V by s from OP", "pos1_po3", "beyond", lambda i: f"beyond {_v(5 + i, 4, 2)} by {1 + i} from OP{i}")
_form("following F from V for s", "pos1_po3", "following", lambda i: f"following VB{i} from {_v(4 + i, 2, 0)} for {2 + i}",
      lambda i: f"following VB{i} from ({4 + i}, 2) for {2 + i}")
_form("following F for s", "pos1_po3", "following", lambda i: f"following VB{i} for {3 + i}")
_form("contained in R", "ci", "contained in", lambda i: f"contained in RE{i}", lambda i: f"contained in RE{i}")
_form("contained in R(o)", "ci_o", "contained in", lambda i: f"contained in RD{i}", lambda i: f"contained in RD{i}")
_form("on V", "on_vec", "on", lambda i: f"on {_v(15 + i, 2 + i, 3)}", lambda i: f"on ({15 + i}, {2 + i})")
_form("on R", "on_reg", "on", lambda i: f"on RF{i}", lambda i: f"on RF{i}")
_form("on R(o)", "on_reg_o", "on", lambda i: f"on RG{i}", lambda i: f"on RG{i}")
_form("on Obj", "on_reg_o", "on", lambda i: f"on OB{i}", None, {"position": "z"})
_form("visible", "vis", "visible", lambda i: "visible", lambda i: "visible", )
_form("visible from P", "vis", "visible", lambda i: f"visible from PT{i}", lambda i: f"visible from PT{i}")
_form("visible from OP", "vis", "visible", lambda i: f"visible from OP{i}")
_form("not visible", "notvis", "not visible", lambda i: "not visible", lambda i: "not visible")
_form("not visible from P", "notvis", "not visible", lambda i: f"not visible from PT{i}")
_form("not visible from OP", "notvis", "not visible", lambda i: f"not visible from OP{i}", lambda i: f"not visible from OP{i}")
_form("facing H", "facing_o", "facing O", lambda i: f"facing {16 + 10 * i} deg", lambda i: f"facing {16 + 10 * i} deg")
_form("facing O", "facing_o", "facing O", lambda i: f"facing ({17 + 10 * i} deg, {3 + i} deg, {2 + i} deg)")
_form("facing F", "facing_f", "facing F", lambda i: f"facing VC{i}", lambda i: f"facing VC{i}")
_form("facing toward V", "yaw1", "facing toward", lambda i: f"facing toward {_v(70 + i, -20, 9)}", lambda i: f"facing toward ({70 + i}, -20)")
_form("facing away from V", "yaw1", "facing toward", lambda i: f"facing away from {_v(-60, 75 + i, 8)}",
      lambda i: f"facing away from (-60, {75 + i})")
_form("apparently facing H", "yaw1", "apparently facing", lambda i: f"apparently facing {18 + 10 * i} deg",
      lambda i: f"apparently facing {18 + 10 * i} deg")
_form("apparently facing H from V", "yaw1", "apparently facing", lambda i: f"apparently facing {19 + 10 * i} deg from {_v(-30, -40 - i, 0)}",
      lambda i: f"apparently facing {19 + 10 * i} deg from (-30, {-40 - i})")
_form("facing directly toward V", "yawpitch1", "facing directly toward", lambda i: f"facing directly toward {_v(80 + i, -25, 30)}")
_form("facing directly away from V", "yawpitch1", "facing directly toward", lambda i: f"facing directly away from {_v(-85, 65 + i, -35)}")
for _axis, _pair in (("width", ("left of", "right of")), ("length", ("ahead of", "behind")), ("height", ("above", "below"))):
    for _n, _kw in enumerate(_pair):
        _sec = f"({_pair[0]} | {_pair[1]})"
        _form(f"{_kw} V", f"dir_vec_{_axis}", _sec + " vector", (lambda kw, n: lambda i: f"{kw} {_v(20 + i + 5 * n, 6 + i, 1.5)}")(_kw, _n),
              (lambda kw, n: lambda i: f"{kw} ({20 + i + 5 * n}, {6 + i})")(_kw, _n) if _axis != "height" else None)
        _form(f"{_kw} V by s", f"dir_vec_{_axis}", _sec + " vector", (lambda kw, n: lambda i: f"{kw} {_v(21 + i + 5 * n, 7 + i, 2.5)} by {1.5 + i}")(_kw, _n),
              (lambda kw, n: lambda i: f"{kw} ({21 + i + 5 * n}, {7 + i}) by {1.5 + i}")(_kw, _n) if _axis != "height" else None)
        _form(f"{_kw} V by V", f"dir_vec_{_axis}", _sec + " vector", (lambda kw, n: lambda i: f"{kw} {_v(22 + i + 5 * n, 8 + i, 3.5)} by {_v(1 + i, 2, 3)}")(_kw, _n))
        _form(f"{_kw} P", f"dir_vec_{_axis}", _sec + " vector", (lambda kw: lambda i: f"{kw} PT{i}")(_kw),
              (lambda kw: lambda i: f"{kw} PT{i}")(_kw) if _axis != "height" else None)
        _form(f"{_kw} OP", f"dir_op_{_axis}", _sec + " OrientedPoint", (lambda kw: lambda i: f"{kw} OP{i}")(_kw),
              (lambda kw: lambda i: f"{kw} OP{i}")(_kw) if _axis != "height" else None)
        _form(f"{_kw} OP by s", f"dir_op_{_axis}", _sec + " OrientedPoint", (lambda kw: lambda i: f"{kw} OP{i} by {2.5 + i}")(_kw))
        _form(f"{_kw} Obj", f"dir_obj_{_axis}", _sec + " Object", (lambda kw: lambda i: f"{kw} OC{i}")(_kw),
              (lambda kw: lambda i: f"{kw} OC{i}")(_kw) if _axis != "height" else None)
        _form(f"{_kw} Obj by s", f"dir_obj_{_axis}", _sec + " Object", (lambda kw: lambda i: f"{kw} OC{i} by {3.5 + i}")(_kw))

FORMS_OF = {}
for _f in FORMS:
    FORMS_OF.setdefault(_f["sym"], []).append(_f)

NSLOT = 4


def prelude(mode2D):
    L = ["import c06_helper as H"]
    if not mode2D:
        L.append("workspace = Workspace(H.FlatRegion('ws', (70, 80, 2), (0, 0, 0)))")
    else:
        L.append("workspace = Workspace(H.FlatRegion('ws', (700, 800, 0), (0, 0, 0)))")
    z = (lambda v: 0) if mode2D else (lambda v: v)
    for i in range(NSLOT):
        for fam, ang in (("VA", 22), ("VB", 23), ("VC", 24), ("VD", 25), ("VG", 26), ("VO", 27)):
            L.append(f"{fam}{i} = VectorField('{fam.lower()}{i}', lambda pos: {ang + 10 * i} deg)")
        L.append(f"RA{i} = H.FlatRegion('ra{i}', ({30 + i}, {3 + i}, {z(1)}), ({1 + i}, 0.5, {z(4 + i)}))")
        L.append(f"RO{i} = H.FlatRegion('ro{i}', ({40 + i}, {5 + i}, {z(2)}), (0.5, {2 + i}, {z(6 + i)}), orientation=VO{i})")
        L.append(f"RC{i} = H.FlatRegion('rc{i}', ({45 + i}, {7 + i}, {z(3)}), (0, 0, 0))")
        L.append(f"RD{i} = H.FlatRegion('rd{i}', ({48 + i}, {8 + i}, {z(1)}), (0, 0, 0), orientation=VD{i})")
        L.append(f"RE{i} = H.FlatRegion('re{i}', ({52 + i}, {9 + i}, {z(2)}), (0, 0, 0))")
        L.append(f"RF{i} = H.FlatRegion('rf{i}', ({55 + i}, {12 + i}, {z(3)}), ({2 + i}, 1.5, {z(5 + i)}))")
        L.append(f"RG{i} = H.FlatRegion('rg{i}', ({58 + i}, {13 + i}, {z(1)}), (1.5, {3 + i}, {z(7 + i)}), orientation=VG{i})")
    if mode2D:
        L.append("ego = new Object at (90, 95), facing 15 deg")
        for i in range(NSLOT):
            L.append(f"PT{i} = new Point at ({60 + i}, {9 + i})")
            L.append(f"OP{i} = new OrientedPoint at ({62 + i}, {11 + i}), facing {50 + 10 * i} deg")
            L.append(f"OC{i} = new Object at ({-200 - 20 * i}, {-300 - 10 * i}), with width {2 + i}, with length {3 + i}, facing {8 + 10 * i} deg")
        L += [
            "class Base:",
            "    bar: 3",
            "    foo: self.bar + 1",
            "    tag[additive]: 10",
            "    lim[final]: self.foo * 2",
            "class K(Base):",
            "    bar: 5",
            "    tag[additive]: 20",
            "    heading: 35 deg",
        ]
    else:
        L.append("ego = new Object at (90, 95, 0.5), facing (15 deg, 4 deg, 2 deg)")
        for i in range(NSLOT):
            L.append(f"PT{i} = new Point at ({60 + i}, {9 + i}, 1)")
            L.append(f"OP{i} = new OrientedPoint at ({62 + i}, {11 + i}, 2), facing ({50 + 10 * i} deg, {5 + i} deg, {3 + i} deg)")
            L.append(f"OB{i} = new Object at ({2 * i}, {3 * i}, {-50 - 10 * i}), with width 4000, with length 4000, with height 2, facing ({7 + i} deg, 0, 0)")
            L.append(f"OC{i} = new Object at ({-200 - 20 * i}, {-300 - 10 * i}, {4 + i}), with width {2 + i}, with length {3 + i}, with height {1.5 + i}, facing ({8 + 10 * i} deg, {6 + i} deg, {1 + i} deg)")
        L += [
            "class Base:",
            "    bar: 3",
            "    foo: self.bar + 1",
            "    tag[additive]: 10",
            "    lim[final]: self.foo * 2",
            "class K(Base):",
            "    bar: 5",
            "    tag[additive]: 20",
            "    length: self.position.y * 0.001 + 4",
            "    parentOrientation: (self.bar deg, 0, 0)",
        ]
    return "\n".join(L) + "\n"


# --------------------------------------------------------------------------- documented classes
# [property, deps, attributes] per level, most derived first.  Only the properties that take part
# in resolution of the enumerated specifiers (closed under dependencies) go to TLC; the
# attributes dynamic/final/additive of all listed properties are compared with the code.


def _d(p, deps=(), *attrs):
    return {"p": p, "deps": sorted(deps), "additive": "additive" in attrs, "final": "final" in attrs, "dynamic": "dynamic" in attrs}


DOC_POINT = [
    _d("position", (), "dynamic"), _d("width"), _d("length"), _d("height"), _d("baseOffset"),
    _d("contactTolerance"), _d("onDirection"), _d("viewAngles"), _d("visibleDistance"), _d("viewRayDensity"),
    _d("viewRayCount"), _d("viewRayDistanceScaling"), _d("mutationScale"),
    _d("mutator", ("positionStdDev",), "additive"), _d("positionStdDev"), _d("regionContainedIn"),
]
DOC_ORIENTEDPOINT = [
    _d("yaw", (), "dynamic"), _d("pitch", (), "dynamic"), _d("roll", (), "dynamic"), _d("parentOrientation"),
    _d("orientation", ("yaw", "pitch", "roll", "parentOrientation"), "dynamic", "final"),
    _d("heading", ("orientation",), "dynamic", "final"),
    _d("viewAngle"), _d("viewAngles", ("viewAngle",)),
    _d("mutator", ("orientationStdDev",), "additive"), _d("headingStdDev"),
    _d("orientationStdDev", ("headingStdDev",)),
]
DOC_OBJECT = [
    _d("width", ("shape",)), _d("length", ("shape",)), _d("height", ("shape",)), _d("shape"),
    _d("allowCollisions"), _d("regionContainedIn"), _d("baseOffset", ("height",)), _d("contactTolerance"),
    _d("sideComponentThresholds"), _d("cameraOffset"), _d("visionSensorOffset", ("length",)),
    _d("requireVisible"), _d("occluding"), _d("showVisibleRegion"), _d("color"), _d("render"),
    _d("velocity", ("speed", "orientation"), "dynamic"), _d("speed", (), "dynamic"),
    _d("angularVelocity", (), "dynamic"), _d("angularSpeed", (), "dynamic"), _d("behavior"), _d("lastActions"),
    _d("sensors"), _d("observations", (), "final"),
]
DOC_OBJECT2D = [
    _d("baseOffset"), _d("contactTolerance"), _d("requireVisible"), _d("occluding"), _d("height", ("width", "length")),
]
USER_BASE = [_d("bar"), _d("foo", ("bar",)), _d("tag", (), "additive"), _d("lim", ("foo",), "final")]
USER_K3 = [_d("bar"), _d("tag", (), "additive"), _d("length", ("position",)), _d("parentOrientation", ("bar",))]
# 2D: a default for `heading` is replaced by a default for parentOrientation (docs/porting.rst)
USER_K2 = [_d("bar"), _d("tag", (), "additive"), _d("parentOrientation")]

LEVELS = {
    "Point": [("Point", DOC_POINT)],
    "OrientedPoint": [("OrientedPoint", DOC_ORIENTEDPOINT), ("Point", DOC_POINT)],
    "Object": [("Object", DOC_OBJECT), ("OrientedPoint", DOC_ORIENTEDPOINT), ("Point", DOC_POINT)],
    "K": [("K", USER_K3), ("Base", USER_BASE), ("Object", DOC_OBJECT), ("OrientedPoint", DOC_ORIENTEDPOINT), ("Point", DOC_POINT)],
    "Object2D": [("Object2D", DOC_OBJECT2D), ("OrientedPoint2D", []), ("Point2D", []), ("Object", DOC_OBJECT),
                 ("OrientedPoint", DOC_ORIENTEDPOINT), ("Point", DOC_POINT)],
    "K2D": [("K", USER_K2), ("Base", USER_BASE), ("Object2D", DOC_OBJECT2D), ("OrientedPoint2D", []), ("Point2D", []),
            ("Object", DOC_OBJECT), ("OrientedPoint", DOC_ORIENTEDPOINT), ("Point", DOC_POINT)],
}
# class id -> (Scenic class name in the program, 2D mode)
CLASS_TEXT = {
    "Point": ("Point", False), "OrientedPoint": ("OrientedPoint", False), "Object": ("Object", False), "K": ("K", False),
    "Object2D": ("Object", True), "K2D": ("K", True),
}

ALL3D = [s["id"] for s in DOC_SYMBOLS]
BUILTIN3D = [s for s in ALL3D if s not in ("with_bar", "with_foo", "with_tag", "with_lim")]
ALPHA2D = ["with_heading", "with_parentOrientation", "with_yaw", "pos1", "pos1_po3", "on_reg_o", "vis", "notvis",
           "facing_o", "facing_f", "yaw1", "dir_vec_width", "dir_op_length", "with_bar"]


QUICK3 = [s for s in BUILTIN3D if s not in ("dir_vec_height", "dir_op_height", "dir_obj_height", "with_length", "with_yaw", "ci")]


ALPHA2D_SMALL = ["with_heading", "with_parentOrientation", "pos1_po3", "on_reg_o", "vis", "notvis", "facing_o", "yaw1", "dir_vec_width"]


def class_plan(tier):
    """[(class id, alphabet, minlen, maxlen)]: TLC enumerates every word over the alphabet with
    minlen <= length <= maxlen.  C06_MAXLEN (debugging / mutant runs) caps the length."""
    import os

    plan = _class_plan(tier)
    cap = os.environ.get("C06_MAXLEN")
    if cap:
        plan = [(cid, a, lo, min(hi, int(cap))) for cid, a, lo, hi in plan if lo <= int(cap)]
    classes = os.environ.get("C06_CLASSES")
    if classes:
        plan = [e for e in plan if e[0] in classes.split(",")]
    only = os.environ.get("C06_ALPHABET")
    if only:
        keep = set(only.split(","))
        plan = [(cid, [x for x in a if x in keep], lo, hi) for cid, a, lo, hi in plan]
    return plan


def restricted():
    import os

    return bool(os.environ.get("C06_MAXLEN") or os.environ.get("C06_ALPHABET") or os.environ.get("C06_CLASSES"))


def _class_plan(tier):
    if tier == "quick":
        return [
            ("Object", BUILTIN3D, 0, 2),
            # length 3 without the third axis and three redundant `with`/`contained in` symbols
            ("Object", QUICK3, 3, 3),
            ("K", ALL3D, 0, 2),
            ("OrientedPoint", BUILTIN3D, 0, 2),
            ("Point", BUILTIN3D, 0, 2),
            ("Object2D", ALPHA2D, 0, 3),
            ("K2D", ALPHA2D, 0, 2),
        ]
    return [
        ("Object", BUILTIN3D, 0, 3),
        ("K", ALL3D, 0, 3),
        ("OrientedPoint", BUILTIN3D, 0, 3),
        ("Point", BUILTIN3D, 0, 2),
        ("Object2D", ALPHA2D, 0, 3),
        ("Object2D", ALPHA2D_SMALL, 4, 4),
        ("K2D", ALPHA2D, 0, 3),
    ]


def relevant_props(levels, alphabet):
    """Properties taking part in the resolution of the alphabet's specifiers for this class:
    everything a symbol specifies or depends on, closed under the dependencies of the defaults,
    plus every property whose default depends on one of those (it must be evaluated after)."""
    deps_of = {}
    for _name, defs in levels:
        for d in defs:
            deps_of.setdefault(d["p"], set()).update(d["deps"])  # union over levels: superset, harmless
    rel = set()
    for sid in alphabet:
        rel |= set(SYM[sid]["pri"]) | set(SYM[sid]["deps"])
    changed = True
    while changed:
        changed = False
        for p in list(rel):
            for q in deps_of.get(p, ()):
                if q not in rel:
                    rel.add(q)
                    changed = True
        for p, ds in deps_of.items():
            if p not in rel and ds & rel:
                rel.add(p)
                changed = True
    return rel


def universe(tier, proporders):
    """The JSON constant for Specifiers.tla.  proporders: class id -> order of the real class's
    default table (grain only)."""
    plan = class_plan(tier)
    index = {s["id"]: n + 1 for n, s in enumerate(DOC_SYMBOLS)}
    specs = [
        {"id": s["id"], "name": s["name"], "pri": [{"p": p, "n": n} for p, n in sorted(s["pri"].items())],
         "deps": s["deps"], "ismod": s["ismod"], "mod": s["mod"], "novec": s["novec"]}
        for s in DOC_SYMBOLS
    ]
    classes = []
    for cid, alphabet, minlen, maxlen in plan:
        levels = LEVELS[cid]
        rel = relevant_props(levels, alphabet)
        lv = []
        for name, defs in levels:
            lv.append({"name": name, "defs": [
                {"p": d["p"], "deps": d["deps"], "additive": d["additive"], "final": d["final"]}
                for d in defs if d["p"] in rel]})
        classprops = {d["p"] for l in lv for d in l["defs"]}
        po = [p for p in proporders.get(cid, []) if p in classprops]
        po += sorted(classprops - set(po))
        classes.append({
            "id": cid, "minlen": minlen, "maxlen": maxlen, "alphabet": [index[s] for s in alphabet],
            "rewrite": [[index["with_heading"], index["facing_o"]]] if CLASS_TEXT[cid][1] else [],
            "levels": lv, "proporder": po,
        })
    return {"specs": specs, "classes": classes}


def choose_forms(cid, word, salt):
    """Concrete form for every position of the word (deterministic in (case, seed)); None when a
    symbol has no concrete form in this mode."""
    mode2D = CLASS_TEXT[cid][1]
    out = []
    for pos, sid in enumerate(word):
        cands = [f for f in FORMS_OF[sid] if (f["t2"] if mode2D else f["t3"]) is not None]
        if not cands:
            return None
        out.append(cands[(salt + 7 * pos + 3 * len(word)) % len(cands)])
    return out


def creation_text(cid, forms):
    cname, mode2D = CLASS_TEXT[cid]
    parts = [(f["t2"] if mode2D else f["t3"])(pos) for pos, f in enumerate(forms)]
    return f"new {cname}" + (" " + ", ".join(parts) if parts else "")


_TUPLE = re.compile(r"\((?:[^()]*,[^()]*)\)")


def hoist(text, consts):
    """Replace every parenthesised tuple literal by a name bound to the same Python tuple
    (`(17 deg, 3, 0.5)` -> T7 with consts["T7"] = (radians(17), 3, 0.5)).  Semantically the
    identity (Scenic compiles such a literal to the very same tuple); needed because Scenic's PEG
    parser takes 10-30 ms per comma-separated literal but < 1 ms per name."""

    def val(item):
        item = item.strip()
        if item.endswith("deg"):
            return math.radians(float(item[:-3]))
        f = float(item)
        return int(f) if f == int(f) and "." not in item else f

    def repl(m):
        lit = m.group(0)
        items = lit[1:-1].split(",")
        try:
            tup = tuple(val(x) for x in items)
        except ValueError:
            return lit  # not a tuple of numbers: leave as it is
        for name, v in consts.items():
            if v == tup and [type(a) for a in v] == [type(a) for a in tup]:
                return name
        name = f"T{len(consts)}"
        consts[name] = tup
        return name

    return _TUPLE.sub(repl, text)


def case_block(k, text, consts):
    """Two simple statements per case (compound statements cost 20-70 ms each to parse): the
    harness's wrapper around veneer.new records the object or the exception of the creation."""
    return f"H.begin({k})\n{hoist(text, consts)}\n"


def fast_prelude(mode2D, consts):
    out = []
    for line in prelude(mode2D).splitlines():
        if "lambda" in line or line.startswith(("class ", "    ")):
            out.append(line)
        else:
            out.append(hoist(line, consts))
    return "\n".join(out) + "\n"


if __name__ == "__main__":
    print(json.dumps(universe("quick", {}), indent=1)[:3000])
    print(prelude(False))
