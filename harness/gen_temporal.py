"""Formula generator for C11 (temporal requirements).

A formula is a nested list that is *both* the TLA+ constant (JSON -> tuples in
spec/Temporal.tla) and the key used by the harness:

    ["atom", "a"] | ["not"|"next"|"always"|"eventually", f] | ["and"|"or"|"implies"|"until", f, g]

The Scenic text of a formula is NOT produced here: spec/Temporal.tla prints it (operator
`Show(f, full)`, token sequences), so the one piece of glue between the two worlds is
`text()` below, which joins the tokens and replaces the atoms by truth-table lookups."""

import itertools
import random

ATOMS = ("a", "b")
UNARY = ("not", "next", "always", "eventually")
BINARY = ("and", "or", "implies", "until")
TEMPORAL = ("next", "always", "eventually", "until")


def A(x):
    return ["atom", x]


def depth(f):
    if f[0] == "atom":
        return 0
    return 1 + max(depth(g) for g in f[1:])


def size(f):
    if f[0] == "atom":
        return 1
    return 1 + sum(size(g) for g in f[1:])


def is_temporal(f):
    if f[0] == "atom":
        return False
    return f[0] in TEMPORAL or any(is_temporal(g) for g in f[1:])


def has_op(f, ops):
    if f[0] == "atom":
        return False
    return f[0] in ops or any(has_op(g, ops) for g in f[1:])


def key(f):
    """Canonical short text, used as case key and in messages."""
    if f[0] == "atom":
        return f[1]
    if f[0] in UNARY:
        return f"{f[0]}({key(f[1])})"
    return f"({key(f[1])} {f[0]} {key(f[2])})"


def up_to_depth(d):
    """All formulas of depth <= d, as a list (depth-0 first, deterministic order)."""
    levels = [[A(x) for x in ATOMS]]
    allf = list(levels[0])
    for _ in range(d):
        prev_all = list(allf)
        prev_top = levels[-1]
        prev_top_keys = {key(f) for f in prev_top}
        new = []
        for op in UNARY:
            for f in prev_top:
                new.append([op, f])
        for op in BINARY:
            for f, g in itertools.product(prev_all, prev_all):
                if key(f) in prev_top_keys or key(g) in prev_top_keys:
                    new.append([op, f, g])
        levels.append(new)
        allf += new
    return allf


def exactly_depth(d):
    return [f for f in up_to_depth(d) if depth(f) == d]


def random_formula(rng, d):
    """A random formula of depth exactly d (temporal operators favoured)."""
    if d == 0:
        return A(rng.choice(ATOMS))
    ops = UNARY + BINARY + ("until", "next", "always", "eventually", "implies")
    op = rng.choice(ops)
    if op in UNARY:
        return [op, random_formula(rng, d - 1)]
    dl = d - 1
    dr = rng.randint(0, d - 1)
    if rng.random() < 0.5:
        dl, dr = dr, dl
    return [op, random_formula(rng, dl), random_formula(rng, dr)]


a, b = A("a"), A("b")

# forms the reference manual / tutorial quote (docs/reference/statements.rst,
# docs/reference/operators.rst, docs/tutorials/dynamics.rst), with A := a, B := b
DOCUMENTED = [
    (["and", a, ["always", b]], "require A and always B"),
    (["implies", ["always", a], b], "require (always A) implies B"),
    (["always", ["implies", a, b]], "require always A implies B"),
    (["always", ["implies", a, ["next", a]]], "require always (X implies next X)"),
    (["until", ["not", a], b], "require car2 not in intersection until car1 in intersection"),
    (["implies", ["always", a], ["always", b]], "require (always car.speed < 30) implies (always distance to car > 10)"),
    (["or", ["until", a, b], ["always", ["and", a, ["not", b]]]], "require (X until Y) or (always X and not Y)"),
    (["next", a], "require next X"),
    (["eventually", a], "require eventually X"),
    (["implies", a, ["or", a, b]], "x implies y or z"),
]

# shapes the design singles out (end-of-trace, until at an offset, precedence corners)
POINTED = [
    ["next", ["until", a, b]],
    ["always", ["until", a, b]],
    ["eventually", ["until", a, b]],
    ["until", ["until", a, b], a],
    ["until", a, ["until", b, a]],
    ["not", ["next", a]],
    ["next", ["not", a]],
    ["next", ["next", a]],
    ["not", ["always", a]],
    ["and", ["not", ["always", a]], b],
    ["or", ["always", a], b],
    ["or", a, ["always", b]],
    ["and", ["next", a], b],
    ["implies", a, ["always", b]],
    ["implies", ["or", a, b], ["next", b]],
    ["implies", ["not", a], b],
    ["until", ["always", a], b],
    ["until", a, ["eventually", b]],
    ["or", ["or", a, b], ["next", a]],
    ["or", a, ["or", b, ["next", a]]],
    ["and", ["and", a, b], ["next", a]],
    ["and", a, ["and", b, ["next", a]]],
    ["and", ["or", a, b], ["next", a]],
    ["or", ["and", a, b], ["next", a]],
    ["not", ["and", a, ["next", b]]],
    ["not", ["until", a, b]],
    ["always", ["not", ["until", a, b]]],
    ["eventually", ["always", a]],
    ["always", ["eventually", a]],
    ["always", ["or", a, ["next", b]]],
]


def batch(tier, seed):
    """The formulas of one run: list of trees, deterministic for (tier, seed)."""
    rng = random.Random(seed * 1009 + 11)
    forms = up_to_depth(1)
    forms += [f for f, _doc in DOCUMENTED] + POINTED
    d2 = exactly_depth(2)
    if tier == "quick":
        forms += rng.sample(d2, 100)
        forms += [random_formula(rng, 3) for _ in range(20)]
    else:
        forms += d2
        forms += [random_formula(rng, 3) for _ in range(400)]
    seen = set()
    out = []
    for f in forms:
        k = key(f)
        if k not in seen:
            seen.add(k)
            out.append(f)
    return out


def all_traces(maxlen):
    """All traces of length 1..maxlen over two atoms; a trace is a tuple of codes
    (bit 0 = a, bit 1 = b), the same coding as Temporal.tla's Code."""
    out = []
    for n in range(1, maxlen + 1):
        out += list(itertools.product(range(4), repeat=n))
    return out


# ---- placement (c): `require` executed inside a compose block after k `wait`s

COMPOSE_OFFSETS = (0, 1, 2)
COMPOSE_MAXLEN = 3  # windows of the compose placements (both tiers)


def compose_plan(place, n, L):
    """How trace number n (trace index + a per-formula rotation) of length L is run for a
    compose-block requirement.  Returns dict(k, s, mode):
      k    `wait`s before the `require` in its compose block (offset of the effective step)
      s    steps the parent takes before `do Sub()` (0 for the top-level scenario)
      mode how the requirement's scenario ends:
           ctop: cf  its compose block finishes          ms  Simulator maxSteps
                 tw  `terminate when` of the scenario
           csub: cf  the sub-scenario's compose block finishes
                 ta  its `terminate after N steps`       for the parent's `do Sub() for N steps`
                 ms  Simulator maxSteps while it is still running"""
    k = COMPOSE_OFFSETS[n % len(COMPOSE_OFFSETS)]
    if place == "ctop":
        s = 0
        mode = ("cf", "ms", "tw")[(n // 3) % 3]
        if mode == "ms" and k + L - 1 == 0:  # maxSteps = 0 means "no limit"
            mode = "cf"
    else:
        s = (n // 12) % 2
        mode = ("cf", "ta", "for", "ms")[(n // 3) % 4]
        if mode == "ta" and L == 1:
            # the time limit is tested before the compose block runs: with N = k the
            # statement would never be executed
            mode = "cf"
        if mode == "ms" and s + k + L - 1 == 0:
            mode = "for"
    return {"k": k, "s": s, "mode": mode}


def text(tokens):
    """Scenic source of a formula from the token sequence printed by Temporal.tla."""
    return " ".join(f'tv("{t}")' if t in ATOMS else t for t in tokens).replace("( ", "(").replace(" )", ")")


# ---- reading a compiled proposition back into a tree (for the parse check)


def from_proposition(p, idmap):
    """Scenic proposition tree -> formula tree.  idmap: syntax_id -> atom name.
    n-ary and/or are returned left-nested."""
    import scenic.core.propositions as P

    if isinstance(p, P.Atomic):
        return ["atom", idmap[p.syntax_id]]
    if isinstance(p, P.Not):
        return ["not", from_proposition(p.req, idmap)]
    if isinstance(p, P.Next):
        return ["next", from_proposition(p.req, idmap)]
    if isinstance(p, P.Always):
        return ["always", from_proposition(p.req, idmap)]
    if isinstance(p, P.Eventually):
        return ["eventually", from_proposition(p.req, idmap)]
    if isinstance(p, (P.And, P.Or)):
        op = "and" if isinstance(p, P.And) else "or"
        subs = [from_proposition(q, idmap) for q in p.reqs]
        t = subs[0]
        for s in subs[1:]:
            t = [op, t, s]
        return t
    if isinstance(p, P.Until):
        return ["until", from_proposition(p.lhs, idmap), from_proposition(p.rhs, idmap)]
    if isinstance(p, P.Implies):
        return ["implies", from_proposition(p.lhs, idmap), from_proposition(p.rhs, idmap)]
    raise ValueError(f"unknown proposition node {type(p).__name__}")


def flatten(f):
    """Normal form modulo associativity of and/or: ('and', [operands...]) with nested
    same-operator operands spliced in."""
    if f[0] == "atom":
        return ("atom", f[1])
    if f[0] in ("and", "or"):
        ops = []
        for g in f[1:]:
            h = flatten(g)
            if h[0] == f[0]:
                ops += list(h[1])
            else:
                ops.append(h)
        return (f[0], tuple(ops))
    return (f[0],) + tuple(flatten(g) for g in f[1:])
