"""Python side of spec/lib/Lat3.tla: conversion between lattice values printed by TLC and the floats
given to / read from the real Scenic objects.  No geometry is decided here: expected values always
come from TLC; this module only scales integers, turns (cos, sin, den) + quarter turns into radians,
and reads rotation matrices off real Orientation objects."""

import math

SCALE = 4  # lattice = quarter units

# Pythagorean angles (cos, sin, den), as in Lat3!PythAngles
PYTH = [(3, 4, 5), (4, 3, 5), (-3, 4, 5), (3, -4, 5), (-4, -3, 5), (5, 12, 13), (12, 5, 13), (-5, 12, 13), (12, -5, 13)]

# one Euler triple (quarter turns) per cube rotation, in the order of Lat3!CanonEuler(1..24)
EULER_CANON = [(y, 0, r) for y in range(4) for r in range(4)] + [(y, 1, 0) for y in range(4)] + [(y, 3, 0) for y in range(4)]


def q(x):
    """units -> lattice integer (must be exact)"""
    v = x * SCALE
    r = round(v)
    if abs(v - r) > 1e-9:
        raise ValueError(f"{x} is not on the quarter lattice")
    return int(r)


def qv(v):
    return [q(c) for c in v]


def quarter_angle(k):
    """k quarter turns -> radians in (-pi, pi]"""
    k %= 4
    return (0.0, math.pi / 2, math.pi, -math.pi / 2)[k]


def yaw_of(yq, ky=0):
    """angle with cos = c/d, sin = s/d, plus ky quarter turns"""
    c, s, d = yq
    return math.atan2(s, c) + quarter_angle(ky)


def euler_rad(yq, e):
    """(yaw, pitch, roll) in radians of Rz(yq) * FromEuler4(e)"""
    return (yaw_of(yq, e[0]), quarter_angle(e[1]), quarter_angle(e[2]))


def unscale(p, scale):
    return tuple(c / scale for c in p)


def deg(h):
    return math.radians(h)


def matrix_of(orientation):
    """3x3 rotation matrix (rows) of a real scenic Orientation: columns are the images of the axes"""
    m = orientation.r.as_matrix()
    return [[float(m[i][j]) for j in range(3)] for i in range(3)]


def mat_close(m, expected, den=1, tol=1e-6):
    return all(abs(m[i][j] - expected[i][j] / den) <= tol for i in range(3) for j in range(3))


def vec_close(v, expected, scale, tol=1e-6):
    return all(abs(float(v[i]) - expected[i] / scale) <= tol for i in range(3))


# ---- integer mirror of Lat3!FromEuler4 / Apply, used by generators ONLY to place arguments on the
# lattice (e.g. a target point whose direction in a rotated frame is Pythagorean).  Expected values
# never come from here, and every spec re-derives what it needs from the arguments and checks it
# (NormsOK / frame lemmas), so a mistake here shows up as a TLC lemma failure, not as a verdict.
_C4 = (1, 0, -1, 0)
_S4 = (0, 1, 0, -1)


def _mm(a, b):
    return [[sum(a[i][k] * b[k][j] for k in range(3)) for j in range(3)] for i in range(3)]


def rot4(e):
    y, p, r = (k % 4 for k in e)
    rz = [[_C4[y], -_S4[y], 0], [_S4[y], _C4[y], 0], [0, 0, 1]]
    rx = [[1, 0, 0], [0, _C4[p], -_S4[p]], [0, _S4[p], _C4[p]]]
    ry = [[_C4[r], 0, _S4[r]], [0, 1, 0], [-_S4[r], 0, _C4[r]]]
    return _mm(_mm(rz, rx), ry)


def mapply(m, v):
    return [sum(m[i][k] * v[k] for k in range(3)) for i in range(3)]
