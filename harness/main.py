"""CLI: ./check <Cxx> [--tier quick|thorough] [--replay path]"""

import importlib
import os
import sys
import traceback

sys.path.insert(0, os.path.dirname(os.path.abspath(__file__)))


def main(argv):
    if not argv:
        print("usage: check <Cxx> [--tier quick|thorough] [--replay path]")
        return 2
    prop = argv[0].upper()
    tier = os.environ.get("VERIF_TIER", "quick")
    replay = None
    i = 1
    while i < len(argv):
        if argv[i] == "--tier":
            tier = argv[i + 1]
            i += 2
        elif argv[i] == "--replay":
            replay = argv[i + 1]
            i += 2
        else:
            i += 1
    if tier not in ("quick", "thorough"):
        tier = "quick"
    from common import MachineryError

    try:
        mod = importlib.import_module(prop.lower())
        if replay:
            if hasattr(mod, "replay"):
                return mod.replay(replay)
            print(open(replay).read())
            return 0
        return mod.main(tier)
    except MachineryError as e:
        print(f"MACHINERY-FAILURE property={prop}: {e}", file=sys.stderr)
        return 2
    except Exception:
        traceback.print_exc()
        print(f"MACHINERY-FAILURE property={prop}: unexpected exception in the harness", file=sys.stderr)
        return 2


if __name__ == "__main__":
    sys.exit(main(sys.argv[1:]))
