"""Scripted randomness (DESIGN.md 2.4): replace the `random` module's functions from outside
and enumerate every RNG branch of the real code depth-first, each with its exact rational
probability computed from the *logged arguments* of the calls."""

import random as _random
from fractions import Fraction

_PATCHED = ("random", "randint", "randrange", "choices", "choice", "uniform", "shuffle", "gauss")


class Unscripted(Exception):
    """The code under test drew from a generator function the fragment does not script."""


class Scripted:
    """Context manager installing a scripted source for one execution.

    prefix: list of alternative indices to take at the first len(prefix) calls; afterwards
    alternative 0 is taken.  thresholds: rational cut points of [0,1) for random.random().
    uniform_values: optional function (a, b) -> list of (value, Fraction) to script
    random.uniform with finitely many lattice values.
    gauss_values: optional function (mu, sigma) -> list of (value, Fraction) giving a finite set of
    representative outcomes of random.gauss (small and large deviations; the weights are NOT the
    normal law, checks that script gauss must not use them as probabilities).  When it is None
    random.gauss is left untouched (the real generator)."""

    def __init__(self, prefix=(), thresholds=(), uniform_values=None, gauss_values=None, script_state=False):
        # script_state: also script random.getstate / random.setstate.  The generator is a deterministic
        # stream: after setstate(s) the code re-reads the numbers it consumed since getstate() returned s.
        # Scripted model: the draws made since the checkpoint are kept on a tape; a draw made after a rewind
        # is NOT a new branch point: the same call returns the same value, a different call returns the
        # alternative selected by the taped index (a deterministic function of the earlier draw) -- either way
        # with probability 1, so that any reuse of consumed randomness shows up as a different joint law.
        self.script_state = script_state
        self.tape = []      # indices into self.log of the fresh draws, in order
        self.cursor = 0     # position on the tape (== len(tape) unless rewound)
        self.prefix = list(prefix)
        self.log = []  # (fn, args, nalts, idx, prob, result)
        cuts = sorted({Fraction(t) for t in thresholds if 0 < Fraction(t) < 1})
        edges = [Fraction(0)] + cuts + [Fraction(1)]
        self.cells = [
            (float((edges[i] + edges[i + 1]) / 2), edges[i + 1] - edges[i])
            for i in range(len(edges) - 1)
        ]
        self.uniform_values = uniform_values
        self.gauss_values = gauss_values
        self._saved = {}

    # -- plumbing
    def _pick(self, fn, args, alts):
        if self.script_state and self.cursor < len(self.tape):
            # replay after a rewind: no branching
            e = self.log[self.tape[self.cursor]]
            self.cursor += 1
            if e[0] == fn and e[1] == args and e[3] < len(alts):
                val = alts[e[3]][0]
                idx = e[3]
            else:
                idx = e[3] % len(alts)
                val = alts[idx][0]
            self.log.append((fn, args, 1, 0, Fraction(1), val))
            return val
        pos = len(self.log)
        if self.script_state:
            self.tape.append(pos)
            self.cursor = len(self.tape)
        idx = self.prefix[pos] if pos < len(self.prefix) else 0
        if idx >= len(alts):
            raise Unscripted(f"script index {idx} out of range for {fn}{args}")
        val, prob = alts[idx]
        self.log.append((fn, args, len(alts), idx, prob, val))
        return val

    def __enter__(self):
        for name in _PATCHED:
            self._saved[name] = getattr(_random, name)
        _random.random = self.random
        _random.randint = self.randint
        _random.randrange = self.randrange
        _random.choices = self.choices
        _random.choice = self.choice
        _random.uniform = self.uniform
        _random.shuffle = self.shuffle
        if self.gauss_values is not None:
            _random.gauss = self.gauss
        if self.script_state:
            self._saved["getstate"] = _random.getstate
            self._saved["setstate"] = _random.setstate
            _random.getstate = self.getstate
            _random.setstate = self.setstate
        return self

    def __exit__(self, *exc):
        for name, f in self._saved.items():
            setattr(_random, name, f)
        return False

    # -- scripted generator state
    def getstate(self):
        return ("scripted-state", self.cursor)

    def setstate(self, state):
        if not (isinstance(state, tuple) and len(state) == 2 and state[0] == "scripted-state"):
            raise Unscripted("random.setstate with a state not obtained from the scripted generator")
        self.cursor = state[1]

    # -- scripted functions
    def random(self):
        return self._pick("random", (), list(self.cells))

    def randint(self, a, b):
        if b < a:
            raise ValueError("empty range for randint")
        n = b - a + 1
        return self._pick("randint", (a, b), [(v, Fraction(1, n)) for v in range(a, b + 1)])

    def randrange(self, start, stop=None, step=1):
        if stop is None:
            start, stop = 0, start
        vals = list(range(start, stop, step))
        if not vals:
            raise ValueError("empty range for randrange")
        return self._pick(
            "randrange", (start, stop, step), [(v, Fraction(1, len(vals))) for v in vals]
        )

    def choices(self, population, weights=None, *, cum_weights=None, k=1):
        population = list(population)
        if k != 1:
            raise Unscripted("choices with k != 1")
        n = len(population)
        if cum_weights is not None:
            cw = [Fraction(w) for w in cum_weights]
            ws = [cw[0]] + [cw[i] - cw[i - 1] for i in range(1, n)]
            key = ("cum", tuple(str(Fraction(w)) for w in cum_weights))
        elif weights is not None:
            ws = [Fraction(w) for w in weights]
            key = ("w", tuple(str(Fraction(w)) for w in weights))
        else:
            ws = [Fraction(1)] * n
            key = ("u", n)
        if len(ws) != n:
            raise ValueError("The number of weights does not match the population")
        tot = sum(ws)
        if tot <= 0:
            raise ValueError("Total of weights must be greater than zero")
        alts = [(i, w / tot) for i, w in enumerate(ws) if w > 0]
        i = self._pick("choices", key, alts)
        return [population[i]]

    def choice(self, seq):
        seq = list(seq)
        if not seq:
            raise IndexError("Cannot choose from an empty sequence")
        i = self._pick("choice", (len(seq),), [(i, Fraction(1, len(seq))) for i in range(len(seq))])
        return seq[i]

    def shuffle(self, x):
        # Fisher-Yates driven by scripted picks, so every permutation is a branch
        for i in reversed(range(1, len(x))):
            jj = self._pick("shuffle", (i + 1,), [(v, Fraction(1, i + 1)) for v in range(i + 1)])
            x[i], x[jj] = x[jj], x[i]

    def uniform(self, a, b):
        if self.uniform_values is None:
            raise Unscripted(f"random.uniform({a}, {b}) in a program of the discrete fragment")
        return self._pick("uniform", (a, b), list(self.uniform_values(a, b)))

    def gauss(self, mu=0.0, sigma=1.0):
        if sigma == 0:
            return self._pick("gauss", (mu, sigma), [(mu, Fraction(1))])
        return self._pick("gauss", (mu, sigma), list(self.gauss_values(mu, sigma)))

    # -- results
    def weight(self):
        w = Fraction(1)
        for _fn, _args, _n, _idx, prob, _val in self.log:
            w *= prob
        return w

    def choices_made(self):
        return [e[3] for e in self.log]


def explore(run, thresholds=(), uniform_values=None, max_paths=200000, gauss_values=None, script_state=False):
    """Depth-first enumeration of every RNG branch of run().

    run() is called once per branch inside a Scripted context and returns an outcome.
    Yields (outcome, weight Fraction, log).  Raises OverflowError beyond max_paths."""
    stack = [[]]
    count = 0
    while stack:
        prefix = stack.pop()
        with Scripted(prefix, thresholds, uniform_values, gauss_values, script_state) as s:
            outcome = run(s)
        count += 1
        if count > max_paths:
            raise OverflowError(f"more than {max_paths} RNG branches")
        made = s.choices_made()
        for pos in range(len(prefix), len(s.log)):
            nalts = s.log[pos][2]
            for alt in range(1, nalts):
                stack.append(made[:pos] + [alt])
        yield outcome, s.weight(), s.log
