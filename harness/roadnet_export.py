"""C20 — export a real scenic.domains.driving.roads.Network as a finite structure for RoadNet.tla.

The export is the *state* that is audited (binding mode M3): integer ids for every network
element and every maneuver, every documented link as a function id -> id (0 = absent) or
id -> list of ids, and, for a finite set of sample points, FACTS measured on the real network:

  * which elements contain the point (distance 0), which are within the network tolerance,
    and which are too close to one of the two thresholds to call (don't-care sets), measured
    here with shapely on the element polygons (shapely is trusted, the R-tree lookup of
    Network.findPointIn is what is under test);
  * what every lookup of the real Network returned at the point;
  * the traffic direction(s) the network reports at the point and the tangent heading(s) of the
    centreline of each lane containing the point, as integer centi-degrees in [0, 36000)
    (RoadNet.tla compares them modulo 360 degrees with a tolerance of 2 degrees).

Nothing here decides anything: RoadNet.tla states the property, TLC evaluates it.
"""

import math
import zlib

import numpy as np
import shapely
from shapely.geometry import Point as SPoint

# relative/absolute slack around the two thresholds (distance 0 and distance = tolerance)
EPS0 = 1e-7  # 0 < d <= EPS0: may count as inside or as near
EPS1 = 1e-6  # |d - tol| <= EPS1: may count as near or as outside

CLASSES = (
    "road",
    "croad",
    "group",
    "lane",
    "lsec",
    "rsec",
    "inter",
    "sidewalk",
    "shoulder",
    "crossing",
)


def _cls(net, e, connecting_uids):
    from scenic.domains.driving import roads as R

    if isinstance(e, R.Road):
        return "croad" if e.uid in connecting_uids else "road"
    if isinstance(e, R.LaneGroup):
        return "group"
    if isinstance(e, R.LaneSection):
        return "lsec"
    if isinstance(e, R.Lane):
        return "lane"
    if isinstance(e, R.RoadSection):
        return "rsec"
    if isinstance(e, R.Intersection):
        return "inter"
    if isinstance(e, R.Sidewalk):
        return "sidewalk"
    if isinstance(e, R.Shoulder):
        return "shoulder"
    if isinstance(e, R.PedestrianCrossing):
        return "crossing"
    return "other"


def _cm(x):
    """a length/area in integer hundredths; -1 when not finite (a damaged network)"""
    try:
        return int(round(x * 100)) if math.isfinite(x) else -1
    except Exception:
        return -1


def heading_of(dx, dy):
    """Scenic heading (0 = +Y, counter-clockwise positive) of the direction (dx, dy), degrees."""
    return math.degrees(math.atan2(dy, dx)) - 90.0


def cdeg(a_deg):
    """heading in integer centi-degrees, in [0, 36000)."""
    return int(round(a_deg * 100)) % 36000


def angdiff_cdeg(a_deg, b_deg):
    """|a - b| modulo 360, folded into [0, 180], in integer centi-degrees."""
    d = (a_deg - b_deg) % 360.0
    if d > 180.0:
        d = 360.0 - d
    return int(round(d * 100))


def tangent_headings(polyline, x, y, slack=1e-6):
    """Headings (degrees) of every segment of the polyline that is nearest to (x, y)
    (several when the nearest point is a vertex: then either adjacent segment is a legitimate
    'nearest segment', which is the vertex / section-joint don't-care of the design)."""
    pts = np.asarray([(p[0], p[1]) for p in polyline.points], dtype=float)
    a, b = pts[:-1], pts[1:]
    ab = b - a
    ap = np.array([x, y]) - a
    den = (ab * ab).sum(axis=1)
    den[den == 0] = 1.0
    t = np.clip((ap * ab).sum(axis=1) / den, 0.0, 1.0)
    proj = a + ab * t[:, None]
    d = np.hypot(proj[:, 0] - x, proj[:, 1] - y)
    dmin = d.min()
    out = []
    for i in np.nonzero(d <= dmin + slack)[0]:
        if ab[i, 0] == 0 and ab[i, 1] == 0:
            continue
        out.append(heading_of(ab[i, 0], ab[i, 1]))
    return out, float(dmin)


def _sample_in(poly, k, rng, maxbatches=30):
    """k points inside a shapely (multi)polygon by vectorised rejection from its bounding box."""
    if poly.is_empty or k <= 0:
        return []
    minx, miny, maxx, maxy = poly.bounds
    out = []
    for _ in range(maxbatches):
        xs = rng.uniform(minx, maxx, 256)
        ys = rng.uniform(miny, maxy, 256)
        ok = shapely.contains_xy(poly, xs, ys)
        for x, y in zip(xs[ok], ys[ok]):
            out.append((float(x), float(y)))
            if len(out) >= k:
                return out
    if not out:
        p = poly.representative_point()
        out.append((p.x, p.y))
    return out


def _ring_points(poly, k, rng, offset):
    """k points at (signed) distance `offset` outside the exterior boundary of a polygon."""
    out = []
    geoms = list(poly.geoms) if hasattr(poly, "geoms") else [poly]
    geoms = [g for g in geoms if not g.is_empty]
    if not geoms:
        return out
    for _ in range(k):
        g = geoms[int(rng.integers(len(geoms)))]
        ring = g.exterior
        s = float(rng.uniform(0, ring.length))
        p = ring.interpolate(s)
        q = ring.interpolate(min(s + 1e-3, ring.length))
        dx, dy = q.x - p.x, q.y - p.y
        n = math.hypot(dx, dy)
        if n == 0:
            continue
        # exterior rings of valid shapely polygons may be in either orientation: try both normals
        for sx, sy in ((dy / n, -dx / n), (-dy / n, dx / n)):
            cand = SPoint(p.x + sx * offset, p.y + sy * offset)
            if not g.contains(cand):
                out.append((cand.x, cand.y))
                break
    return out


def add_inverse_index(out):
    """S.succof[y] / S.predof[y]: same-class elements x with F.succ[x] = y / F.pred[x] = y
    (RoadNet.tla checks that this is exactly the inverse, I_InverseIndexExact)."""
    n, cls, F = out["n"], out["cls"], out["F"]
    succof = [[] for _ in range(n + 1)]
    predof = [[] for _ in range(n + 1)]
    for x in range(1, n + 1):
        for key, inv in (("succ", succof), ("pred", predof)):
            y = F[key][x - 1]
            if 0 < y <= n and cls[y - 1] == cls[x - 1]:
                inv[y - 1].append(x)
    out["S"]["succof"] = succof
    out["S"]["predof"] = predof
    return out


def export_network(net, name, seed=0, budget=600, points=True, seed_key=None):
    """Return the JSON-able structure audited by RoadNet.tla.  `budget` ~ number of sample points;
    `seed_key` (default: name) selects the sample points, so that two exports of the same map
    (parsed / loaded from its cache) measure the same points."""
    from scenic.domains.driving import roads as R

    elems = list(net.elements.values())
    N = len(elems)
    idx = {id(e): i + 1 for i, e in enumerate(elems)}

    def I(e):
        """id of an element; 0 for None; -1 for a dangling reference (not an element of this
        network, e.g. an unresolved OpenDRIVE id or an element of another network)."""
        if e is None:
            return 0
        return idx.get(id(e), -1)

    def IL(seq):
        return [I(e) for e in (seq or ())]

    connecting_uids = {r.uid for r in net.connectingRoads}
    cls = [_cls(net, e, connecting_uids) for e in elems]

    zero = lambda: [0] * N
    nil = lambda: [[] for _ in range(N)]
    F = {k: zero() for k in (
        "succ", "pred", "road", "group", "lane", "left", "right", "faster", "slower", "isfwd",
        "opposite", "sidewalk", "shoulder", "bike", "fwd", "bwd", "odid", "parent", "swa", "swb")}
    S = {k: nil() for k in (
        "lanes", "sections", "groups", "adj", "mans", "iroads", "incoming", "outgoing",
        "sidewalks", "crossings", "flanes", "blanes")}

    # ---- maneuvers (identity-based: they are not NetworkElements)
    mans = []
    mid = {}

    def M(m):
        if id(m) not in mid:
            mans.append(m)
            mid[id(m)] = len(mans)
        return mid[id(m)]

    for e in elems:
        if isinstance(e, (R.Lane, R.Intersection)):
            for m in e.maneuvers:
                M(m)

    for i, e in enumerate(elems):
        c = cls[i]
        if isinstance(e, R.LinearElement):
            F["succ"][i] = I(e._successor)
            F["pred"][i] = I(e._predecessor)
        if c in ("road", "croad"):
            F["fwd"][i] = I(e.forwardLanes)
            F["bwd"][i] = I(e.backwardLanes)
            S["lanes"][i] = IL(e.lanes)
            S["groups"][i] = IL(e.laneGroups)
            S["sections"][i] = IL(e.sections)
            S["sidewalks"][i] = IL(e.sidewalks)
            S["crossings"][i] = IL(e.crossings)
        elif c == "group":
            F["road"][i] = I(e.road)
            S["lanes"][i] = IL(e.lanes)
            F["opposite"][i] = I(e._opposite)
            F["sidewalk"][i] = I(e._sidewalk)
            F["shoulder"][i] = I(e._shoulder)
            F["bike"][i] = I(e._bikeLane)
        elif c == "lane":
            F["group"][i] = I(e.group)
            F["road"][i] = I(e.road)
            S["sections"][i] = IL(e.sections)
            S["adj"][i] = IL(e.adjacentLanes)
            S["mans"][i] = [M(m) for m in e.maneuvers]
        elif c == "lsec":
            F["lane"][i] = I(e.lane)
            F["group"][i] = I(e.group)
            F["road"][i] = I(e.road)
            F["left"][i] = I(e._laneToLeft)
            F["right"][i] = I(e._laneToRight)
            F["faster"][i] = I(e._fasterLane)
            F["slower"][i] = I(e._slowerLane)
            F["isfwd"][i] = 1 if e.isForward else 0
            F["odid"][i] = int(e.openDriveID)
            S["adj"][i] = IL(e.adjacentLanes)
        elif c == "rsec":
            F["road"][i] = I(e.road)
            S["lanes"][i] = IL(e.lanes)
            S["flanes"][i] = IL(e.forwardLanes)
            S["blanes"][i] = IL(e.backwardLanes)
        elif c == "inter":
            S["iroads"][i] = IL(e.roads)
            S["incoming"][i] = IL(e.incomingLanes)
            S["outgoing"][i] = IL(e.outgoingLanes)
            S["mans"][i] = [M(m) for m in e.maneuvers]
            S["crossings"][i] = IL(e.crossings)
        elif c == "sidewalk":
            F["road"][i] = I(e.road)
            S["crossings"][i] = IL(e.crossings)
        elif c == "shoulder":
            F["road"][i] = I(e.road)
        elif c == "crossing":
            F["parent"][i] = I(e.parent)
            F["swa"][i] = I(e.startSidewalk)
            F["swb"][i] = I(e.endSidewalk)

    # ---- maneuver records; geometric facts: head-to-tail gaps (cm), conflicts really cross
    def gap_cm(a, b):
        """distance from the end of a's centreline to the start of b's, in cm (capped)."""
        p, q = a.centerline.points[-1], b.centerline.points[0]
        return min(10**6, int(round(100 * math.hypot(p[0] - q[0], p[1] - q[1]))))

    mrecs = []
    for m in mans:
        rec = {
            "start": I(m.startLane),
            "conn": I(m.connectingLane),
            "end": I(m.endLane),
            "inter": I(m.intersection),
            "conf": [],
            "confx": [],
            "rev": [],
            "reverr": 0,
            "gsc": -1,
            "gce": -1,
            "gse": -1,
            "straight": 1 if m.type is R.ManeuverType.STRAIGHT else 0,
        }
        try:
            for c2 in m.conflictingManeuvers:
                rec["conf"].append(M(c2) if id(c2) in mid else -1)
                ok = bool(
                    m.connectingLane is not None
                    and c2.connectingLane is not None
                    and m.connectingLane.polygons.intersects(c2.connectingLane.polygons)
                )
                rec["confx"].append(1 if ok else 0)
        except Exception:
            rec["reverr"] += 2
        try:
            for r2 in m.reverseManeuvers:
                rec["rev"].append(M(r2) if id(r2) in mid else -1)
        except Exception:
            # Maneuver.reverseManeuvers dereferences self.intersection, which is None for lane
            # mergers (recorded, not audited: the property does not speak about it)
            rec["reverr"] += 1
        try:
            if m.connectingLane is not None:
                rec["gsc"] = gap_cm(m.startLane, m.connectingLane)
                rec["gce"] = gap_cm(m.connectingLane, m.endLane)
            else:
                rec["gse"] = gap_cm(m.startLane, m.endLane)
        except Exception:
            pass
        mrecs.append(rec)

    # ---- link values that are not elements of this network: sentinel id N+1 (arrays get one
    # more, all-zero, entry so that the specification stays total)
    DANG = N + 1
    raw = {"n": 0, "falsy": 0}

    def fix(v):
        if v == -1:
            raw["n"] += 1
            return DANG
        return v

    for k in F:
        if k in ("isfwd", "odid"):
            F[k].append(0)
            continue
        F[k] = [fix(v) for v in F[k]] + [0]
    for k in S:
        if k == "mans":
            S[k].append([])
            continue
        S[k] = [[fix(v) for v in l] for l in S[k]] + [[]]
    for rec in mrecs:
        for k in ("start", "conn", "end", "inter"):
            rec[k] = fix(rec[k])
    cls = cls + ["dangling"]

    out = {
        "name": name,
        "n": N,
        "tol_um": int(round(net.tolerance * 1e6)),
        "cls": cls,
        "uids": [e.uid for e in elems],
        "geom": [[_cm(e.polygons.area), _cm(e.polygons.length)] for e in elems],
        "raw_links": raw["n"],
        "roads": IL(net.roads),
        "croads": IL(net.connectingRoads),
        "allroads": IL(net.allRoads),
        "groups": IL(net.laneGroups),
        "lanes": IL(net.lanes),
        "lsecs": IL(net.laneSections),
        "rsecs": IL(net.roadSections),
        "inters": IL(net.intersections),
        "sidewalks": IL(net.sidewalks),
        "shoulders": IL(net.shoulders),
        "crossings": IL(net.crossings),
        "F": F,
        "S": S,
        "mans": mrecs,
        "pts": [],
        "mut": "",
        "expect": [],
    }
    for k in ("roads", "croads", "allroads", "groups", "lanes", "lsecs", "rsecs", "inters",
              "sidewalks", "shoulders", "crossings"):
        out[k] = [fix(v) for v in out[k]]
    out["raw_links"] = raw["n"]
    add_inverse_index(out)
    if points:
        out["pts"] = measure_points(net, elems, cls, idx, mid, seed_key or name, seed, budget)
    return out


# --------------------------------------------------------------------------- point facts


def choose_points(net, elems, cls, name, seed, budget):
    """Deterministic (seeded) choice of sample points: [(kind, source element index or -1, x, y)]."""
    rng = np.random.default_rng([seed, zlib.crc32(name.encode())])
    pts = []
    tol = net.tolerance

    def pick(seq, k):
        seq = list(seq)
        if len(seq) <= k:
            return seq
        sel = rng.choice(len(seq), size=k, replace=False)
        return [seq[i] for i in sorted(sel)]

    nls = max(1, budget // 3)
    # points of lane sections (the maintainers' `lane.sectionAt(pt) is section`, `group.laneAt(pt) is lane`)
    secs = pick(net.laneSections, nls)
    per = max(1, min(4, nls // max(1, len(secs))))
    for s in secs:
        for x, y in _sample_in(s.polygons, per, rng):
            pts.append(("lsec", s, x, y))
    # points of connecting lanes / intersections
    for it in pick(net.intersections, max(1, budget // 12)):
        for x, y in _sample_in(it.polygons, 3, rng):
            pts.append(("inter", it, x, y))
    # points of the drivable area (the maintainers' orientation-consistency test)
    dr = net.drivableRegion.polygons
    for x, y in _sample_in(dr, max(4, budget // 6), rng, maxbatches=60):
        pts.append(("drivable", None, x, y))
    # shoulders and sidewalks (test_shoulder / test_sidewalk)
    for sh in pick(net.shoulders, max(1, budget // 12)):
        for x, y in _sample_in(sh.polygons, 2, rng):
            pts.append(("shoulder", sh, x, y))
    for sw in pick(net.sidewalks, max(1, budget // 12)):
        for x, y in _sample_in(sw.polygons, 2, rng):
            pts.append(("sidewalk", sw, x, y))
    # points just outside the roads: within the tolerance, and clearly beyond it (test_element_tolerance)
    k = max(2, budget // 24)
    for r in pick(net.roads, k):
        if tol > 0:
            for x, y in _ring_points(r.polygons, 1, rng, 0.5 * tol):
                pts.append(("near", r, x, y))
            for x, y in _ring_points(r.polygons, 1, rng, 1.75 * tol):
                pts.append(("far", r, x, y))
        else:
            for x, y in _ring_points(r.polygons, 1, rng, 0.02):
                pts.append(("far", r, x, y))
    return pts


def measure_points(net, elems, cls, idx, mid, name, seed, budget):
    from scenic.core.vectors import Vector
    from scenic.domains.driving import roads as R

    tol = float(net.tolerance)
    polys = [e.polygons for e in elems]
    tree = shapely.STRtree(polys)  # our own index, only to find candidates quickly
    chosen = choose_points(net, elems, cls, name, seed, budget)

    def I(e):
        if e is None:
            return 0
        return idx.get(id(e), -1)

    recs = []
    for kind, src, x, y in chosen:
        sp = SPoint(x, y)
        cand = tree.query(sp.buffer(tol + 2 * EPS1 + 1e-9), predicate="intersects")
        inn, fz0, near, fz1 = [], [], [], []
        for j in sorted(int(c) for c in cand):
            d = polys[j].distance(sp)
            if d == 0.0:
                inn.append(j + 1)
            elif d <= EPS0:
                fz0.append(j + 1)
            elif d < tol - EPS1:
                near.append(j + 1)
            elif d <= tol + EPS1:
                fz1.append(j + 1)
        v = Vector(x, y)
        rec = {
            "kind": kind,
            "src": I(src),
            "x": int(round(x * 100)),
            "y": int(round(y * 100)),
            "inn": inn,
            "fz0": fz0,
            "near": near,
            "fz1": fz1,
            "err": "",
        }
        try:
            lane = net.laneAt(v)
            road = net.roadAt(v)
            rec["elementAt"] = I(net.elementAt(v))
            rec["roadAt"] = I(road)
            rec["laneAt"] = I(lane)
            rec["laneSectionAt"] = I(net.laneSectionAt(v))
            rec["laneGroupAt"] = I(net.laneGroupAt(v))
            rec["intersectionAt"] = I(net.intersectionAt(v))
            rec["crossingAt"] = I(net.crossingAt(v))
            rec["sidewalkAt"] = I(net.sidewalkAt(v))
            rec["shoulderAt"] = I(net.shoulderAt(v))
            # lookups relative to the reported parents (the maintainers compare them with the global ones)
            rec["road_laneAt"] = I(road.laneAt(v)) if road is not None else 0
            rec["road_laneGroupAt"] = I(road.laneGroupAt(v)) if road is not None else 0
            rec["road_laneSectionAt"] = I(road.laneSectionAt(v)) if road is not None else 0
            rec["road_sectionAt"] = I(road.sectionAt(v)) if road is not None else 0
            rec["lane_sectionAt"] = I(lane.sectionAt(v)) if lane is not None else 0
            g = lane.group if lane is not None else None
            rec["group_laneAt"] = I(g.laneAt(v)) if g is not None else 0
            # source-relative lookups: the section's own lane / the lane's own group
            if kind == "lsec":
                rec["src_lane_sectionAt"] = I(src.lane.sectionAt(v))
                rec["src_group_laneAt"] = I(src.group.laneAt(v))
            else:
                rec["src_lane_sectionAt"] = 0
                rec["src_group_laneAt"] = 0
            # reject=True must reject exactly when the plain lookup finds nothing
            try:
                net.elementAt(v, reject=True)
                rec["rejects"] = 0
            except Exception as ex:
                rec["rejects"] = 1 if type(ex).__name__ == "RejectionException" else 2
        except Exception as ex:  # a lookup raised: recorded as a fact, the spec demands totality
            rec["err"] = f"{type(ex).__name__}: {ex}"[:200]
            for k in ("elementAt", "roadAt", "laneAt", "laneSectionAt", "laneGroupAt", "intersectionAt",
                      "crossingAt", "sidewalkAt", "shoulderAt", "road_laneAt", "road_laneGroupAt",
                      "road_laneSectionAt", "road_sectionAt", "lane_sectionAt", "group_laneAt",
                      "src_lane_sectionAt", "src_group_laneAt", "rejects"):
                rec.setdefault(k, 0)
        # ---- direction facts (raw headings in centi-degrees; TLC does the modular comparison)
        rec["rd"] = -1        # reported Network.roadDirection at the point
        rec["noms"] = []      # Network.nominalDirectionsAt
        rec["tans"] = []      # [[lane or shoulder id, [tangent headings of its centreline at the point]]]
        try:
            rec["rd"] = cdeg(math.degrees(net.roadDirection[v].yaw))
            rec["noms"] = [cdeg(math.degrees(o.yaw)) for o in net.nominalDirectionsAt(v)]
            for j in sorted(set(inn) | set(fz0) | set(near)):
                e = elems[j - 1]
                if cls[j - 1] == "lane" or (cls[j - 1] == "shoulder" and rec["elementAt"] == j):
                    tans, _d = tangent_headings(e.centerline, x, y)
                    if tans:
                        rec["tans"].append([j, [cdeg(t) for t in tans]])
        except Exception as ex:
            rec["err"] = (rec["err"] + f" | direction: {type(ex).__name__}: {ex}")[:300]
        recs.append(rec)
    return recs
