"""MANIFEST.setup_cmd: nothing is built ahead of time; verify that the tools the checks need exist."""
import os
import subprocess
import sys

ok = True
for path in ("/opt/veriftools/tla/tla2tools.jar", "/opt/veriftools/tla/CommunityModules-deps.jar", "/venv/bin/python"):
    if not os.path.exists(path):
        print("missing", path)
        ok = False
r = subprocess.run(["java", "-version"], capture_output=True, text=True)
if r.returncode != 0:
    print("java not runnable")
    ok = False
r = subprocess.run(["/venv/bin/python", "-c", "import scenic, pegen, rv_ltl; print(scenic.__file__)"], capture_output=True, text=True)
if r.returncode != 0 or "/repo/src/scenic" not in r.stdout:
    print("scenic not importable from /repo/src:", r.stdout, r.stderr[-500:])
    ok = False
os.makedirs("/verif/evidence", exist_ok=True)
os.makedirs("/verif/replays", exist_ok=True)
print("setup ok" if ok else "setup FAILED")
sys.exit(0 if ok else 1)
