------------------------------ MODULE Checker ------------------------------
(* C02 -- every generated scene satisfies all of its requirements.                        *)
(*                                                                                        *)
(* The requirement checker of scene generation (scenic.core.sample_checking) over the     *)
(* built-in and user requirements of a lattice program, with the exact geometry of        *)
(* Overlap.tla as oracle.                                                                  *)
(*                                                                                        *)
(* A program (JSON, Data.programs[pid]):                                                   *)
(*   objs[o]  : [shapes (options, catalogue ids: a random `shape` with fixed dimensions), *)
(*               pos (options, x4 lattice), rot (options, rotation ids),                  *)
(*               noise (options: displacement added by `mutate`, <<0,0,0>> when none),     *)
(*               ynoise (options: quarter turns added to yaw by `mutate`, 0 when none),    *)
(*               allow (options 0/1 of allowCollisions), occ (0/1 occluding),              *)
(*               rv (0/1 requireVisible), vis / nvis (viewer object of `visible from` /   *)
(*               `not visible from`, 0 = none), cont (own regionContainedIn, 0 = none)]    *)
(*              object 1 is the ego                                                        *)
(*   conts[c] : [kind "mesh" (shape, rot, pos) | "poly" (footprint of polygon poly)]       *)
(*   ws       : container index of the workspace (0 = everywhere)                          *)
(*   user[k]  : [c |-> condition over object coordinates, p |-> <<num, den>>]              *)
(*   vd       : visibleDistance (x4) of every viewer; the view angles are (90, 90) deg      *)
(*   blanket  : 1 when the optional blanket collision pre-check exists                     *)
(* An assignment picks one option per object and property; `act` is the set of user       *)
(* requirements enforced for this sample (hard ones always, soft ones by their coin).      *)
(* The scene of an assignment is the FINAL scene: pose after mutation, sampled shape.      *)
(* The built-in demands (SceneOK) and the requirement objects (Reqs) are derived from the  *)
(* scene's objects and containers only -- never from WHICH properties were random: an      *)
(* object with a constant pose that is mutated, or whose shape is random, is subject to    *)
(* containment / non-overlap / visibility like any other.                                  *)
(*                                                                                        *)
(* MEANING (language reference): a scene is valid iff no two objects overlap unless one   *)
(* of them allows collisions, every object lies inside its container (its own             *)
(* regionContainedIn, otherwise the workspace), every `visible from` / requireVisible /   *)
(* `not visible from` demand holds with every *occluding* object other than viewer and     *)
(* target as potential occluder, and every enforced user requirement is true: SceneOK.    *)
(* GRAIN (code): the list of requirement objects (Blanket optional; Intersect per pair of *)
(* objects that may collide; Contain; Visible; NotVisible; User), the checker's actions   *)
(*   Judge     the truth of every requirement on this assignment, from the oracle          *)
(*   Sort(p)   ANY permutation of the active requirements (the real order depends on      *)
(*             timing and acceptance statistics of earlier samples), then                 *)
(*             DropTrailingOptional                                                       *)
(*   Eval(r)   in that order; the result is the oracle's, free on touching configurations *)
(*   UpdateStats  after every evaluation; stop at the first falsified requirement         *)
(* BasicChecker: the non-optional requirements (plus the blanket check when there are at  *)
(* least 3 intersection requirements) in list order.                                       *)
(*                                                                                        *)
(* Invariants: AcceptSound, OnlyOptionalSkipped, RejectSound, OrderIrrelevant,            *)
(* OptionalConsistent, StatsExact.  EmitJudged prints per (program, assignment, act) the   *)
(* truth of every requirement, SceneOK and the verdict every order must reach.             *)
EXTENDS Overlap

Progs == Data.programs
NPg == Len(Progs)

VARIABLES pid, asg, act, mode, phase, tr, okv, order, i, evald, fals, verdict, stats
cvars == <<pid, asg, act, mode, phase, tr, okv, order, i, evald, fals, verdict, stats>>

Objs(p) == Progs[p].objs
NO(p) == Len(Objs(p))
NU(p) == Len(Progs[p].user)

\* ------------------------------------------------------------------ the scene of an assignment
\* yaw noise: R' = Rz(k quarter turns) R  (yaw is the first intrinsic angle)
RzQ == <<<<0, -1, 0>>, <<1, 0, 0>>, <<0, 0, 1>>>>
RECURSIVE RzPow(_)
RzPow(k) == IF k = 0 THEN <<<<1, 0, 0>>, <<0, 1, 0>>, <<0, 0, 1>>>> ELSE MatMul(RzQ, RzPow(k - 1))
YawAddT == [rk \in (1..NR) \X (0..3) |-> CHOOSE r2 \in 1..NR : SameMat(Rots[r2], MatMul(RzPow(rk[2]), Rots[rk[1]]))]
\* asg[o] = <<position, rotation, allowCollisions, position noise, yaw noise, shape>> option indices
PosOf(p, a, o) == AddV(Objs(p)[o].pos[a[o][1]], Objs(p)[o].noise[a[o][4]])
RotOf(p, a, o) == YawAddT[<<Objs(p)[o].rot[a[o][2]], Objs(p)[o].ynoise[a[o][5]]>>]
Allows(p, a, o) == Objs(p)[o].allow[a[o][3]] = 1
ShapeOf(p, a, o) == Objs(p)[o].shapes[a[o][6]]
ObjW(p, a, o) == World(ShapeOf(p, a, o), RotOf(p, a, o), PosOf(p, a, o))
ContW(p, c) == LET k == Progs[p].conts[c] IN
               IF k.kind = "mesh" THEN World(k.shape, k.rot, k.pos) ELSE Extrude(k.poly)
ContainerOf(p, o) == IF Objs(p)[o].cont # 0 THEN Objs(p)[o].cont ELSE Progs[p].ws

Yes3(free, v) == IF free THEN "free" ELSE IF v THEN "T" ELSE "F"

\* no overlap unless one of the two allows collisions
Apart3(p, a, x, y) ==
  IF Allows(p, a, x) \/ Allows(p, a, y) THEN "T"
  ELSE LET A == ObjW(p, a, x) B == ObjW(p, a, y) IN Yes3(TouchS(A, B), ~OverlapS(A, B))
\* inside the container (flush with its boundary: don't-care)
Inside3(p, a, o, c) ==
  LET O == ObjW(p, a, o) R == ContW(p, c) IN
  Yes3(InsideS(O, R) /\ ~StrictInsideS(O, R), InsideS(O, R))

(* Visibility, decided only in the clear-cut configurations (DESIGN.md C02 / C17): the viewer   *)
(* is unrotated (looks along +y with view angles (90, 90) degrees, camera at its position);     *)
(*  - out of view: the whole target is strictly behind the viewer, or farther than the          *)
(*    visible distance                                  -> not visible;                          *)
(*  - the whole target strictly inside the view pyramid |dx| < dy, |dz| < dy and within the     *)
(*    visible distance, and no occluder meets the bounding box of viewer point and target       *)
(*                                                        -> visible;                            *)
(*  - same but some occluder box stands strictly between viewer and target and the central      *)
(*    projection of the target onto the occluder's front face lies strictly inside that face    *)
(*    (every ray to the target enters the occluder first) -> not visible;                        *)
(*  - anything else is left open.                                                               *)
Occluders(p, v, t) == {o \in 1..NO(p) : o # v /\ o # t /\ Objs(p)[o].occ = 1}
PtBox(x) == Box(x, x)
HullBox(x, T) == LET b == BBoxS(T) IN
                 Box(<<Min2(x[1], b.lo[1]), Min2(x[2], b.lo[2]), Min2(x[3], b.lo[3])>>,
                     <<Max2(x[1], b.hi[1]), Max2(x[2], b.hi[2]), Max2(x[3], b.hi[3])>>)
InPyramid(x, c) == LET dx == c[1] - x[1] dy == c[2] - x[2] dz == c[3] - x[3] IN Abs(dx) < dy /\ Abs(dz) < dy
\* the front face (y = W.lo[2]) of box W shadows corner c as seen from x
Shadows(x, W, c) ==
  LET dy == c[2] - x[2] wy == W.lo[2] - x[2] IN
  /\ wy > 0 /\ W.hi[2] < c[2]
  /\ (W.lo[1] - x[1]) * dy < wy * (c[1] - x[1]) /\ wy * (c[1] - x[1]) < (W.hi[1] - x[1]) * dy
  /\ (W.lo[3] - x[3]) * dy < wy * (c[3] - x[3]) /\ wy * (c[3] - x[3]) < (W.hi[3] - x[3]) * dy
Visible3(p, a, v, t, occs) ==
  LET x == PosOf(p, a, v)
      T == ObjW(p, a, t)
      cs == CornersS(T)
      vd2 == Sq(Progs[p].vd)
      behind == \A c \in cs : c[2] < x[2]
      far == Gap2S(<<PtBox(x)>>, T) > vd2
      inview == ConvexT[ShapeOf(p, a, t)] /\ \A c \in cs : InPyramid(x, c) /\ D2(x, c) < vd2
      clear == \A o \in occs : ~MeetS(<<Grow(HullBox(x, T))>>, ObjW(p, a, o))
      hidden == \E o \in occs : \E k \in 1..NParts(ShapeOf(p, a, o)) :
                   \A c \in cs : Shadows(x, ObjW(p, a, o)[k], c)
  IN IF RotOf(p, a, v) # 1 THEN "free"
     ELSE IF behind \/ far THEN "F"
     ELSE IF inview /\ clear THEN "T"
     ELSE IF inview /\ hidden THEN "F"
     ELSE "free"
Not3(s) == IF s = "T" THEN "F" ELSE IF s = "F" THEN "T" ELSE "free"

\* user conditions over the sampled coordinates
RECURSIVE Cond(_, _, _)
Cond(p, a, t) ==
  CASE t[1] = "lt"  -> PosOf(p, a, t[2])[t[3]] < PosOf(p, a, t[4])[t[5]]
    [] t[1] = "ltc" -> PosOf(p, a, t[2])[t[3]] < t[4]
    [] t[1] = "gtc" -> PosOf(p, a, t[2])[t[3]] > t[4]
    [] t[1] = "and" -> Cond(p, a, t[2]) /\ Cond(p, a, t[3])
    [] t[1] = "or"  -> Cond(p, a, t[2]) \/ Cond(p, a, t[3])
    [] t[1] = "not" -> ~Cond(p, a, t[2])

\* ------------------------------------------------------------------ SceneOK: the reference, object by object
And3(S) == IF "F" \in S THEN "F" ELSE IF "free" \in S THEN "free" ELSE "T"
PairSet(p) == {xy \in (1..NO(p)) \X (1..NO(p)) : xy[1] < xy[2]}
SceneTruths(p, a, ac) ==
  {Apart3(p, a, xy[1], xy[2]) : xy \in PairSet(p)}
  \cup {Inside3(p, a, o, ContainerOf(p, o)) : o \in {o \in 1..NO(p) : ContainerOf(p, o) # 0}}
  \cup {Visible3(p, a, Objs(p)[o].vis, o, Occluders(p, Objs(p)[o].vis, o)) : o \in {o \in 1..NO(p) : Objs(p)[o].vis # 0}}
  \cup {Not3(Visible3(p, a, Objs(p)[o].nvis, o, Occluders(p, Objs(p)[o].nvis, o))) : o \in {o \in 1..NO(p) : Objs(p)[o].nvis # 0}}
  \cup {Visible3(p, a, 1, o, Occluders(p, 1, o)) : o \in {o \in 2..NO(p) : Objs(p)[o].rv = 1}}
  \cup {Yes3(FALSE, Cond(p, a, Progs[p].user[k].c)) : k \in ac}
  \cup {"T"}
SceneOK(p, a, ac) == And3(SceneTruths(p, a, ac))

\* ------------------------------------------------------------------ the requirement objects (grain: the code's list)
Req(k, a, b, opt) == [k |-> k, a |-> a, b |-> b, opt |-> opt]
MayCollide(p, o) == \E j \in 1..Len(Objs(p)[o].allow) : Objs(p)[o].allow[j] = 0
RECURSIVE SeqOfSet(_)      \* ascending order (pairs lexicographically)
Less(u, v) == IF u[1] = v[1] THEN u[2] < v[2] ELSE u[1] < v[1]
SeqOfSet(S) == IF S = {} THEN <<>>
               ELSE LET m == CHOOSE u \in S : \A v \in S : u = v \/ Less(u, v) IN <<m>> \o SeqOfSet(S \ {m})
\* each family is built from its sorted index pairs / indices (list order of the code)
IPairs(p) == SeqOfSet({xy \in PairSet(p) : MayCollide(p, xy[1]) /\ MayCollide(p, xy[2])})
Singles(S) == SeqOfSet({<<o, 0>> : o \in S})
Reqs(p) ==
  (IF Progs[p].blanket = 1 THEN <<Req("B", 0, 0, TRUE)>> ELSE <<>>)
  \o [j \in 1..Len(IPairs(p)) |-> Req("I", IPairs(p)[j][1], IPairs(p)[j][2], FALSE)]
  \o (LET s == Singles({o \in 1..NO(p) : ContainerOf(p, o) # 0}) IN [j \in 1..Len(s) |-> Req("C", s[j][1], ContainerOf(p, s[j][1]), FALSE)])
  \o (LET s == Singles({o \in 1..NO(p) : Objs(p)[o].vis # 0}) IN [j \in 1..Len(s) |-> Req("V", Objs(p)[s[j][1]].vis, s[j][1], FALSE)])
  \o (LET s == Singles({o \in 1..NO(p) : Objs(p)[o].nvis # 0}) IN [j \in 1..Len(s) |-> Req("N", Objs(p)[s[j][1]].nvis, s[j][1], FALSE)])
  \o (LET s == Singles({o \in 2..NO(p) : Objs(p)[o].rv = 1}) IN [j \in 1..Len(s) |-> Req("R", 1, s[j][1], FALSE)])
  \o [k \in 1..NU(p) |-> Req("U", k, 0, FALSE)]
ReqsTab == [p \in 1..NPg |-> Reqs(p)]
NRq(p) == Len(ReqsTab[p])

\* truth of one requirement object on an assignment ("T" = not falsified)
Blanket3(p, a) ==
  LET live == {o \in 1..NO(p) : ~Allows(p, a, o)}
      prs == {xy \in PairSet(p) : xy[1] \in live /\ xy[2] \in live}
      touch == \E xy \in prs : TouchS(ObjW(p, a, xy[1]), ObjW(p, a, xy[2]))
      hit == \E xy \in prs : FclHit(ObjW(p, a, xy[1]), ShapeOf(p, a, xy[1]), ObjW(p, a, xy[2]), ShapeOf(p, a, xy[2]))
  IN Yes3(touch, ~hit)
Truth3(p, a, r) ==
  CASE r.k = "B" -> Blanket3(p, a)
    [] r.k = "I" -> Apart3(p, a, r.a, r.b)
    [] r.k = "C" -> Inside3(p, a, r.a, r.b)
    [] r.k \in {"V", "R"} -> Visible3(p, a, r.a, r.b, Occluders(p, r.a, r.b))
    [] r.k = "N" -> Not3(Visible3(p, a, r.a, r.b, Occluders(p, r.a, r.b)))
    [] r.k = "U" -> Yes3(FALSE, Cond(p, a, Progs[p].user[r.a].c))
(* As-implemented deviation (known finding "occluder-iterator-consumed"):                      *)
(* Scenario.generateDefaultRequirements passes ONE filter iterator as the occluder list of      *)
(* every `visible from` / `not visible from` requirement; the first such requirement consumes   *)
(* it, every later one sees no occluders.  Trigger: the requirement is a `visible from` / `not  *)
(* visible from` requirement (not a requireVisible one) and not the first of them.              *)
FromSpecifier(p, j) == ReqsTab[p][j].k \in {"V", "N"}
OccluderTrigger(p, j) == FromSpecifier(p, j) /\ \E j2 \in 1..(j - 1) : FromSpecifier(p, j2)
TruthAsImplemented3(p, a, j) ==
  LET r == ReqsTab[p][j] IN
  IF OccluderTrigger(p, j)
  THEN (IF r.k = "V" THEN Visible3(p, a, r.a, r.b, {}) ELSE Not3(Visible3(p, a, r.a, r.b, {})))
  ELSE Truth3(p, a, r)

(* As-implemented deviation (known finding "validate-random-property-crash"): Scenario.validate() *)
(* calls container.containsObject(obj) on every object whose bounds are static (fixed position, *)
(* orientation, shape, dimensions, no mutation); when such an object has some OTHER random       *)
(* property (here: allowCollisions) the call returns a distribution and `not <distribution>`     *)
(* raises RandomControlFlowError: the program does not compile although it has valid scenes.     *)
StaticBounds(p, o) == /\ Len(Objs(p)[o].pos) = 1 /\ Len(Objs(p)[o].rot) = 1 /\ Len(Objs(p)[o].shapes) = 1
                      /\ Len(Objs(p)[o].noise) = 1 /\ Len(Objs(p)[o].ynoise) = 1
ValidateCrashTrigger(p) == \E o \in 1..NO(p) : StaticBounds(p, o) /\ Len(Objs(p)[o].allow) > 1 /\ ContainerOf(p, o) # 0

\* ------------------------------------------------------------------ assignments
Opt(p, o) == (1..Len(Objs(p)[o].pos)) \X (1..Len(Objs(p)[o].rot)) \X (1..Len(Objs(p)[o].allow))
             \X (1..Len(Objs(p)[o].noise)) \X (1..Len(Objs(p)[o].ynoise)) \X (1..Len(Objs(p)[o].shapes))
AsgSet(p) == CASE NO(p) = 1 -> {<<t1>> : t1 \in Opt(p, 1)}
               [] NO(p) = 2 -> {<<t1, t2>> : t1 \in Opt(p, 1), t2 \in Opt(p, 2)}
               [] NO(p) = 3 -> {<<t1, t2, t3>> : t1 \in Opt(p, 1), t2 \in Opt(p, 2), t3 \in Opt(p, 3)}
               [] NO(p) = 4 -> {<<t1, t2, t3, t4>> : t1 \in Opt(p, 1), t2 \in Opt(p, 2), t3 \in Opt(p, 3), t4 \in Opt(p, 4)}
Hard(p) == {k \in 1..NU(p) : Progs[p].user[k].p[1] = Progs[p].user[k].p[2]}
ActSets(p) == {Hard(p) \cup s : s \in SUBSET ((1..NU(p)) \ Hard(p))}
\* index of user requirement k in the requirement list
UIdx(p, k) == NRq(p) - NU(p) + k
Active(p, ac) == {j \in 1..NRq(p) : ReqsTab[p][j].k # "U" \/ ReqsTab[p][j].a \in ac}

\* ------------------------------------------------------------------ the checker machine
OvIdle == cfg = 0 /\ pc = "idle" /\ q = <<>> /\ ans = FALSE /\ dval = -1 /\ exit = "-"

CInit ==
  /\ OvIdle
  /\ pid \in 1..NPg
  /\ asg \in AsgSet(pid)
  /\ act \in ActSets(pid)
  /\ mode \in {"weighted", "basic"}
  /\ phase = "judge" /\ tr = <<>> /\ okv = "-" /\ order = <<>> /\ i = 0 /\ evald = {} /\ fals = FALSE
  /\ verdict = "none" /\ stats = <<>>

Judge ==
  /\ phase = "judge"
  /\ tr' = [j \in 1..NRq(pid) |-> Truth3(pid, asg, ReqsTab[pid][j])]
  /\ okv' = SceneOK(pid, asg, act)
  /\ stats' = [j \in 1..NRq(pid) |-> 0]
  /\ phase' = "sort"
  /\ UNCHANGED <<pid, asg, act, mode, order, i, evald, fals, verdict>>

RECURSIVE DropTrailingOptional(_, _)
DropTrailingOptional(p, s) ==
  IF s # <<>> /\ ReqsTab[p][s[Len(s)]].opt THEN DropTrailingOptional(p, SubSeq(s, 1, Len(s) - 1)) ELSE s

\* the requirement objects the BasicChecker keeps, in list order
NIsect(p) == Cardinality({j \in 1..NRq(p) : ReqsTab[p][j].k = "I"})
BasicTargets(p) == {j \in 1..NRq(p) : ~ReqsTab[p][j].opt \/ (ReqsTab[p][j].k = "B" /\ NIsect(p) >= 3)}

PermBound == 5      \* all permutations up to this many active requirements, a family of rotations beyond
Orders(S) ==
  LET s == SetToSortSeq(S, <) n == Len(s) IN
  IF n <= PermBound THEN {[j \in 1..n |-> s[f[j]]] : f \in Permutations(1..n)}
  ELSE {[j \in 1..n |-> s[((j + k - 1) % n) + 1]] : k \in 0..(n - 1)}
       \cup {[j \in 1..n |-> s[((n - j + k) % n) + 1]] : k \in 0..(n - 1)}

Begin(o) == /\ order' = o /\ i' = 1
            /\ IF o = <<>> THEN phase' = "done" /\ verdict' = "accept"
               ELSE phase' = "eval" /\ verdict' = verdict
            /\ UNCHANGED <<pid, asg, act, mode, tr, okv, evald, fals, stats>>

Sort ==
  /\ phase = "sort" /\ mode = "weighted"
  /\ \E o \in Orders(Active(pid, act)) : Begin(DropTrailingOptional(pid, o))
SortBasic ==
  /\ phase = "sort" /\ mode = "basic"
  /\ Begin(SetToSortSeq(BasicTargets(pid) \cap Active(pid, act), <))

\* falsified?  determined by the oracle, free on touching / not clear-cut configurations
ResSet(j) == IF tr[j] = "free" THEN BOOLEAN ELSE {tr[j] = "F"}
Eval ==
  /\ phase = "eval" /\ i <= Len(order)
  /\ \E res \in ResSet(order[i]) : fals' = res
  /\ evald' = evald \cup {order[i]}
  /\ phase' = "stats"
  /\ UNCHANGED <<pid, asg, act, mode, tr, okv, order, i, verdict, stats>>

UpdateStats ==
  /\ phase = "stats"
  /\ stats' = [stats EXCEPT ![order[i]] = @ + 1]
  /\ IF fals THEN verdict' = "reject" /\ phase' = "done" /\ i' = i
     ELSE IF i = Len(order) THEN verdict' = "accept" /\ phase' = "done" /\ i' = i
     ELSE verdict' = verdict /\ phase' = "eval" /\ i' = i + 1
  /\ UNCHANGED <<pid, asg, act, mode, tr, okv, order, evald, fals>>

CDone == phase = "done" /\ UNCHANGED cvars

\* (one named disjunct per action so that TLC's coverage reports each of them)
AJudge == Judge /\ UNCHANGED ovars
ASort == Sort /\ UNCHANGED ovars
ASortBasic == SortBasic /\ UNCHANGED ovars
AEval == Eval /\ UNCHANGED ovars
AUpdateStats == UpdateStats /\ UNCHANGED ovars
ADone == CDone /\ UNCHANGED ovars
CNext == AJudge \/ ASort \/ ASortBasic \/ AEval \/ AUpdateStats \/ ADone
CSpec == CInit /\ [][CNext]_<<cvars, ovars>>

\* ------------------------------------------------------------------ what TLC checks
Judged == phase # "judge"
ActiveNow == Active(pid, act)
Mandatory == {j \in ActiveNow : ~ReqsTab[pid][j].opt}

CTypeOK == /\ phase \in {"judge", "sort", "eval", "stats", "done"}
           /\ verdict \in {"none", "accept", "reject"}
           /\ evald \subseteq ActiveNow

\* accepted => every non-optional active requirement holds (or is a don't-care), hence the scene
\* is valid object by object -- whatever was or was not evaluated
AcceptSound ==
  (phase = "done" /\ verdict = "accept") =>
     /\ \A j \in Mandatory : tr[j] \in {"T", "free"}
     /\ okv \in {"T", "free"}
\* only optional requirements may be left unevaluated in an accepted sample
OnlyOptionalSkipped ==
  (phase = "done" /\ verdict = "accept") => \A j \in ActiveNow \ evald : ReqsTab[pid][j].opt
\* rejected => some evaluated requirement is falsified (or free); a valid scene is never rejected
RejectSound ==
  (phase = "done" /\ verdict = "reject") =>
     /\ \E j \in evald : tr[j] \in {"F", "free"}
     /\ okv \in {"F", "free"}
\* the verdict is a function of the assignment and the active set, whatever Sort chose
NoFree == \A j \in ActiveNow : tr[j] # "free"
MustVerdict == IF \A j \in Mandatory : tr[j] = "T" THEN "accept" ELSE "reject"
OrderIrrelevant == (phase = "done" /\ NoFree) => verdict = MustVerdict
\* an optional requirement can only fail on a sample that a mandatory one rejects as well
OptionalConsistent ==
  Judged => \A j \in ActiveNow : (ReqsTab[pid][j].opt /\ tr[j] = "F") => \E m \in Mandatory : tr[m] \in {"F", "free"}
\* the requirement list agrees with the object-by-object reading of the reference
ListMatchesReference ==
  (Judged /\ NoFree) => ((\A j \in Mandatory : tr[j] = "T") <=> (okv = "T"))
\* statistics are updated exactly for the evaluated requirements, once each
StatsExact == (phase = "done") => \A j \in 1..NRq(pid) : stats[j] = IF j \in evald THEN 1 ELSE 0
\* evaluation follows the chosen order and stops at the first falsified requirement
InOrder == (phase \in {"eval", "stats", "done"} /\ order # <<>>) =>
              evald \subseteq {order[j] : j \in 1..i}

ReqKey(r) == <<r.k, r.a, r.b>>
EmitJudged ==
  (phase = "sort" /\ mode = "weighted") =>
     PrintT(ToJson([pid |-> pid, asg |-> asg, act |-> SetToSortSeq(act, <),
                    keys |-> [j \in 1..NRq(pid) |-> ReqKey(ReqsTab[pid][j])],
                    opt |-> [j \in 1..NRq(pid) |-> ReqsTab[pid][j].opt],
                    active |-> SetToSortSeq(ActiveNow, <),
                    tr |-> tr,
                    asimpl |-> [j \in 1..NRq(pid) |-> TruthAsImplemented3(pid, asg, j)],
                    trig |-> [j \in 1..NRq(pid) |-> OccluderTrigger(pid, j)],
                    basic |-> SetToSortSeq(BasicTargets(pid) \cap ActiveNow, <),
                    vcrash |-> ValidateCrashTrigger(pid),
                    ok |-> okv,
                    must |-> IF NoFree THEN MustVerdict ELSE "free"]))
=============================================================================
