---------------------------- MODULE CheckerTrace ----------------------------
(* Trace validation for C02 (code -> spec): the Eval events logged from the real          *)
(* requirement checker (falsifiedBy wrapped on every requirement instance) are replayed   *)
(* through Checker's own actions.  A trace                                                *)
(*    [pid, asg, act, mode, log = <<<<requirement index, falsified 0/1>>, ...>>, verdict] *)
(* is accepted iff                                                                        *)
(*   - the evaluated requirements are active, pairwise different, and form a prefix of    *)
(*     an admissible order (Sort allows ANY permutation, so the order is taken to be the  *)
(*     logged sequence followed by the remaining requirements; DropTrailingOptional then  *)
(*     applies as in the specification; BasicChecker: the fixed list order),              *)
(*   - every logged result is one Eval allows (the oracle's truth, free when touching),   *)
(*   - evaluation stops at the first falsified requirement and the verdict follows.       *)
(* The accepted trace ids are printed; every invariant of Checker is evaluated on every   *)
(* state of every trace.  Unlogged: the order beyond the logged prefix.                   *)
EXTENDS Checker

Traces == Data.traces
VARIABLES tid, l
tvars == <<tid, l>>

T == Traces[tid]
Logged == [n \in 1..Len(T.log) |-> T.log[n][1]]
Distinct(s) == \A m, n \in 1..Len(s) : m # n => s[m] # s[n]

TInit ==
  /\ OvIdle
  /\ tid \in 1..Len(Traces) /\ l = 1
  /\ pid = Traces[tid].pid /\ asg = Traces[tid].asg /\ act = Range(Traces[tid].act) /\ mode = Traces[tid].mode
  /\ phase = "judge" /\ tr = <<>> /\ okv = "-" /\ order = <<>> /\ i = 0 /\ evald = {} /\ fals = FALSE
  /\ verdict = "none" /\ stats = <<>>

TJudge == Judge /\ UNCHANGED tvars
TSort ==
  /\ phase = "sort" /\ mode = "weighted"
  /\ Range(Logged) \subseteq Active(pid, act) /\ Distinct(Logged)
  /\ LET rest == SetToSortSeq(Active(pid, act) \ Range(Logged), <)
     IN Begin(DropTrailingOptional(pid, Logged \o rest))
  /\ UNCHANGED tvars
TSortBasic == SortBasic /\ UNCHANGED tvars
TEval ==
  /\ l <= Len(T.log)
  /\ phase = "eval" /\ i <= Len(order) /\ order[i] = T.log[l][1]
  /\ Eval
  /\ fals' = (T.log[l][2] = 1)
  /\ l' = l + 1 /\ UNCHANGED tid
TUpdateStats == UpdateStats /\ UNCHANGED tvars
TDone == phase = "done" /\ UNCHANGED <<cvars, tvars>>

TNext == (TJudge \/ TSort \/ TSortBasic \/ TEval \/ TUpdateStats \/ TDone) /\ UNCHANGED ovars
TSpec == TInit /\ [][TNext]_<<cvars, tvars, ovars>>

TraceAccepted == phase = "done" /\ l = Len(T.log) + 1 /\ verdict = T.verdict
EmitAccepted == TraceAccepted => PrintT(ToJson([accepted |-> tid]))
=============================================================================
