------------------------------- MODULE Codec -------------------------------
(* C18, scene half: the binary encoding of a scene and its decoding.              *)
(*                                                                              *)
(* Meaning (docs/api.rst "Storing Scenes/Simulations for Later Use", the          *)
(* docstrings of Serializer, Scenario.sceneToBytes / sceneFromBytes):             *)
(*   * an encoded scene stores only the sampled values of the primitive random    *)
(*     variables that are actually used; everything else is recomputed from the   *)
(*     scenario;  decoding with the same scenario gives back the same scene;       *)
(*   * sceneFromBytes raises SerializationError "if the scene could not be         *)
(*     properly decoded", in particular for data of another scenario / other      *)
(*     compile options; truncated data is not a scene; nothing else may escape.   *)
(* Grain (from the code): Serializer.writeScene / writeSamplable with the `seen`  *)
(* set, Samplable.serializeValue (deterministic nodes recurse into their          *)
(* dependencies), Distribution.serializeValue (primitive nodes emit one value),   *)
(* MultiplexerDistribution.serializeValue (index, then ONLY the selected option), *)
(* and the mirror-image read methods; the integer field layout of writeInt.       *)
(*                                                                              *)
(* Program format = Sampler.tla's (nodes in creation order, roots =              *)
(* Scenario.dependencies, outs = params / object properties) with two changes:    *)
(*   * every integer VALUE is a 9-byte little-endian two's complement sequence    *)
(*     (so 252/253, +-2^15, +-2^31, 2^39, 2^63 are exact although TLC integers    *)
(*     are 32 bit);  const nodes carry c = that sequence;                         *)
(*   * kind "tleaf": a primitive of another value type with a fixed-width codec   *)
(*     (float: 8 bytes, Vector: 24): c = <<width>>, toks = its finite scripted     *)
(*     support, each value an opaque byte string of that width.                   *)
(* (tab = 1: EmitRow also prints the complete fault tables of both readers.)      *)
(* Each program also carries hdr = the 10 header bytes of its own encodings       *)
(* (version, astHash, optionsHash: opaque tokens).  A reader that is a different  *)
(* program, or the same program compiled with different options, has by           *)
(* assumption (collision-free hashes) a different token.                          *)
(*                                                                              *)
(* Two readers are specified side by side:                                        *)
(*   strict  -- the ideal one: every field must be complete, an option index      *)
(*              must be in range;                                                *)
(*   lenient -- the AS-IMPLEMENTED deviation (readInt accepts short reads;        *)
(*              an out-of-range index escapes as IndexError, a negative one        *)
(*              wraps around): it is only used to recognise known findings, and   *)
(*              DeviationExplained states when the two may differ.                 *)
EXTENDS Integers, Sequences, FiniteSets, TLC, Json, IOUtils, Functions, SequencesExt, FiniteSetsExt

Progs == JsonDeserialize(IOEnv.PROGS)
NP == Len(Progs)

VARIABLES pid, ai, phase, data, fault, reader, res
vars == <<pid, ai, phase, data, fault, reader, res>>

NN(q) == Len(Progs[q].nodes)
Node(q, n) == Progs[q].nodes[n]
Kind(q, n) == Progs[q].nodes[n].k
Args(q, n) == Progs[q].nodes[n].a
IsConst(q, n) == Kind(q, n) = "const"
Primitive(q, n) == Kind(q, n) \in {"drange", "wsel", "tleaf"}
IsInt(q, n) == Kind(q, n) # "tleaf"
Deps(q, n) == SelectSeq(Args(q, n), LAMBDA m : ~IsConst(q, m))

\* ------------------------------------------------------------------ 9-byte integers
B9 == 1..9
Zero9 == [i \in B9 |-> 0]
One9 == [i \in B9 |-> IF i = 1 THEN 1 ELSE 0]
IsNeg(b) == b[9] >= 128
ExtByte(b) == IF IsNeg(b) THEN 255 ELSE 0
RECURSIVE AddC(_, _, _, _)
AddC(a, b, i, c) == IF i > 9 THEN <<>>
                    ELSE LET s == a[i] + b[i] + c IN <<s % 256>> \o AddC(a, b, i + 1, s \div 256)
AddB(a, b) == AddC(a, b, 1, 0)
NotB(a) == [i \in B9 |-> 255 - a[i]]
NegB(a) == AddB(NotB(a), One9)
SubB(a, b) == AddB(a, NegB(b))
LtB(a, b) == IsNeg(SubB(a, b))            \* no overflow for |a|, |b| < 2^70

\* b is representable as an n-byte signed integer
Fits(b, n) == n >= 9 \/ ((\A i \in (n + 1)..9 : b[i] = ExtByte(b)) /\ ((b[n] >= 128) <=> IsNeg(b)))
MinLen(b) == Min({n \in B9 : Fits(b, n)})
IsNegPow(b, n) == /\ \A i \in 1..(n - 1) : b[i] = 0
                  /\ b[n] = 128
                  /\ \A i \in (n + 1)..9 : b[i] = 255
\* Python: max(1, ceil((bit_length(v) + 1) / 8)): one byte more than necessary at -2^(8n-1)
PyLen(b) == LET m == MinLen(b) IN IF m <= 8 /\ IsNegPow(b, m) THEN m + 1 ELSE m

\* 32-bit window (for option indices, range sizes and products of small values)
ToInt(b) == LET u == b[1] + 256 * b[2] + 65536 * b[3] + 16777216 * (b[4] % 128)
            IN IF b[4] >= 128 THEN (u - 1073741824) - 1073741824 ELSE u
FromNat(i) == [j \in B9 |-> CASE j = 1 -> i % 256
                             [] j = 2 -> (i \div 256) % 256
                             [] j = 3 -> (i \div 65536) % 256
                             [] j = 4 -> (i \div 16777216) % 256
                             [] OTHER -> 0]
FromInt(i) == IF i >= 0 THEN FromNat(i) ELSE NegB(FromNat(-i))

\* sign extension of a little-endian payload to 9 bytes (low 9 bytes if longer)
SignExt9(p) == LET L == Len(p)
                   e == IF L > 0 /\ p[L] >= 128 THEN 255 ELSE 0
               IN [i \in B9 |-> IF i <= L THEN p[i] ELSE e]
ExactExt(p) == LET L == Len(p)
                   e == IF L > 0 /\ p[L] >= 128 THEN 255 ELSE 0
               IN L <= 9 \/ ((\A i \in 10..L : p[i] = e) /\ ((p[9] >= 128) <=> (e = 255)))

\* ------------------------------------------------------------------ the integer field
Small(b) == b[1] <= 252 /\ \A i \in 2..9 : b[i] = 0
EncInt(b) ==
  IF Small(b) THEN <<b[1]>>
  ELSE IF Fits(b, 2) THEN <<253, b[1], b[2]>>
  ELSE IF Fits(b, 4) THEN <<254, b[1], b[2], b[3], b[4]>>
  ELSE LET L == PyLen(b) IN <<255, L>> \o [i \in 1..L |-> IF i <= 9 THEN b[i] ELSE ExtByte(b)]

BadField == [err |-> TRUE, val |-> Zero9, rest |-> <<>>, short |-> FALSE, exact |-> TRUE]
Payload(r, L, strict) ==
  LET have == IF Len(r) < L THEN Len(r) ELSE L
      p == SubSeq(r, 1, have)
  IN IF have < L /\ strict THEN BadField
     ELSE [err |-> FALSE, val |-> SignExt9(p), rest |-> SubSeq(r, have + 1, Len(r)),
           short |-> have < L, exact |-> ExactExt(p)]
\* strict: the ideal reader;  ~strict: readInt as implemented (short payloads accepted)
DecInt(s, strict) ==
  IF s = <<>> THEN BadField
  ELSE LET f == s[1] r == Tail(s) IN
       IF f <= 252 THEN [err |-> FALSE, val |-> FromNat(f), rest |-> r, short |-> FALSE, exact |-> TRUE]
       ELSE IF f = 253 THEN Payload(r, 2, strict)
       ELSE IF f = 254 THEN Payload(r, 4, strict)
       ELSE IF r = <<>> THEN BadField
       ELSE Payload(Tail(r), r[1], strict)

EncVal(q, n, v) == IF IsInt(q, n) THEN EncInt(v) ELSE v
DecVal(q, n, s, strict) ==
  IF IsInt(q, n) THEN DecInt(s, strict)
  ELSE LET w == Node(q, n).c[1] IN       \* struct.unpack refuses a short buffer
       IF Len(s) < w THEN BadField
       ELSE [err |-> FALSE, val |-> SubSeq(s, 1, w), rest |-> SubSeq(s, w + 1, Len(s)),
             short |-> FALSE, exact |-> TRUE]

\* ------------------------------------------------------------------ values of a sample
ConstValT == [q \in 1..NP |-> [n \in 1..NN(q) |-> IF IsConst(q, n) THEN Node(q, n).c ELSE Zero9]]

MulOK(x, y) == Fits(x, 2) /\ Fits(y, 2)

\* ---- IEEE doubles as 8-byte little-endian tokens: just enough to decide the DOMAIN of the
\* lifted functions below (sign, NaN, infinity, zero, order of magnitudes)
FNeg(r) == r[8] >= 128
FExp(r) == (r[8] % 128) * 16 + (r[7] \div 16)
FMantZero(r) == r[7] % 16 = 0 /\ \A i \in 1..6 : r[i] = 0
FNaN(r) == FExp(r) = 2047 /\ ~FMantZero(r)
FInf(r) == FExp(r) = 2047 /\ FMantZero(r)
FZero(r) == FExp(r) = 0 /\ FMantZero(r)
FMag(r) == <<r[8] % 128, r[7], r[6], r[5], r[4], r[3], r[2], r[1]>>     \* big-endian magnitude
RECURSIVE SeqLt(_, _, _)
SeqLt(x, y, i) == IF i > Len(x) THEN FALSE
                  ELSE IF x[i] # y[i] THEN x[i] < y[i] ELSE SeqLt(x, y, i + 1)
MagLt(r, s) == SeqLt(FMag(r), FMag(s), 1)     \* |r| < |s| for non-NaN doubles

\* Python integer floor division / modulo on the 32-bit window (both operands fit 3 bytes)
DivOK(x, d) == Fits(x, 3) /\ Fits(d, 3)
PyFloorDiv(x, d) == IF d > 0 THEN x \div d ELSE (-x) \div (-d)
PyMod(x, d) == x - PyFloorDiv(x, d) * d

\* DOMAIN of a deterministic node: outside it Python raises (ZeroDivisionError, OverflowError,
\* ValueError "math domain error", IndexError, ...) when the value is recomputed from decoded
\* dependency values -- which sceneFromBytes must turn into SerializationError.
\*   tdiv  a = <<x, d>>   x / d          (true division: the result is kept as a term)
\*   floordiv, mod  a = <<x, d>>         x // d, x % d
\*   pow10 a = <<r>> thr = smallest double whose power of ten overflows     10 ** r
\*   sqrt, log, acos a = <<r>> (thr = 1.0 for acos)                        math.sqrt(r) ...
\*   index a = <<i>> c = the list (Python indexing: -n..n-1)                LST[i]
\*   chr   a = <<n>>                                                       ord(chr(n))
DomOK(q, n, v) ==
  LET a == Args(q, n) kd == Kind(q, n) IN
  CASE kd \in {"tdiv", "floordiv", "mod"} -> v[a[2]] # Zero9
    [] kd = "pow10" -> LET r == v[a[1]] IN FNaN(r) \/ FNeg(r) \/ FInf(r) \/ MagLt(r, Node(q, n).thr)
    [] kd = "sqrt" -> LET r == v[a[1]] IN FNaN(r) \/ ~FNeg(r) \/ FZero(r)
    [] kd = "log" -> LET r == v[a[1]] IN FNaN(r) \/ (~FNeg(r) /\ ~FZero(r))
    [] kd = "acos" -> LET r == v[a[1]] IN FNaN(r) \/ ~MagLt(Node(q, n).thr, r)
    [] kd = "index" -> LET i == v[a[1]] no == Len(Node(q, n).c) IN
                       Fits(i, 4) /\ ToInt(i) >= -no /\ ToInt(i) < no
    [] kd = "chr" -> LET i == v[a[1]] IN Fits(i, 4) /\ ToInt(i) >= 0 /\ ToInt(i) <= 1114111
    [] OTHER -> TRUE
Det(q, n, v) ==
  LET a == Args(q, n) kd == Kind(q, n) IN
  CASE kd = "mux" -> v[a[ToInt(v[a[1]]) + 2]]
    [] kd = "tdiv" -> <<0 - 1>> \o v[a[1]] \o v[a[2]]           \* a term: equal operands, equal result
    [] kd \in {"pow10", "sqrt", "log", "acos"} -> <<0 - 2>> \o v[a[1]]
    [] kd = "floordiv" -> IF DivOK(v[a[1]], v[a[2]]) /\ v[a[2]] # Zero9
                          THEN FromInt(PyFloorDiv(ToInt(v[a[1]]), ToInt(v[a[2]]))) ELSE Zero9
    [] kd = "mod" -> IF DivOK(v[a[1]], v[a[2]]) /\ v[a[2]] # Zero9
                     THEN FromInt(PyMod(ToInt(v[a[1]]), ToInt(v[a[2]]))) ELSE Zero9
    [] kd = "index" -> IF DomOK(q, n, v)
                       THEN LET no == Len(Node(q, n).c) i == ToInt(v[a[1]]) IN
                            FromInt(Node(q, n).c[(IF i < 0 THEN i + no ELSE i) + 1])
                       ELSE Zero9
    [] kd = "chr" -> v[a[1]]
    [] kd = "add" -> AddB(v[a[1]], v[a[2]])
    [] kd = "sub" -> SubB(v[a[1]], v[a[2]])
    [] kd = "mul" -> IF MulOK(v[a[1]], v[a[2]]) THEN FromInt(ToInt(v[a[1]]) * ToInt(v[a[2]])) ELSE Zero9
    [] kd = "min" -> IF LtB(v[a[2]], v[a[1]]) THEN v[a[2]] ELSE v[a[1]]
    [] kd = "max" -> IF LtB(v[a[1]], v[a[2]]) THEN v[a[2]] ELSE v[a[1]]
    [] kd = "neg" -> NegB(v[a[1]])
    [] kd = "abs" -> IF IsNeg(v[a[1]]) THEN NegB(v[a[1]]) ELSE v[a[1]]
    [] kd = "ite" -> IF v[a[1]] # Zero9 THEN v[a[2]] ELSE v[a[3]]
DetExact(q, n, v) == CASE Kind(q, n) = "mul" -> MulOK(v[Args(q, n)[1]], v[Args(q, n)[2]])
                       [] Kind(q, n) \in {"floordiv", "mod"} -> DivOK(v[Args(q, n)[1]], v[Args(q, n)[2]])
                       [] OTHER -> TRUE

Support(q, n, v) ==
  CASE Kind(q, n) = "drange" ->
         LET lo == v[Args(q, n)[1]] d == SubB(v[Args(q, n)[2]], lo) IN
         IF IsNeg(d) \/ ~Fits(d, 2) THEN {} ELSE {AddB(lo, FromNat(i)) : i \in 0..ToInt(d)}
    [] Kind(q, n) = "wsel" -> {FromNat(i) : i \in 0..(Len(Node(q, n).c) - 1)}
    [] OTHER -> {Node(q, n).toks[i] : i \in 1..Len(Node(q, n).toks)}

\* Samplable.sampleAll: depth first over the dependencies (a multiplexer samples ALL options)
RECURSIVE Visit(_, _, _), VisitAll(_, _, _)
Visit(q, seq, n) == IF IsConst(q, n) \/ \E i \in 1..Len(seq) : seq[i] = n THEN seq
                    ELSE Append(VisitAll(q, seq, Deps(q, n)), n)
VisitAll(q, seq, ns) == IF ns = <<>> THEN seq ELSE VisitAll(q, Visit(q, seq, Head(ns)), Tail(ns))
OrderT == [q \in 1..NP |-> VisitAll(q, <<>>, Progs[q].roots)]
SampledT == [q \in 1..NP |-> {OrderT[q][i] : i \in 1..Len(OrderT[q])}]
PrimSeqT == [q \in 1..NP |-> SetToSortSeq({n \in SampledT[q] : Primitive(q, n)}, <)]

RECURSIVE EvalAll(_, _, _)
EvalAll(q, m, asg) ==
  IF m = 0 THEN ConstValT[q]
  ELSE LET v == EvalAll(q, m - 1, asg) IN
       IF IsConst(q, m) THEN v
       ELSE IF Primitive(q, m) THEN (IF m \in DOMAIN asg THEN [v EXCEPT ![m] = asg[m]] ELSE v)
       ELSE IF m \in SampledT[q] THEN [v EXCEPT ![m] = Det(q, m, v)] ELSE v

\* every consistent assignment of the sampled primitive nodes (= every possible sample)
RECURSIVE Asgs(_, _)
Asgs(q, i) == IF i = 0 THEN {<<>>}
              ELSE LET n == PrimSeqT[q][i] IN
                   UNION {{a @@ (n :> x) : x \in Support(q, n, EvalAll(q, n - 1, a))} : a \in Asgs(q, i - 1)}
RowsT == [q \in 1..NP |-> SetToSeq(Asgs(q, Len(PrimSeqT[q])))]
NRows(q) == Len(RowsT[q])
ValT == [q \in 1..NP |-> [r \in 1..NRows(q) |-> EvalAll(q, NN(q), RowsT[q][r])]]
\* generator sanity: products only of values that fit 16 bits (32-bit TLC arithmetic), and the
\* program itself never leaves the domain of its operations on a sample (SupportClosed)
WellFormedT == [q \in 1..NP |-> [r \in 1..NRows(q) |->
                  \A n \in SampledT[q] : Primitive(q, n) \/ (DetExact(q, n, ValT[q][r]) /\ DomOK(q, n, ValT[q][r]))]]

\* ------------------------------------------------------------------ Write
\* st = [seen : set of nodes, out : bytes, fields : sequence of <<node, bytes>>]
WInit == [seen |-> {}, out |-> <<>>, fields |-> <<>>]
RECURSIVE WS(_, _, _, _), WSeq(_, _, _, _)
\* Serializer.writeSamplable + serializeValue
WS(q, v, st, n) ==
  IF IsConst(q, n) \/ n \in st.seen THEN st                 \* not random / already written
  ELSE LET s1 == [st EXCEPT !.seen = @ \cup {n}] IN
       IF Kind(q, n) = "mux"                                \* index, then ONLY the selected option
       THEN LET a == Args(q, n) IN WS(q, v, WS(q, v, s1, a[1]), a[ToInt(v[a[1]]) + 2])
       ELSE IF Primitive(q, n)                              \* one value, no dependencies
       THEN LET f == EncVal(q, n, v[n]) IN
            [s1 EXCEPT !.out = @ \o f, !.fields = Append(@, <<n, f>>)]
       ELSE WSeq(q, v, s1, Deps(q, n))                      \* deterministic: the dependencies
WSeq(q, v, st, ns) == IF ns = <<>> THEN st ELSE WSeq(q, v, WS(q, v, st, Head(ns)), Tail(ns))

WriteT == [q \in 1..NP |-> [r \in 1..NRows(q) |-> WSeq(q, ValT[q][r], WInit, Progs[q].roots)]]
Hdr(q) == Progs[q].hdr

\* ------------------------------------------------------------------ Read
\* st = [vals : node -> value (the nodes read so far), order : nodes in the order their fields
\*       were read, rest : bytes, err : "ok" | "SerializationError" | "IndexError",
\*       short / idx : the lenient reader took a short read / a wrapped or failing index,
\*       exact : every value is exactly representable in 9 bytes]
\*       dom : a deterministic node was asked for a value outside its domain]
RInit(s) == [vals |-> <<>>, order |-> <<>>, rest |-> s, err |-> "ok", short |-> FALSE, idx |-> FALSE, exact |-> TRUE,
             dom |-> FALSE]
ValOf(q, st, n) == IF IsConst(q, n) THEN ConstValT[q][n] ELSE st.vals[n]
FullVals(q, st) == [m \in 1..NN(q) |-> IF m \in DOMAIN st.vals THEN st.vals[m] ELSE ConstValT[q][m]]

RECURSIVE RS(_, _, _, _), RSeq(_, _, _, _)
\* Serializer.readSamplable + deserializeValue
RS(q, st, n, strict) ==
  IF st.err # "ok" \/ IsConst(q, n) \/ n \in DOMAIN st.vals THEN st
  ELSE IF Kind(q, n) = "mux" THEN
         LET a == Args(q, n)
             s1 == RS(q, st, a[1], strict)
         IN IF s1.err # "ok" THEN s1
            ELSE LET iv == ValOf(q, s1, a[1])
                     no == Len(a) - 1
                     i == IF Fits(iv, 4) THEN ToInt(iv) ELSE no
                     j == IF i >= 0 /\ i < no THEN i
                          ELSE IF ~strict /\ i < 0 /\ i >= -no THEN no + i   \* Python negative index
                          ELSE -1
                 IN IF j = -1
                    THEN [s1 EXCEPT !.err = IF strict THEN "SerializationError" ELSE "IndexError", !.idx = TRUE]
                    ELSE LET s2 == RS(q, [s1 EXCEPT !.idx = @ \/ (i # j)], a[j + 2], strict)
                         IN IF s2.err # "ok" THEN s2
                            ELSE [s2 EXCEPT !.vals = @ @@ (n :> ValOf(q, s2, a[j + 2]))]
  ELSE IF Primitive(q, n) THEN
         LET d == DecVal(q, n, st.rest, strict) IN
         IF d.err THEN [st EXCEPT !.err = "SerializationError"]
         ELSE [st EXCEPT !.vals = @ @@ (n :> d.val), !.order = Append(@, n), !.rest = d.rest,
                         !.short = @ \/ d.short, !.exact = @ /\ d.exact]
  ELSE LET s1 == RSeq(q, st, Deps(q, n), strict) IN
       IF s1.err # "ok" THEN s1
       ELSE LET fv == FullVals(q, s1) IN
            IF ~DomOK(q, n, fv)     \* the recomputation raises: not a scene, hence refused
            THEN [s1 EXCEPT !.err = "SerializationError", !.dom = TRUE]
            ELSE [s1 EXCEPT !.vals = @ @@ (n :> Det(q, n, fv)), !.exact = @ /\ DetExact(q, n, fv)]
RSeq(q, st, ns, strict) == IF ns = <<>> THEN st ELSE RSeq(q, RS(q, st, Head(ns), strict), Tail(ns), strict)

Refused(s) == [RInit(s) EXCEPT !.err = "SerializationError"]
\* SubSeq clipped to the sequence (stream.read returns what is there)
Cut(s, i, j) == IF i > Len(s) THEN <<>> ELSE SubSeq(s, i, IF j > Len(s) THEN Len(s) ELSE j)
\* Serializer.readScene by reader rd ("self", or a scenario with another AST / options hash)
ReadScene(q, d, rd, strict) ==
  IF Len(d) < 2 \/ Cut(d, 1, 2) # SubSeq(Hdr(q), 1, 2) THEN Refused(d)          \* format version
  ELSE IF rd = "program" \/ Cut(d, 3, 6) # SubSeq(Hdr(q), 3, 6) THEN Refused(d)   \* astHash
  ELSE IF rd = "options" \/ Cut(d, 7, 10) # SubSeq(Hdr(q), 7, 10) THEN Refused(d) \* optionsHash
  ELSE RSeq(q, RInit(Cut(d, 11, Len(d))), Progs[q].roots, strict)

Outs(q, st) == [i \in 1..Len(Progs[q].outs) |-> ValOf(q, st, Progs[q].outs[i])]
Summary(q, st) == [err |-> st.err, rest |-> Len(st.rest), short |-> st.short, idx |-> st.idx,
                   exact |-> st.exact, outs |-> IF st.err = "ok" THEN Outs(q, st) ELSE <<>>]

\* ------------------------------------------------------------------ the machine
NoFault == [kind |-> "none", k |-> 0, b |-> 0]
NoRes == [strict |-> RInit(<<>>), lenient |-> RInit(<<>>)]
Init == /\ pid \in 1..NP /\ ai \in 1..NRows(pid)
        /\ phase = "sampled" /\ data = <<>> /\ fault = NoFault /\ reader = "self" /\ res = NoRes

WriteScene == /\ phase = "sampled"
              /\ data' = Hdr(pid) \o WriteT[pid][ai].out
              /\ phase' = "written"
              /\ UNCHANGED <<pid, ai, fault, reader, res>>

Pass == /\ phase = "written" /\ phase' = "faulted"
        /\ UNCHANGED <<pid, ai, data, fault, reader, res>>

\* (the header is the same for all samples of a program and a damaged header is refused
\* whatever follows it: header faults are explored on the first sample only)
Truncate(k) == /\ phase = "written" /\ k \in 0..(Len(data) - 1) /\ (k >= 10 \/ ai = 1)
               /\ data' = SubSeq(data, 1, k) /\ fault' = [kind |-> "trunc", k |-> k, b |-> 0]
               /\ phase' = "faulted"
               /\ UNCHANGED <<pid, ai, reader, res>>

\* representative single-byte changes: 0x00, 0xFF, +-1 and the tag bytes 253, 254 (255);
\* the header is a triple of opaque tokens, so two changes per header byte represent them all
\* (the harness still applies the full set to the real header bytes)
\* (FLIPS = "wide", thorough tier: also 252, the sign bit, 1, 127, 128)
FlipVals(x) == ({0, 255, (x + 1) % 256, (x + 255) % 256, 253, 254}
                \cup (IF IOEnv.FLIPS = "wide" THEN {252, (x + 128) % 256, 1, 127, 128} ELSE {})) \ {x}
\* (likewise the payload of a float / Vector field is opaque to this specification)
RECURSIVE OpaquePos(_, _, _, _)
OpaquePos(q, fs, i, off) ==
  IF i > Len(fs) THEN {}
  ELSE LET L == Len(fs[i][2]) IN
       (IF IsInt(q, fs[i][1]) THEN {} ELSE (off + 1)..(off + L)) \cup OpaquePos(q, fs, i + 1, off + L)
OpaqueT == [q \in 1..NP |-> [r \in 1..NRows(q) |-> OpaquePos(q, WriteT[q][r].fields, 1, 10)]]
\* programs with sweep = 1 (restricted-domain operations): on their first sample EVERY value of
\* every byte of an integer field and of the top byte (sign, exponent) of a float field (the
\* harness sweeps the real code over both exponent bytes; thorough: over every body byte)
RECURSIVE SweepPos(_, _, _, _)
SweepPos(q, fs, i, off) ==
  IF i > Len(fs) THEN {}
  ELSE LET L == Len(fs[i][2]) IN
       (IF IsInt(q, fs[i][1]) THEN (off + 1)..(off + L) ELSE IF L = 8 THEN {off + 8} ELSE {})
          \cup SweepPos(q, fs, i + 1, off + L)
SweepT == [q \in 1..NP |-> IF Progs[q].sweep = 1 THEN SweepPos(q, WriteT[q][1].fields, 1, 10) ELSE {}]
ModelFlips(k, x) == IF k <= 10 THEN {(x + 1) % 256, (x + 128) % 256}
                    ELSE IF ai = 1 /\ k \in SweepT[pid] THEN (0..255) \ {x}
                    ELSE IF k \in OpaqueT[pid][ai] THEN {(x + 1) % 256, (x + 128) % 256}
                    ELSE FlipVals(x)
Flip(k, b) == /\ phase = "written" /\ k \in 1..Len(data) /\ b \in ModelFlips(k, data[k]) /\ (k > 10 \/ ai = 1)
              /\ data' = [data EXCEPT ![k] = b] /\ fault' = [kind |-> "flip", k |-> k, b |-> b]
              /\ phase' = "faulted"
              /\ UNCHANGED <<pid, ai, reader, res>>

Foreign(r) == /\ phase = "written" /\ r \in {"program", "options"} /\ ai = 1
              /\ reader' = r /\ fault' = [kind |-> "foreign", k |-> 0, b |-> 0]
              /\ phase' = "faulted"
              /\ UNCHANGED <<pid, ai, data, res>>

Read == /\ phase = "faulted"
        /\ res' = [strict |-> ReadScene(pid, data, reader, TRUE), lenient |-> ReadScene(pid, data, reader, FALSE)]
        /\ phase' = "read"
        /\ UNCHANGED <<pid, ai, data, fault, reader>>

TruncateAny == \E k \in 0..(Len(data) - 1) : Truncate(k)
FlipAny == \E k \in 1..Len(data) : \E b \in ModelFlips(k, data[k]) : Flip(k, b)
ForeignAny == \E r \in {"program", "options"} : Foreign(r)
Next == WriteScene \/ Pass \/ Read \/ TruncateAny \/ FlipAny \/ ForeignAny
Spec == Init /\ [][Next]_vars

\* ------------------------------------------------------------------ properties
W == WriteT[pid][ai]
V == ValT[pid][ai]
TypeOK == /\ phase \in {"sampled", "written", "faulted", "read"}
          /\ Len(data) <= 60
          /\ \A i \in 1..Len(data) : data[i] \in 0..255

\* Read o Write restores the value of every node that was written or recomputed, reads the
\* fields in the order they were written, and consumes the stream exactly; every value the
\* scene shows (params, object properties) is among the restored ones.
RoundTrip ==
  (phase = "read" /\ fault.kind = "none") =>
     LET s == res.strict IN
     /\ s.err = "ok" /\ s.rest = <<>>
     /\ DOMAIN s.vals = W.seen
     /\ \A n \in W.seen : s.vals[n] = V[n]
     /\ s.order = [i \in 1..Len(W.fields) |-> W.fields[i][1]]
     /\ \A i \in 1..Len(Progs[pid].outs) : IsConst(pid, Progs[pid].outs[i]) \/ Progs[pid].outs[i] \in W.seen
     /\ Outs(pid, s) = [i \in 1..Len(Progs[pid].outs) |-> V[Progs[pid].outs[i]]]
\* the bytes are the concatenation of the fields; each field decodes to its value on its own
FieldsExact ==
  (phase = "written") =>
     /\ data = Hdr(pid) \o FlattenSeq([i \in 1..Len(W.fields) |-> W.fields[i][2]])
     /\ \A i \in 1..Len(W.fields) :
          LET n == W.fields[i][1] d == DecVal(pid, n, W.fields[i][2], TRUE) IN
          ~d.err /\ d.val = V[n] /\ d.rest = <<>>
\* every proper prefix is refused
TruncationRefused ==
  (phase = "read" /\ fault.kind = "trunc") => res.strict.err = "SerializationError"
\* a changed byte gives a scene or a refusal (the strict reader is total), a changed header byte a refusal
CorruptionContained ==
  (phase = "read" /\ fault.kind = "flip") =>
     /\ res.strict.err \in {"ok", "SerializationError"}
     /\ (fault.k <= 10 => res.strict.err = "SerializationError" /\ res.lenient.err = "SerializationError")
\* ... more precisely every corrupted stream is (1) a scene OF THE PROGRAM: every decoded
\* primitive value lies in its support, (2) a decodable stream with a value outside the support
\* (the documentation does not say whether such data must be refused: either outcome is
\* accepted from the code), or (3) refused; a value outside the domain of an operation that
\* recomputes a deterministic node is always (3): no exception of that operation is a result
InSupport(q, st) ==
  \A n \in DOMAIN st.vals : Primitive(q, n) =>
     ((\A i \in 1..Len(Args(q, n)) : IsConst(q, Args(q, n)[i]) \/ Args(q, n)[i] \in DOMAIN st.vals)
        => st.vals[n] \in Support(q, n, FullVals(q, st)))
Classify(q, st) == IF st.err # "ok" THEN "refused" ELSE IF InSupport(q, st) THEN "scene" ELSE "outside"
DomainErrorsRefused ==
  (phase = "read") =>
     /\ res.strict.dom => res.strict.err = "SerializationError"
     /\ res.lenient.dom => res.lenient.err \in {"SerializationError", "IndexError"}
     /\ (fault.kind = "none") => Classify(pid, res.strict) = "scene"
\* data of another program / other compile options is refused
HeaderGuards ==
  (phase = "read" /\ fault.kind = "foreign") =>
     res.strict.err = "SerializationError" /\ res.lenient.err = "SerializationError"
\* where the as-implemented reader may differ from the ideal one: only after a short read or
\* an option index outside 0..n-1 (the trigger predicates of the known findings)
Same(a, b) == a.err = b.err /\ a.vals = b.vals /\ a.rest = b.rest /\ a.order = b.order
DeviationExplained ==
  (phase = "read") =>
     /\ (~res.lenient.short /\ ~res.lenient.idx) => Same(res.strict, res.lenient)
     /\ res.lenient.err = "IndexError" => res.lenient.idx /\ res.strict.err = "SerializationError"
     /\ (res.lenient.err = "ok" /\ res.strict.err # "ok") => (res.lenient.short \/ res.lenient.idx)
     /\ res.strict.err = "ok" => Same(res.strict, res.lenient)
\* a multiplexer's unselected options are not in the stream
OnlySelected ==
  (phase = "written") =>
     \A n \in W.seen : Kind(pid, n) = "mux" =>
        LET a == Args(pid, n) sel == a[ToInt(V[a[1]]) + 2] IN
        /\ a[1] \in W.seen /\ (IsConst(pid, sel) \/ sel \in W.seen)

\* ------------------------------------------------------------------ output
Code(e) == CASE e = "ok" -> 0 [] e = "SerializationError" -> 1 [] OTHER -> 2
TruncTable(q, d) ==
  [k \in 1..Len(d) |->
     LET p == SubSeq(d, 1, k - 1)
         s == ReadScene(q, p, "self", TRUE)
         l == ReadScene(q, p, "self", FALSE)
     IN [k |-> k - 1, strict |-> Code(s.err), lenient |-> Code(l.err),
         outs |-> IF l.err = "ok" THEN Outs(q, l) ELSE <<>>, exact |-> l.exact]]
\* for a sweep program: the class (0 scene of the program, 1 refused, 3 decodable but outside the
\* support) of every value of every swept byte of the first sample
SweepTable(q, d) ==
  LET ps == SetToSortSeq(SweepT[q], <) IN
  [i \in 1..Len(ps) |->
     <<ps[i] - 1, [b \in 0..255 |->
          IF b = d[ps[i]] THEN 0
          ELSE LET c == Classify(q, ReadScene(q, [d EXCEPT ![ps[i]] = b], "self", TRUE)) IN
               IF c = "scene" THEN 0 ELSE IF c = "refused" THEN 1 ELSE 3]>>]
FlipTable(q, d) ==
  [k \in 1..Len(d) |->
     LET bs == SetToSortSeq(FlipVals(d[k]), <) IN
     [i \in 1..Len(bs) |->
        LET p == [d EXCEPT ![k] = bs[i]]
            s == ReadScene(q, p, "self", TRUE)
            l == ReadScene(q, p, "self", FALSE)
        IN <<bs[i], Code(s.err), Code(l.err)>>]]
\* one line per (program, sample): the sample, the scene values, the expected stream and the
\* expected outcome of every fault
EmitRow ==
  (phase = "written") =>
     PrintT(ToJson([t |-> "row", pid |-> pid, ai |-> ai, wf |-> WellFormedT[pid][ai],
                    asg |-> [i \in 1..Len(PrimSeqT[pid]) |-> <<PrimSeqT[pid][i], RowsT[pid][ai][PrimSeqT[pid][i]]>>],
                    outs |-> [i \in 1..Len(Progs[pid].outs) |-> V[Progs[pid].outs[i]]],
                    body |-> W.out, fields |-> W.fields, seen |-> SetToSortSeq(W.seen, <),
                    trunc |-> IF Progs[pid].tab = 1 THEN TruncTable(pid, data) ELSE <<>>,
                    flips |-> IF Progs[pid].tab = 1 THEN FlipTable(pid, data) ELSE <<>>,
                    sweep |-> IF Progs[pid].sweep = 1 /\ ai = 1 THEN SweepTable(pid, data) ELSE <<>>]))
\* one line per fault on which the as-implemented reader deviates from the ideal one (these
\* are the only places where a listed known finding can explain an observation)
EmitDeviation ==
  (phase = "read" /\ Code(res.lenient.err) # Code(res.strict.err)) =>
     PrintT(ToJson([t |-> "dev", pid |-> pid, ai |-> ai, kind |-> fault.kind, k |-> fault.k, b |-> fault.b,
                    strict |-> Code(res.strict.err), lenient |-> Code(res.lenient.err),
                    short |-> res.lenient.short, idx |-> res.lenient.idx, exact |-> res.lenient.exact,
                    outs |-> IF res.lenient.err = "ok" THEN Outs(pid, res.lenient) ELSE <<>>]))
=============================================================================
