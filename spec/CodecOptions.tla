---------------------------- MODULE CodecOptions ----------------------------
(* C18, header half: which compile options a serialized scene is bound to.         *)
(*                                                                              *)
(* Meaning (docs/api.rst; Scenario.sceneFromBytes: "raise an exception if the     *)
(* scene appears to have been generated from a different scenario"; the property: *)
(* "data from ... different compile options ... are refused with a serialization  *)
(* error"): the compile options of a scenario are a VALUATION                      *)
(*    mode2D flag, model override, selected modular scenario,                      *)
(*    and every (name, value) of the global-parameter overrides                    *)
(* and data encoded under valuation A is decoded under valuation B iff A = B.      *)
(* The options digest stored in the header is therefore (abstractly, hash          *)
(* collisions aside) an INJECTIVE function of the whole valuation: here the        *)
(* canonical form Canon(v) itself.  Parameter names are drawn from a universe      *)
(* that contains the option keys themselves (scenario, mode2D, modelOverride,      *)
(* model, params): an override NAMED like an option is a different component       *)
(* from the option, and never stands in for it.                                    *)
(* Documented limit (deterministicHash docstring): only int / float / str / bool   *)
(* override values are covered; any other value is a placeholder (type "other"),   *)
(* so the digest records only that such an override is present.                    *)
(*                                                                              *)
(* Vals (JSON): sequence of valuations                                            *)
(*   [mode2D |-> 0|1, model |-> "" | name, scenario |-> name,                      *)
(*    params |-> sequence of <<name, type, value as text>>]                        *)
(* TLC explores every ordered pair (A, B): Encode under A, Decode under B.         *)
EXTENDS Integers, Sequences, FiniteSets, TLC, Json, IOUtils

Vals == JsonDeserialize(IOEnv.VALS)
NV == Len(Vals)
OptionKeys == {"scenario", "mode2D", "modelOverride", "model", "params"}

VARIABLES a, b, phase, hdr, outcome
vars == <<a, b, phase, hdr, outcome>>

ParamSet(v) == {v.params[i] : i \in 1..Len(v.params)}
Covered(t) == t \in {"int", "float", "str", "bool"}
\* the canonical valuation: the order of the overrides is irrelevant, an uncovered value is a placeholder
Canon(v) == [mode2D |-> v.mode2D, model |-> v.model, scenario |-> v.scenario,
             params |-> {<<p[1], p[2], IF Covered(p[2]) THEN p[3] ELSE "">> : p \in ParamSet(v)}]
Digest(v) == Canon(v)        \* injective by construction (a real digest: up to hash collisions)

\* AS IMPLEMENTED (deterministicHash): a covered value contributes str(value) only, not its
\* type -- 6 and "6", True and "True" are not told apart (known finding options-value-type)
CanonAsImplemented(v) == [mode2D |-> v.mode2D, model |-> v.model, scenario |-> v.scenario,
             params |-> {<<p[1], IF Covered(p[2]) THEN "" ELSE p[2], IF Covered(p[2]) THEN p[3] ELSE "">> : p \in ParamSet(v)}]
\* a NON-conforming digest kept for contrast: one flat name -> value mapping in which the options
\* proper overwrite an override of the same name
Flat(v) == LET names == {p[1] : p \in ParamSet(v)} \cup {"mode2D", "modelOverride", "scenario"} IN
           [n \in names |->
              IF n = "mode2D" THEN <<"opt", IF v.mode2D = 1 THEN "True" ELSE "False">>
              ELSE IF n = "modelOverride" /\ v.model # "" THEN <<"opt", v.model>>
              ELSE IF n = "scenario" THEN <<"opt", v.scenario>>
              ELSE IF \E p \in ParamSet(v) : p[1] = n
                   THEN LET p == CHOOSE p \in ParamSet(v) : p[1] = n IN <<"par", p[3]>>
                   ELSE <<"none", "">>]

\* the components in which two valuations differ
ParamNames(v) == {p[1] : p \in ParamSet(v)}
ParamOf(v, n) == IF n \in ParamNames(v) THEN (CHOOSE p \in Canon(v).params : p[1] = n) ELSE <<n, "absent", "">>
Diff(x, y) == (IF x.mode2D # y.mode2D THEN {"<mode2D>"} ELSE {})
              \cup (IF x.model # y.model THEN {"<model>"} ELSE {})
              \cup (IF x.scenario # y.scenario THEN {"<scenario>"} ELSE {})
              \cup {n \in ParamNames(x) \cup ParamNames(y) : ParamOf(x, n) # ParamOf(y, n)}

Init == a \in 1..NV /\ b \in 1..NV /\ phase = "start" /\ hdr = <<>> /\ outcome = ""
\* Serializer.writeScene: the header carries the digest of the encoder's options
Encode == /\ phase = "start" /\ hdr' = <<Digest(Vals[a])>> /\ phase' = "encoded"
          /\ UNCHANGED <<a, b, outcome>>
\* Serializer.readScene under the decoder's options
Decode == /\ phase = "encoded"
          /\ outcome' = IF hdr[1] = Digest(Vals[b]) THEN "scene" ELSE "SerializationError"
          /\ phase' = "decoded"
          /\ UNCHANGED <<a, b, hdr>>
Next == Encode \/ Decode
Spec == Init /\ [][Next]_vars

Done == phase = "decoded"
\* accept iff the valuations are equal
AcceptIffEqual == Done => ((outcome = "scene") <=> (Diff(Vals[a], Vals[b]) = {}))
\* in particular a difference in exactly one component is refused ...
OneComponentRefused == (Done /\ Cardinality(Diff(Vals[a], Vals[b])) = 1) => outcome = "SerializationError"
\* ... also when that component is an override named like an option key, whatever the options are
KeyNamedOverrideCounts ==
  Done => \A k \in OptionKeys :
     (ParamOf(Vals[a], k) # ParamOf(Vals[b], k)) => outcome = "SerializationError"
\* the order in which overrides were given does not matter
OrderIrrelevant == (Done /\ ParamSet(Vals[a]) = ParamSet(Vals[b]) /\ Vals[a].mode2D = Vals[b].mode2D
                    /\ Vals[a].model = Vals[b].model /\ Vals[a].scenario = Vals[b].scenario) => outcome = "scene"
\* the batch can tell the flat digest from the injective one: it contains pairs the flat digest
\* confuses although they differ in a key-named override (evaluated once)
Discriminating ==
  (phase = "start" /\ a = 1 /\ b = 1) =>
     \E x \in 1..NV, y \in 1..NV :
        /\ Flat(Vals[x]) = Flat(Vals[y]) /\ Canon(Vals[x]) # Canon(Vals[y])
        /\ \E k \in OptionKeys : k \in Diff(Vals[x], Vals[y])
\* where the as-implemented digest deviates: only on a covered value of another type with the same text
DeviationExplained ==
  Done => ((CanonAsImplemented(Vals[a]) = CanonAsImplemented(Vals[b]) /\ Canon(Vals[a]) # Canon(Vals[b]))
             => \A n \in Diff(Vals[a], Vals[b]) :
                   /\ n \in ParamNames(Vals[a]) \cap ParamNames(Vals[b])
                   /\ ParamOf(Vals[a], n)[3] = ParamOf(Vals[b], n)[3] /\ ParamOf(Vals[a], n)[2] # ParamOf(Vals[b], n)[2])

EmitPair ==
  Done => PrintT(ToJson([a |-> a, b |-> b, accept |-> IF outcome = "scene" THEN 1 ELSE 0,
                         impl |-> IF CanonAsImplemented(Vals[a]) = CanonAsImplemented(Vals[b]) THEN 1 ELSE 0,
                         flat |-> IF Flat(Vals[a]) = Flat(Vals[b]) THEN 1 ELSE 0,
                         diff |-> Diff(Vals[a], Vals[b])]))
=============================================================================
