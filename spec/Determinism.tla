---------------------------- MODULE Determinism ----------------------------
(* C15 -- same program, options and seed give identical scenes, every time.   *)
(*                                                                            *)
(* Self-composition of the sampler machine of Sampler.tla (EXTENDS: its       *)
(* program format, its tables and its actions ActivationDone, BeginAttempt,   *)
(* Draw, EmptyRange, Compute are reused as they are): two runs ("copies",     *)
(* think: two fresh processes) of Scenario.generate on                        *)
(*    the SAME program, options and RNG STREAM                                *)
(* but in DIFFERENT environments                                              *)
(*    E = ( the order in which the random values reachable only through       *)
(*              requirements were appended to Scenario.dependencies (the code *)
(*              gathers them in sets),                                        *)
(*          the order in which the active requirements are checked in each    *)
(*              attempt (timing statistics of WeightedAcceptanceChecker),     *)
(*          the amount of randomness requirement checking consumes,           *)
(*          np: the number of scenes generated before re-seeding, which leave *)
(*              arbitrary activation flags and checker statistics ).          *)
(*                                                                            *)
(* The RNG is a stream of raw outcomes with a position: the k-th draw after   *)
(* seeding consumes stream element k, whoever asks, so the ORDER in which     *)
(* nodes are drawn matters.  The stream is revealed lazily: an element gets a *)
(* value in 0..R-1 when a call whose result depends on it first consumes it   *)
(* (-1 = consumed so far only by calls whose result does not depend on it).   *)
(* Internal consumers (requirement checking) run between SaveRng and          *)
(* RestoreRng.                                                                *)
(*                                                                            *)
(* The two copies run one after the other (they share nothing but the         *)
(* stream); copy 1's observable is kept in obs1.  Properties:                 *)
(*    Deterministic:    Observable(copy 2) = Observable(copy 1) at the end    *)
(*    PrefixConsistent: copy 2's user-visible draws are always a prefix of    *)
(*                      copy 1's (a divergence is caught at its first step)   *)
(*    StreamUntouched, FlagsFresh: the two lemmas that make it true           *)
(* Observable = (scene, attempt count, sequence of user-visible draws).       *)
(*                                                                            *)
(* Ideal semantics vs. as-implemented deviation (both in this module):        *)
(*   OrderedDeps = TRUE   dependency collection is insertion ordered: the     *)
(*                        order is a function of the program (any one, the    *)
(*                        same in both copies)                 -- must PASS   *)
(*   OrderedDeps = FALSE  "SetOrderedDeps": dependency collection is an       *)
(*                        unordered set, every process sees its own           *)
(*                        permutation                          -- must FAIL   *)
(*   trigger of the deviation: the program has at least two requirement-only  *)
(*   random roots (with fewer, the set-ordered model passes: checked).        *)
(* RestoreRng = "always" is the ideal; "never" (state not restored after       *)
(* checking) and "accepted" (restored only when the sample is accepted, so what *)
(* the checks of a REJECTED sample consumed leaks into the stream) are          *)
(* spec-level mutants: both must FAIL, i.e. the scene then depends on the       *)
(* checker's order, which is an environment variable.                           *)
(*                                                                            *)
(* BlanketSkips = TRUE is a third spec-level mutant: acceptance itself (not the  *)
(* stream) depends on the check order; it must FAIL too.                        *)
(*                                                                            *)
(* The permuted group (rroots) is any set of roots whose relative order the     *)
(* code takes from an unordered collection: random values referenced only from  *)
(* requirements (gathered in sets before repo commit 53f03332), or the random   *)
(* properties of an object whose sampling order comes out of specifier          *)
(* resolution (Specifier.requiredProperties, a set of names that must be        *)
(* sorted), or the random parameters of one `param` statement (veneer.param),   *)
(* or the random locals of a modular scenario's setup block                     *)
(* (DynamicScenario._makeLocalsSnapshot, a set of names sorted since 0972e522).  roots = pre \o perm(rroots) \o post.                               *)
(*                                                                            *)
(* Program format = Sampler.tla's.  A dependency order is a VARIANT of the    *)
(* program: the harness emits one entry of Progs per permutation of the       *)
(* requirement-only roots, with                                               *)
(*   roots  : instances, params, then the requirement-only roots as permuted  *)
(*   base   : number of the program the entry is a variant of                 *)
(*   perm   : the permutation (positions in rroots);  ref: TRUE for identity  *)
(*   rroots : requirement-only roots in order of first mention                *)
(*   reqs[r].ic : upper bound on the global-RNG draws evaluating r consumes   *)
(* so that Sampler's own OrderT[pid] is the traversal order of that process.  *)
EXTENDS Sampler

CONSTANTS OrderedDeps,    \* TRUE: insertion ordered (ideal)  FALSE: set ordered (as implemented)
          RestoreRng,     \* "always" (ideal) | "never" | "accepted" (only when the sample is accepted)
          FullPairs,      \* TRUE: copy 1 ranges over all environments too; FALSE: reference env
          BlanketSkips,   \* FALSE (ideal) | TRUE: spec-level mutant, see CheckOne
          MaxPrior,       \* bound on scenes generated before re-seeding
          R               \* raw outcomes per stream element

VARIABLES turn, np, stream, pos, saved, chk, obs1, env1
dvars == <<vars, turn, np, stream, pos, saved, chk, obs1, env1>>

VariantsT == [q \in 1..NP |-> {v \in 1..NP : Progs[v].base = Progs[q].base}]
IsRef(q) == Progs[q].ref

\* ------------------------------------------------------------------ the RNG stream
Pad(s, n) == IF Len(s) >= n THEN s ELSE s \o [i \in 1..(n - Len(s)) |-> -1]
Known(i) == i <= Len(stream) /\ stream[i] # -1
\* the next element is consumed by a call whose result depends on it and has raw value u
Inspect(u) == IF Known(pos + 1) THEN u = stream[pos + 1] /\ stream' = stream
              ELSE stream' = [Pad(stream, pos + 1) EXCEPT ![pos + 1] = u]
\* n elements are consumed by calls whose result is not looked at
Blind(n) == stream' = Pad(stream, pos + n)

RECURSIVE WIndex(_, _, _)
WIndex(c, t, i) == IF i >= Len(c) \/ SumInts(SubSeq(c, 1, i)) > t THEN i - 1 ELSE WIndex(c, t, i + 1)
\* value a primitive node takes on raw outcome u (any fixed monotone map will do)
Pick(q, n, v, u) ==
  IF Kind(q, n) = "drange"
  THEN LET lo == v[Args(q, n)[1]] hi == v[Args(q, n)[2]] IN lo + ((u * (hi - lo + 1)) \div R)
  ELSE LET c == Node(q, n).c IN WIndex(c, (u * SumInts(c)) \div R, 1)

UserDraws == SelectSeq(hist, LAMBDA e : e.fn # "empty")

\* ------------------------------------------------------------------ one copy
ZeroObs == [pc |-> "", iter |-> 0, out |-> <<>>, draws |-> <<>>]
ZeroEnv == [pid |-> 0, np |-> 0]

StartCopy == /\ np' = 0 /\ pos' = 0 /\ saved' = 0 /\ pc' = "start" /\ k' = 1 /\ active' = {}
             /\ iter' = 0 /\ j' = 0 /\ val' = ConstValT[pid'] /\ done' = {} /\ chk' = {}
             /\ hist' = <<>> /\ ws' = <<Rat!One>>

DInit == /\ pid \in 1..NP /\ (FullPairs \/ IsRef(pid)) /\ turn = 1
         /\ stream = <<>> /\ np = 0 /\ pos = 0 /\ saved = 0 /\ pc = "start" /\ k = 1 /\ active = {}
         /\ iter = 0 /\ j = 0 /\ val = ConstValT[pid] /\ done = {} /\ chk = {}
         /\ hist = <<>> /\ ws = <<Rat!One>> /\ obs1 = ZeroObs /\ env1 = ZeroEnv

Quiet == UNCHANGED <<turn, np, stream, pos, saved, chk, obs1, env1>>

\* A scene generated (and thrown away) before the generators are re-seeded: whatever it did,
\* it leaves the activation flags and the checker statistics arbitrary and the generator
\* somewhere else.  (The reference copy of the non-FullPairs model has no history.)
PriorScene ==
  /\ pc = "start" /\ np < MaxPrior /\ (turn = 2 \/ FullPairs)
  /\ np' = np + 1 /\ active' \in SUBSET (1..NR) /\ pos' = pos + 1
  /\ UNCHANGED <<pid, pc, k, iter, j, val, done, ws, hist, turn, stream, saved, chk, obs1, env1>>

\* random.seed(s); numpy.random.seed(s)
Reseed ==
  /\ pc = "start" /\ pos' = 0 /\ pc' = "activate" /\ k' = 1
  /\ UNCHANGED <<pid, active, iter, j, val, done, ws, hist, turn, np, stream, saved, chk, obs1, env1>>

\* One random.random() per user requirement (hard ones too).  Unlike Sampler!Activate, which
\* starts from a fresh scenario, the flag a previous scene left is OVERWRITTEN
\* (`req.active = False`).  DActivateStep / DDrawStep are the machine halves of the two
\* drawing actions: the stream half is added here, the logged event in DeterminismTrace.
DActivateStep(b) ==
  /\ pc = "activate" /\ k <= NR
  /\ active' = IF b THEN active \cup {k} ELSE active \ {k}
  /\ hist' = Append(hist, [fn |-> "random", args |-> Reqs[k].p, res |-> IF b THEN 1 ELSE 0])
  /\ pos' = pos + 1 /\ k' = k + 1
  /\ UNCHANGED <<pid, pc, iter, j, val, done, ws, turn, np, saved, chk, obs1, env1>>

DActivate ==
  /\ pc = "activate" /\ k <= NR
  /\ LET p == Reqs[k].p IN
       IF p = <<1, 1>>
       THEN Blind(1) /\ DActivateStep(TRUE)
       ELSE \E u \in 0..(R - 1) : Inspect(u) /\ DActivateStep(u * p[2] < p[1] * R)

\* Sampler!Draw with the value x
DDrawStep(x) ==
  /\ Draw /\ val'[Cur] = x
  /\ pos' = pos + 1 /\ UNCHANGED <<turn, np, saved, chk, obs1, env1>>

CanDraw == pc = "sampling" /\ j <= Len(Order) /\ Primitive(pid, Cur) /\ Cur \notin done /\ Ready(Cur)

DDraw ==
  /\ CanDraw /\ Support(pid, Cur, val) # {}
  /\ \E u \in 0..(R - 1) :
       /\ IF Cardinality(Support(pid, Cur, val)) = 1 THEN u = 0 /\ Blind(1) ELSE Inspect(u)
       /\ DDrawStep(Pick(pid, Cur, val, u))

\* rand_state, np_state = random.getstate(), numpy.random.get_state()
SaveRng ==
  /\ pc = "sampling" /\ j > Len(Order)
  /\ saved' = pos /\ chk' = {} /\ pc' = "checking"
  /\ UNCHANGED <<pid, k, active, iter, j, val, done, ws, hist, turn, np, stream, pos, obs1, env1>>

\* the checker evaluates the active requirements in an order of its choosing (timing
\* statistics) and stops at the first falsified one; evaluating r may consume randomness
CheckOne(r) ==
  /\ pc = "checking" /\ r \in active \ chk
  /\ \E c \in 0..Reqs[r].ic : Blind(c) /\ pos' = pos + c
  \* mutant BlanketSkips: once requirement 1 (think: the optional surface-only collision check)
  \* has passed, requirement 2 (the exact pairwise check) is skipped as "redundant": whether a
  \* sample is accepted then depends on the order of the checks -- must FAIL
  /\ chk' = IF BlanketSkips /\ r = 1 /\ Holds(Reqs[r].c, val) THEN chk \cup {1, 2} ELSE chk \cup {r}
  /\ pc' = IF Holds(Reqs[r].c, val) THEN "checking" ELSE "rejecting"
  /\ UNCHANGED <<pid, k, active, iter, j, val, done, ws, hist, turn, np, saved, obs1, env1>>

CheckAny == \E r \in 1..NR : CheckOne(r)

CheckDone ==
  /\ pc = "checking" /\ active \subseteq chk /\ pc' = "accepting"
  /\ UNCHANGED <<pid, k, active, iter, j, val, done, ws, hist, turn, np, stream, pos, saved, chk, obs1, env1>>

\* random.setstate(rand_state); numpy.random.set_state(np_state)
RestoreRngStep ==
  /\ pc \in {"accepting", "rejecting"}
  /\ pos' = IF RestoreRng = "always" \/ (RestoreRng = "accepted" /\ pc = "accepting") THEN saved ELSE pos
  /\ pc' = IF pc = "accepting" THEN "accepted" ELSE "loop"
  /\ chk' = {} /\ saved' = 0
  /\ UNCHANGED <<pid, k, active, iter, j, val, done, ws, hist, turn, np, stream, obs1, env1>>

Obs == [pc |-> pc, iter |-> iter,
        out |-> IF pc = "accepted" THEN Outcome(pid, val) ELSE <<>>,
        draws |-> UserDraws]

\* copy 1 is over: remember what it showed, start copy 2 in its own environment
Handover ==
  /\ turn = 1 /\ Terminal /\ turn' = 2
  /\ obs1' = Obs /\ env1' = [pid |-> pid, np |-> np]
  /\ pid' \in (IF OrderedDeps THEN {pid} ELSE VariantsT[pid])
  /\ StartCopy
  /\ UNCHANGED stream

\* Sampler's own actions, untouched
Reused == (ActivationDone \/ BeginAttempt \/ EmptyRange \/ Compute) /\ Quiet

DNext == \/ PriorScene \/ Reseed \/ DActivate \/ DDraw \/ Reused
         \/ SaveRng \/ CheckAny \/ CheckDone \/ RestoreRngStep \/ Handover

DSpec == DInit /\ [][DNext]_dvars

\* np is never read once the generators are re-seeded: states that differ only in it (and in
\* the weights ws, which Sampler carries for C01 and which the values determine) are one state
DView == <<pid, pc, k, active, iter, j, val, done, hist, turn, stream, pos, saved, chk, obs1, env1,
           IF pc = "start" THEN np ELSE 0>>

\* ------------------------------------------------------------------ properties
DTypeOK == /\ turn \in {1, 2} /\ np \in 0..MaxPrior /\ iter \in 0..Progs[pid].maxIter
           /\ active \subseteq 1..NR /\ chk \subseteq 1..NR /\ pos >= 0
           /\ pc \in {"start", "activate", "loop", "sampling", "checking", "accepting", "rejecting",
                      "accepted", "exhausted"}

Cex == [t |-> "cex", pid1 |-> env1.pid, np1 |-> env1.np, pid2 |-> pid, np2 |-> np,
        roots1 |-> Progs[env1.pid].roots, roots2 |-> Progs[pid].roots,
        stream |-> stream, obs1 |-> obs1, obs2 |-> Obs]

\* THE property: at the end both copies show the same scene, attempt count and draws
Deterministic == (turn = 2 /\ Terminal) => (Obs = obs1 \/ ~PrintT(ToJson(Cex)))

\* the part of it a user sees without looking at the generator: scene, attempt count, ending
\* (implied by Deterministic; checked on its own in the set-ordered model so that the
\* counterexample TLC reports is one in which the SCENES differ, not only the draws)
DeterministicScene == (turn = 2 /\ Terminal) =>
    ((Obs.pc = obs1.pc /\ Obs.iter = obs1.iter /\ Obs.out = obs1.out) \/ ~PrintT(ToJson(Cex)))

\* ... and they never part ways before
PrefixConsistent == (turn = 2) => IsPrefix(UserDraws, obs1.draws)

\* requirement checking does not move the user-visible stream: outside the checking
\* section the position is the number of user-visible draws since seeding
StreamUntouched == (RestoreRng = "always" /\ pc \in {"activate", "loop", "sampling", "accepted", "exhausted"})
                      => pos = Len(UserDraws)

\* every flag a prior scene left behind is overwritten before the rejection loop
FlagsFresh == (pc \notin {"start", "activate"}) =>
                 \A r \in 1..NR : (Reqs[r].p = <<1, 1>> => r \in active)

\* one line per finished pair (coverage of environments; printed only when asked)
EmitPair == (turn = 2 /\ Terminal /\ IOEnv.PRINT_PAIRS = "1") =>
               PrintT(ToJson([t |-> "pair", pid1 |-> env1.pid, np1 |-> env1.np,
                              pid2 |-> pid, np2 |-> np, same |-> (Obs = obs1)]))
=============================================================================
