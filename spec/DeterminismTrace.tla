------------------------- MODULE DeterminismTrace -------------------------
(* C15 binding, code -> spec, ACROSS processes.                                *)
(*                                                                             *)
(* A case = one program + the user-visible draw traces of N fresh processes    *)
(* that compiled and sampled it with the same seeds (each with the scene, the  *)
(* attempt count and the ending it reported).  The dependency order (the order *)
(* in which the requirement-only random values sit in Scenario.dependencies =  *)
(* which VARIANT of the program the process ran, see Determinism.tla) is NOT   *)
(* logged: TLC chooses it in TraceInit and must hold it fixed for the whole    *)
(* case, i.e. it looks for ONE order explaining ALL processes.  The harness    *)
(* also submits every process as a case of its own: a process accepted alone   *)
(* but not jointly is the named deviation SetOrderedDeps of Determinism.tla; a *)
(* process not accepted alone is no behaviour of the sampler at all.           *)
(*                                                                             *)
(* The machine is Determinism's (EXTENDS): the silent actions are reused as    *)
(* they are, the two drawing actions through their machine halves              *)
(* DActivateStep / DDrawStep with the logged event in place of the stream.     *)
(* Check order and internal consumption stay nondeterministic (unlogged).      *)
EXTENDS Determinism

Cases == JsonDeserialize(IOEnv.CASES)
NC == Len(Cases)

VARIABLES cid, pr, ei
tvars == <<dvars, cid, pr, ei>>

Procs == Cases[cid].procs
Evs == Procs[pr].evs
Ev == Evs[ei + 1]

TraceInit ==
  /\ cid \in 1..NC /\ pid \in {v \in 1..NP : Progs[v].base = Cases[cid].prog}
  /\ pr = 1 /\ ei = 0 /\ turn = 1
  /\ stream = <<>> /\ np = 0 /\ pos = 0 /\ saved = 0 /\ pc = "start" /\ k = 1 /\ active = {}
  /\ iter = 0 /\ j = 0 /\ val = ConstValT[pid] /\ done = {} /\ chk = {}
  /\ hist = <<>> /\ ws = <<Rat!One>> /\ obs1 = ZeroObs /\ env1 = ZeroEnv

\* random.random() <= prob, the result logged in units of 1e-6
TActivate ==
  /\ pc = "activate" /\ k <= NR /\ ei < Len(Evs) /\ Ev.fn = "random"
  /\ DActivateStep(Reqs[k].p = <<1, 1>> \/ Ev.res * Reqs[k].p[2] < Reqs[k].p[1] * 1000000)
  /\ ei' = ei + 1 /\ UNCHANGED <<stream, cid, pr>>

\* the logged call must be the one the spec demands for the node being drawn
TDraw ==
  /\ CanDraw /\ ei < Len(Evs)
  /\ LET call == RngCall(pid, Cur, val) IN Ev.fn = call.fn /\ Ev.args = call.args
  /\ DDrawStep(Ev.res)
  /\ ei' = ei + 1 /\ UNCHANGED <<stream, cid, pr>>

Silent == /\ \/ Reseed \/ Reused \/ SaveRng \/ CheckAny \/ CheckDone \/ RestoreRngStep
          /\ UNCHANGED <<cid, pr, ei>>

\* the process ended as the machine did, with the scene and attempt count the machine has
ProcMatches == /\ Terminal /\ ei = Len(Evs)
               /\ pc = Procs[pr].pc /\ iter = Procs[pr].iter
               /\ (pc = "accepted" => Outcome(pid, val) = Procs[pr].out)

NextProc ==
  /\ ProcMatches
  /\ IF pr < Len(Procs)
     THEN /\ pr' = pr + 1 /\ ei' = 0 /\ pid' = pid /\ StartCopy /\ UNCHANGED <<turn, obs1, env1>>
     ELSE /\ pc' = "validated"
          /\ UNCHANGED <<pid, pr, ei, np, pos, saved, k, active, iter, j, val, done, chk, hist, ws, turn, obs1, env1>>
  /\ UNCHANGED <<stream, cid>>

TraceNext == TActivate \/ TDraw \/ Silent \/ NextProc
TraceSpec == TraceInit /\ [][TraceNext]_tvars

TraceTypeOK == pr \in 1..Len(Procs) /\ ei \in 0..Len(Evs)

\* one line per (case, order) that explains every process of the case
EmitAccepted == (pc = "validated") => PrintT(ToJson([t |-> "acc", cid |-> cid, pid |-> pid]))

\* how far each (case, order) got: used to say where an unexplainable trace stops
EmitProgress == (IOEnv.PRINT_PROGRESS = "1" /\ pc = "loop") =>
                   PrintT(ToJson([t |-> "prog", cid |-> cid, pr |-> pr, ei |-> ei]))
=============================================================================
