------------------------------ MODULE Dynamics ------------------------------
(* C12 / C13 / C19: execution of dynamic scenarios.                              *)
(*                                                                              *)
(* The time step is the ten-step procedure of docs/reference/dynamic_scenarios  *)
(* (one named action per numbered step), the statements inside behaviours and   *)
(* monitors are interpreted by a coroutine machine (Resume / Run) whose meaning *)
(* is taken from docs/reference/statements.rst:                                 *)
(*   take / wait suspend until the next step; do B runs a sub-behaviour to      *)
(*   completion; `for n` / `until c` abort the running block at the first       *)
(*   resume at which the limit is reached / the condition holds (counting from  *)
(*   the step of invocation; control returns to the parent in that same step);  *)
(*   try/interrupt: at every resume the enabled-or-running handler whose clause *)
(*   comes latest runs, outer statements are consulted before inner ones, a     *)
(*   pre-empted block resumes where it stopped, a finished handler re-evaluates *)
(*   the choice within the same step, abort ends the statement, break/continue  *)
(*   act on the enclosing loop, return leaves the behaviour; preconditions and  *)
(*   invariants are checked when a behaviour starts, invariants again after     *)
(*   each of its own take/wait and after a sub-behaviour returns;               *)
(*   do choose / do shuffle pick among the enabled items with probability       *)
(*   proportional to weight (no draw when exactly one is enabled, rejection      *)
(*   when none is).                                                              *)
(*                                                                              *)
(* A case (JSON): defs (behaviour definitions: pre, inv, body), agents (def id   *)
(* per object, 0 = none), monitors (def ids), records (<<kind, name>>),         *)
(* termWhen, termSimWhen (condition names), termAfter (<<>> or <<n, unit>>),    *)
(* maxSteps, dt (<<num, den>>), table (condition name -> truth value per step), *)
(* sched (per step a permutation of the agent indices).                          *)
(* Conditions are pure look-ups in the step-indexed table.                       *)
EXTENDS Integers, Sequences, FiniteSets, TLC, Json, IOUtils, SequencesExt, FiniteSetsExt

Rat == INSTANCE Rat

Cases == JsonDeserialize(IOEnv.CASES)
NC == Len(Cases)

VARIABLES cid,      \* case number
          t,        \* Simulation.currentTime
          phase,    \* which numbered step of the procedure comes next
          beh,      \* agent index -> coroutine
          top,      \* the top-level scenario instance (tree of running scenarios, their monitors)
          ai,       \* position in this step's schedule / monitor list
          pend,     \* agent index -> actions chosen in this step
          ev,       \* observable event log
          nexec,    \* entries in the action log
          ntraj,    \* states in the trajectory
          flag,     \* termination flag: <<>> or <<type>>
          ending,   \* <<>> or <<type, t>>
          ws,       \* the random picks made so far: <<num, den, alternative>> (exact rational weight)
          pick      \* <<>> or <<who, index>>: a coroutine is waiting for a random pick
vars == <<cid, t, phase, beh, top, ai, pend, ev, nexec, ntraj, flag, ending, ws, pick>>

C == Cases[cid]
Def(q, d) == Cases[q].defs[d]
Tab(q, c, tt) == LET row == Cases[q].table[c] IN IF tt + 1 <= Len(row) THEN row[tt + 1] ELSE row[Len(row)]
AllTrue(q, cs, tt) == \A i \in 1..Len(cs) : Tab(q, cs[i], tt)
(* Guards.  A guard condition yields a truth value or RAISES a rejection (rtable: condition name -> row of  *)
(* booleans "raises at step t"; absent names never raise).  The conditions of a list are evaluated in    *)
(* order: the first one that raises rejects the simulation, the first false one is a guard violation      *)
(* (which rejects, or is raised to the caller when raiseGuardViolations is set).                             *)
RTab(q, c, tt) == /\ c \in DOMAIN Cases[q].rtable
                  /\ LET row == Cases[q].rtable[c] IN IF tt + 1 <= Len(row) THEN row[tt + 1] ELSE row[Len(row)]
RECURSIVE ScanG(_, _, _, _)
ScanG(q, cs, i, tt) == IF i > Len(cs) THEN "ok"
                       ELSE IF RTab(q, cs[i], tt) THEN "rej"
                       ELSE IF ~Tab(q, cs[i], tt) THEN "viol"
                       ELSE ScanG(q, cs, i + 1, tt)
\* the signal of checking the invariants of behaviour definition d / all its guards at a start / a scenario's
InvSigOf(q, d, tt) == LET v == ScanG(q, Def(q, d).inv, 1, tt) IN
                      IF v = "rej" THEN "reject" ELSE IF v = "viol" THEN "guardinv" ELSE "ok"
BehGuardSig(q, d, tt) == LET p == ScanG(q, Def(q, d).pre, 1, tt) IN
                         IF p = "rej" THEN "reject" ELSE IF p = "viol" THEN "guardpre" ELSE InvSigOf(q, d, tt)
ScenPreSig(q, s, tt) == LET p == ScanG(q, Cases[q].sdefs[s].pre, 1, tt) IN
                        IF p = "rej" THEN "reject" ELSE IF p = "viol" THEN "guardpre" ELSE "ok"
GuardsOK(q, d, tt) == BehGuardSig(q, d, tt) = "ok"

\* n units reached after `el` elapsed steps?  seconds are converted with the time step
LimitReached(q, el, n, unit) ==
  IF unit = "steps" THEN el >= n
  ELSE el * Cases[q].dt[1] >= n * Cases[q].dt[2]

\* ------------------------------------------------------------------ frames
FSeq(s) == [k |-> "seq", s |-> s, i |-> 1]
FBeh(d) == [k |-> "beh", d |-> d]
FWhile(c, s) == [k |-> "while", c |-> c, s |-> s]
FMod(m, start, n, u, c) == [k |-> "mod", m |-> m, start |-> start, n |-> n, u |-> u, c |-> c]
FIdle == [k |-> "idle"]
FShuf(items, sk) == [k |-> "shuf", items |-> items, sk |-> sk]   \* sk: the items are scenarios (compose block)
FPar(keys) == [k |-> "par", keys |-> keys]      \* `do S1, S2` in a compose block: the keys of the sub-scenario instances it steps
FTry(hs) == [k |-> "try", hs |-> hs, act |-> 0, saved |-> [i \in 0..Len(hs) |-> <<>>], began |-> {}]

\* a coroutine: control stack, events emitted during the current resume, signal
\*   sig: "run" (keep going) "yield" "done" "terminate" "termsim" "reject" "pick"
\*   om/orc/wl: oracle mode (compose blocks and monitors): random picks are read from the script `orc`
\*   guessed by the enclosing action, their weights logged in `wl` (see AskPick)
\*   d: (object coroutines) the behaviour definition the object was created with, 0 for none;
\*   own: the id of the sub-scenario instance whose setup block created the object (0: the top-level scenario)
\*   kids/nk: (compose blocks, while they run) the scenario's running sub-scenario instances, in the order they
\*   were invoked, and the number of keys handed out; between steps they are kept in the instance record
\*   n/new: (compose blocks) the number of objects existing so far and the behaviour definitions of the objects
\*   created during the current resume by the setup blocks of the sub-scenarios it invoked
NewCor(st) == [st |-> st, out |-> <<>>, sig |-> "run", acts |-> <<>>, chk |-> FALSE, opts |-> <<>>, pk |-> "none",
               om |-> FALSE, orc |-> <<>>, wl |-> <<>>, d |-> 0, own |-> 0, n |-> 0, new |-> <<>>,
               kids |-> <<>>, nk |-> 0]
NewCorO(st) == [NewCor(st) EXCEPT !.om = TRUE]
OrcFail == {"orcshort", "orcbad"}    \* the guessed script is too short / names an alternative that does not exist

Top(c) == c.st[Len(c.st)]
Pop(c) == [c EXCEPT !.st = SubSeq(c.st, 1, Len(c.st) - 1)]
Push(c, f) == [c EXCEPT !.st = Append(c.st, f)]
SetTop(c, f) == [c EXCEPT !.st = [c.st EXCEPT ![Len(c.st)] = f]]
Sig(c, s) == [c EXCEPT !.sig = s]
Emit(c, e) == [c EXCEPT !.out = Append(c.out, e)]
\* the coroutine of an object created with behaviour definition d (0: no behaviour)
ObjCor(q, d, own) == IF d = 0 THEN Sig(NewCor(<<>>), "done")
                     ELSE [NewCor(<<FBeh(d), FSeq(Cases[q].defs[d].body)>>) EXCEPT !.d = d, !.own = own]

\* index of the nearest behaviour frame at or below position p (0 if none)
RECURSIVE NearestBeh(_, _)
NearestBeh(st, p) == IF p = 0 THEN 0 ELSE IF st[p].k = "beh" THEN p ELSE NearestBeh(st, p - 1)
InvSig(q, st, p, tt) == LET b == NearestBeh(st, p) IN IF b = 0 THEN "ok" ELSE InvSigOf(q, st[b].d, tt)
InvOK(q, st, p, tt) == InvSig(q, st, p, tt) = "ok"

\* start sub-behaviour d on top of c: preconditions then invariants, else rejection
StartBeh(q, c, d, tt) ==
  IF GuardsOK(q, d, tt) THEN Push(Push(c, FBeh(d)), FSeq(Def(q, d).body)) ELSE Sig(c, BehGuardSig(q, d, tt))

\* the invariant check the parent performs after a `do`-like statement returns
AfterInvoke(q, c, tt) == IF InvOK(q, c.st, Len(c.st), tt) THEN c ELSE Sig(c, InvSig(q, c.st, Len(c.st), tt))

\* ---- try/interrupt: block selection (clause order 1..n; the latest enabled-or-running wins)
Running(f, i) == f.act = i \/ f.saved[i] # <<>>
RECURSIVE SelectFrom(_, _, _, _)
SelectFrom(q, f, i, tt) == IF i = 0 THEN 0
                           ELSE IF Running(f, i) \/ Tab(q, f.hs[i][1], tt) THEN i
                           ELSE SelectFrom(q, f, i - 1, tt)
Select(q, f, tt) == SelectFrom(q, f, Len(f.hs), tt)
BlockBody(f, b) == IF b = 0 THEN f.body ELSE f.hs[b][2]

\* enabled items of a choose/shuffle: <<d, w>> whose guards hold now, in declaration order
Enabled(q, items, tt) == SelectSeq(items, LAMBDA it : GuardsOK(q, it[1], tt))
\* (the guards of ALL the items are evaluated; a rejection raised by one of them rejects the simulation)
ChooseRaises(q, items, tt) == \E i \in 1..Len(items) : BehGuardSig(q, items[i][1], tt) = "reject"
RECURSIVE SumW(_)
SumW(items) == IF items = <<>> THEN 0 ELSE Head(items)[2] + SumW(Tail(items))

(* Walk: what happens, from the outermost statement inwards, when a suspended      *)
(* coroutine is resumed: every do-for/until wrapper and try/interrupt statement on  *)
(* the stack first re-checks the invariants of the behaviour it belongs to, then    *)
(* its condition(s); the first one that changes the control flow wins.  At the top  *)
(* the suspended take/wait completes with the invariant check of its behaviour.     *)
(* Invariants are "not checked during time spent inside sub-behaviours: this allows sub-behaviours *)
(* to break and restore invariants before they return".  So a do-for/until wrapper or a            *)
(* try/interrupt statement whose running block is inside a sub-behaviour does not check them when   *)
(* that block simply continues; it does when control comes back to the behaviour itself (limit       *)
(* reached, a handler pre-empts).  Named as-implemented deviation (case field invimpl = 1,           *)
(* KNOWN_FINDINGS invariant-checked-inside-sub-behaviour): runTryInterrupt re-checks the invariants   *)
(* of its behaviour after every step, whatever runs under it.                                        *)
SubAbove(st, p) == NearestBeh(st, Len(st)) # NearestBeh(st, p)
CheckHere(q, c, p) == Cases[q].invimpl = 1 \/ ~SubAbove(c.st, p)
RECURSIVE Walk(_, _, _, _)
Walk(q, c, p, tt) ==
  IF c.sig # "run" THEN c
  ELSE IF p > Len(c.st) THEN
       (IF Top(c).k \in {"idle", "par"} THEN c
        ELSE IF InvOK(q, c.st, Len(c.st), tt) THEN c ELSE Sig(c, InvSig(q, c.st, Len(c.st), tt)))
  ELSE LET f == c.st[p] IN
       IF f.k = "mod" THEN
          IF CheckHere(q, c, p) /\ ~InvOK(q, c.st, p, tt) THEN Sig(c, InvSig(q, c.st, p, tt))
          ELSE IF (IF f.m = "for" THEN LimitReached(q, tt - f.start, f.n, f.u) ELSE Tab(q, f.c, tt))
               THEN AfterInvoke(q, [c EXCEPT !.st = SubSeq(c.st, 1, p - 1)], tt)   \* abort: sub-behaviours above are stopped
               ELSE Walk(q, c, p + 1, tt)
       ELSE IF f.k = "try" THEN
          IF (CheckHere(q, c, p) \/ Select(q, f, tt) # f.act) /\ ~InvOK(q, c.st, p, tt) THEN Sig(c, InvSig(q, c.st, p, tt))
          ELSE LET b == Select(q, f, tt) IN
               IF b = f.act THEN Walk(q, c, p + 1, tt)
               ELSE \* pre-empt: save the running block's continuation, switch to block b
                    LET above == SubSeq(c.st, p + 1, Len(c.st))
                        f1 == [f EXCEPT !.saved[f.act] = above, !.act = b]
                    IN IF f.saved[b] # <<>>
                       THEN Walk(q, [c EXCEPT !.st = Append(SubSeq(c.st, 1, p - 1), [f1 EXCEPT !.saved[b] = <<>>]) \o f.saved[b]], p + 1, tt)
                       ELSE [c EXCEPT !.st = Append(Append(SubSeq(c.st, 1, p - 1), f1), FSeq(BlockBody(f, b)))]
       ELSE Walk(q, c, p + 1, tt)

\* enter a try statement / continue after one of its handlers finished: choose the block
EnterBlock(q, c, tt) ==   \* Top(c) is a try frame with no active block (act = -1)
  LET f == Top(c) b == Select(q, f, tt) IN
    IF f.saved[b] # <<>>
    THEN Walk(q, [c EXCEPT !.st = SubSeq(c.st, 1, Len(c.st) - 1) \o <<[f EXCEPT !.act = b, !.saved[b] = <<>>]>> \o f.saved[b]],
              Len(c.st) + 1, tt)
    ELSE Push(SetTop(c, [f EXCEPT !.act = b]), FSeq(BlockBody(f, b)))

\* unwinding for abort / break / continue / return
RECURSIVE Unwind(_, _)
Unwind(c, mode) ==
  IF c.st = <<>> THEN Sig(c, "done")
  ELSE LET f == Top(c) IN
    CASE mode = "abort" -> IF f.k = "try" THEN Pop(c) ELSE Unwind(Pop(c), mode)
      [] mode = "break" -> IF f.k = "while" THEN Pop(c) ELSE Unwind(Pop(c), mode)
      [] mode = "continue" -> IF f.k = "while" THEN c ELSE Unwind(Pop(c), mode)
      [] mode = "return" -> IF f.k = "beh" THEN c ELSE Unwind(Pop(c), mode)

(* Named as-implemented deviation (KNOWN_FINDINGS nested-try-return-leaks): the code generated  *)
(* for a try/interrupt statement that is itself inside a block of another try/interrupt turns a   *)
(* `return` of the inner statement into a plain return from the OUTER statement's block function, *)
(* so the outer statement ends and the behaviour continues after it instead of returning.  Only   *)
(* used when the case sets impl = 1; the trigger predicate (a return lexically inside two nested   *)
(* try/interrupt statements) is computed by the harness from the same program tree.                *)
RECURSIVE UnwindReturnImpl(_, _)
UnwindReturnImpl(c, k) ==
  IF c.st = <<>> THEN Sig(c, "done")
  ELSE LET f == Top(c) IN
    IF f.k = "beh" THEN c
    ELSE IF f.k = "try" THEN (IF k = 1 THEN Pop(c) ELSE UnwindReturnImpl(Pop(c), k + 1))
    ELSE UnwindReturnImpl(Pop(c), k)

\* ------------------------------------------------------------------ scenario instances
(* A running (sub-)scenario: its definition, the steps it has run, its compose coroutine  *)
(* (signal "done" when it has no compose block), its monitors.  Sub-scenarios invoked by   *)
(* `do S1, S2` live in a "par" frame on top of the invoking compose coroutine.              *)
Sdef(q, s) == Cases[q].sdefs[s]
NewMon(q, d) == NewCorO(<<FBeh(d), FSeq(Def(q, d).body)>>)
NewInst(q, s) ==
  [s |-> s, el |-> 0, on |-> TRUE, id |-> 0,     \* id: the number of the first object it created (0 if none)
   key |-> 0, kids |-> <<>>, nk |-> 0,           \* key: its key among its parent's sub-scenarios; kids: its own sub-scenarios
   cor |-> IF Sdef(q, s).hascompose THEN NewCorO(<<FSeq(Sdef(q, s).compose)>>) ELSE Sig(NewCor(<<>>), "done"),
   mons |-> [i \in 1..Len(Sdef(q, s).monitors) |-> NewMon(q, Sdef(q, s).monitors[i])]]
StopInst(I) == [I EXCEPT !.on = FALSE, !.mons = <<>>, !.cor = Sig(NewCor(<<>>), "done"), !.kids = <<>>]
(* The running sub-scenarios of an instance form ONE list, in invocation order, whichever statement of  *)
(* the compose block invoked them: a `do` whose block is suspended by a try/interrupt handler keeps its   *)
(* sub-scenarios there (their monitors, records and terminate-simulation-when conditions go on; their     *)
(* compose blocks and limits are stepped only by the `do` that invoked them, when it runs).  A "par"      *)
(* frame holds the keys of the instances it steps.  When the frames of a `do` are dropped (abort, break,  *)
(* return, a do-for/until limit) its sub-scenarios are stopped: KeepKids.                                 *)
SubsOf(I) == I.kids
SetSubs(I, subs) == [I EXCEPT !.kids = subs]
RECURSIVE RefKeys(_)
RefKeys(st) == IF st = <<>> THEN {}
               ELSE LET f == Head(st) IN
                    (IF f.k = "par" THEN {f.keys[i] : i \in 1..Len(f.keys)}
                     ELSE IF f.k = "try" THEN UNION {RefKeys(f.saved[i]) : i \in DOMAIN f.saved}
                     ELSE {}) \cup RefKeys(Tail(st))
KeepKids(c) == [c EXCEPT !.kids = SelectSeq(c.kids, LAMBDA K : K.on /\ K.key \in RefKeys(c.st))]
\* `terminate` executed by a behaviour ends the scenario that created its agent, if that is still running
RECURSIVE StopById(_, _)
StopById(I, x) == IF ~I.on THEN I
                  ELSE IF I.id = x THEN StopInst(I)
                  ELSE IF SubsOf(I) = <<>> THEN I
                  ELSE SetSubs(I, [i \in 1..Len(SubsOf(I)) |-> StopById(SubsOf(I)[i], x)])

(* Invoking sub-scenarios, one after the other: the preconditions; then the setup block, which      *)
(* creates the scenario's objects in the simulator at once (numbered after the existing ones); then  *)
(* the start: the behaviours of its agents are assigned (their guards are checked), its monitors      *)
(* start.  The new agents are scheduled from this very step on; nothing stops their behaviours when   *)
(* the scenario that created them ends.                                                               *)
RECURSIVE StartSubsFrom(_, _, _, _, _, _)
StartSubsFrom(q, c, ss, i, insts, tt) ==
  IF i > Len(ss) THEN Push([c EXCEPT !.kids = c.kids \o insts, !.nk = c.nk + Len(insts)],
                           FPar([j \in 1..Len(insts) |-> insts[j].key]))
  ELSE LET d == Sdef(q, ss[i]) IN
       IF ScenPreSig(q, ss[i], tt) # "ok" THEN Sig(c, ScenPreSig(q, ss[i], tt))
       ELSE LET k == Len(d.objs)
                c1 == [c EXCEPT !.out = c.out \o [j \in 1..k |-> <<"create", c.n + j>>], !.n = c.n + k,
                            !.new = c.new \o [j \in 1..k |-> <<d.objs[j], c.n + 1>>]]
                bad == {j \in 1..k : d.objs[j] # 0 /\ ~GuardsOK(q, d.objs[j], tt)}
            IN IF bad # {}
               THEN LET j == CHOOSE x \in bad : \A y \in bad : x <= y IN
                    Sig(c1, BehGuardSig(q, d.objs[j], tt))
               ELSE StartSubsFrom(q, c1, ss, i + 1,
                                  Append(insts, [NewInst(q, ss[i]) EXCEPT !.id = IF k > 0 THEN c.n + 1 ELSE 0,
                                                                           !.key = c.nk + i]), tt)
StartSubs(q, c, ss, tt) == StartSubsFrom(q, c, ss, 1, <<>>, tt)

\* ---- random picks
\* enabled scenario items of a choose/shuffle in a compose block: <<s, w>> whose preconditions hold now
SEnabled(q, items, tt) == SelectSeq(items, LAMBDA it : ScenPreSig(q, it[1], tt) = "ok")
SChooseRaises(q, items, tt) == \E i \in 1..Len(items) : ScenPreSig(q, items[i][1], tt) = "reject"
\* pick kinds: "rand" (uniform integer lo..hi), "disc" (run-time Discrete({v: w, ...}): opts = <<label, items>>),
\* "items" / "sitems" (choose or shuffle over behaviours / scenarios: opts = the enabled <<d, w>>).  Weights are
\* integers here; a case may print them divided by a common power of two (field wscale): only ratios matter.
PickItems(c) == IF c.pk = "disc" THEN c.opts[2] ELSE c.opts
PickCount(c) == IF c.pk = "rand" THEN c.opts[2] - c.opts[1] + 1 ELSE Len(PickItems(c))
PickWeight(c, i) == IF c.pk = "rand" THEN Rat!Of(1, c.opts[2] - c.opts[1] + 1)
                    ELSE Rat!Of(PickItems(c)[i][2], SumW(PickItems(c)))
\* the coroutine after alternative i of its pending pick has been taken (one micro-step)
PickStep(q, c, i, tt) ==
  LET c0 == [c EXCEPT !.sig = "run", !.opts = <<>>, !.pk = "none"] IN
  IF c.pk = "rand" THEN Emit(c0, <<"rnd", c.opts[3], c.opts[1] + i - 1, tt>>)
  ELSE IF c.pk = "disc" THEN Emit(c0, <<"rnd", c.opts[1], c.opts[2][i][1], tt>>)
  ELSE LET it == c.opts[i]
           c1 == IF c0.st # <<>> /\ Top(c0).k = "shuf"
                 THEN SetTop(c0, [Top(c0) EXCEPT !.items = SelectSeq(Top(c0).items, LAMBDA x : x # it)])
                 ELSE c0
       IN IF c.pk = "sitems" THEN StartSubs(q, c1, <<it[1]>>, tt) ELSE StartBeh(q, c1, it[1], tt)
(* A random pick among the options `opts`.  A behaviour suspends with signal "pick" and the    *)
(* action Pick resumes it with each alternative.  A compose block or monitor (oracle mode) runs *)
(* inside the recursive walk over the scenario tree, so the alternative is read from the script  *)
(* guessed by ScenarioStep / MonitorResume, which accept a script iff it is consumed exactly.     *)
AskPick(q, c, opts, pk, tt) ==
  LET c1 == [c EXCEPT !.opts = opts, !.pk = pk] IN
  IF ~c.om THEN Sig(c1, "pick")
  ELSE IF c.orc = <<>> THEN Sig(c1, "orcshort")
  ELSE IF Head(c.orc) > PickCount(c1) THEN Sig(c1, "orcbad")
  ELSE PickStep(q, [c1 EXCEPT !.orc = Tail(c.orc), !.wl = Append(c.wl, PickWeight(c1, Head(c.orc)) \o <<Head(c.orc)>>)],
                Head(c.orc), tt)

RECURSIVE Micro(_, _, _), Run(_, _, _), ScenStep(_, _, _, _, _), StepSubs(_, _, _, _, _, _)

\* one time step of a scenario instance (step 1 of the procedure, items a-e):
\* time limit; compose block for one step; terminate-when conditions
\* (orc: the oracle script for the picks of this step; the result carries what is left of it and the weights used)
\* (n: the number of objects existing so far; the result carries the new count and the objects created)
ScenStep(q, I, tt, orc, n) ==
  LET d == Sdef(q, I.s) IN
  IF d.termAfter # <<>> /\ LimitReached(q, I.el, d.termAfter[1], d.termAfter[2])
  THEN [inst |-> StopInst(I), out |-> <<>>, sig |-> "stop", orc |-> orc, wl |-> <<>>, n |-> n, new |-> <<>>]
  ELSE LET I1 == [I EXCEPT !.el = I.el + 1]
           c0 == [I1.cor EXCEPT !.out = <<>>, !.sig = "run", !.acts = <<>>, !.orc = orc, !.wl = <<>>, !.n = n, !.new = <<>>,
                                !.kids = I1.kids, !.nk = I1.nk]
           c == IF d.hascompose
                THEN KeepKids(IF I1.cor.sig = "yield" THEN Run(q, Walk(q, c0, 1, tt), tt) ELSE Run(q, c0, tt))
                ELSE I1.cor
           I2 == IF d.hascompose
                 THEN [I1 EXCEPT !.cor = [c EXCEPT !.orc = <<>>, !.wl = <<>>, !.n = 0, !.new = <<>>, !.kids = <<>>, !.nk = 0],
                                 !.kids = c.kids, !.nk = c.nk]
                 ELSE I1
           out == IF d.hascompose THEN c.out ELSE <<>>
           left == IF d.hascompose THEN c.orc ELSE orc
           wl == IF d.hascompose THEN c.wl ELSE <<>>
           R(inst, sig) == [inst |-> inst, out |-> out, sig |-> sig, orc |-> left, wl |-> wl,
                            n |-> IF d.hascompose THEN c.n ELSE n, new |-> IF d.hascompose THEN c.new ELSE <<>>]
       IN IF d.hascompose /\ c.sig \in {"reject", "guardpre", "guardinv"} \cup OrcFail THEN R(I2, c.sig)
          ELSE IF d.hascompose /\ c.sig = "termsim" THEN R(StopInst(I2), "termsim")
          ELSE IF d.hascompose /\ c.sig \in {"terminate", "done"} THEN R(StopInst(I2), "stop")
          ELSE IF \E i \in 1..Len(d.termWhen) : Tab(q, d.termWhen[i], tt)
               THEN R(StopInst(I2), "stop")
               ELSE R(I2, "cont")

\* step the sub-scenarios of a `do` in order; those that go on are kept
StepSubs(q, subs, i, tt, orc, n) ==
  IF i > Len(subs) THEN [subs |-> <<>>, out |-> <<>>, sig |-> "cont", orc |-> orc, wl |-> <<>>, n |-> n, new |-> <<>>]
  ELSE LET r == ScenStep(q, subs[i], tt, orc, n) IN
       IF r.sig \in {"termsim", "reject", "guardpre", "guardinv"} \cup OrcFail
       THEN [subs |-> <<r.inst>> \o SubSeq(subs, i + 1, Len(subs)), out |-> r.out, sig |-> r.sig, orc |-> r.orc, wl |-> r.wl,
             n |-> r.n, new |-> r.new]
       ELSE LET rest == StepSubs(q, subs, i + 1, tt, r.orc, r.n) IN
            [subs |-> (IF r.sig = "cont" THEN <<r.inst>> ELSE <<>>) \o rest.subs,
             out |-> r.out \o rest.out, sig |-> rest.sig, orc |-> rest.orc, wl |-> r.wl \o rest.wl,
             n |-> rest.n, new |-> r.new \o rest.new]

\* one micro-step of a coroutine whose signal is "run"
Micro(q, c, tt) ==
  IF c.st = <<>> THEN Sig(c, "done")
  ELSE LET f == Top(c) IN
  CASE f.k = "seq" ->
        IF f.i > Len(f.s)
        THEN \* block finished normally
             LET c1 == Pop(c) IN
             IF c1.st # <<>> /\ Top(c1).k = "try"
             THEN LET g == Top(c1) IN
                  IF g.act = 0 THEN Pop(c1)                       \* body finished: statement ends
                  ELSE EnterBlock(q, SetTop(c1, [g EXCEPT !.act = -1]), tt)   \* handler finished: choose again
             ELSE c1
        ELSE LET s == f.s[f.i]
                 c1 == SetTop(c, [f EXCEPT !.i = f.i + 1])
             IN (CASE s[1] = "take" -> [c1 EXCEPT !.sig = "yield", !.acts = <<s[2]>>, !.chk = TRUE]
                  [] s[1] = "wait" -> [c1 EXCEPT !.sig = "yield", !.acts = <<>>, !.chk = TRUE]
                  [] s[1] = "log" -> Emit(c1, <<"log", s[2], tt>>)
                  [] s[1] = "require" -> IF Tab(q, s[2], tt) THEN c1 ELSE Sig(c1, "reject")
                  [] s[1] = "terminate" -> Sig(c1, "terminate")
                  [] s[1] = "termsim" -> Sig(c1, "termsim")
                  [] s[1] = "if" -> Push(c1, FSeq(IF Tab(q, s[2], tt) THEN s[3] ELSE s[4]))
                  [] s[1] = "while" -> Push(c1, FWhile(s[2], s[3]))
                  [] s[1] = "do" -> StartBeh(q, c1, s[2], tt)
                  [] s[1] \in {"dofor", "dountil", "waitfor", "waituntil"} ->
                       LET isfor == s[1] \in {"dofor", "waitfor"}
                           isdo == s[1] \in {"dofor", "dountil"}
                           m == IF isfor THEN FMod("for", tt, s[IF isdo THEN 3 ELSE 2], s[IF isdo THEN 4 ELSE 3], "")
                                ELSE FMod("until", tt, 0, "steps", s[IF isdo THEN 3 ELSE 2])
                           hit == IF isfor THEN LimitReached(q, 0, m.n, m.u) ELSE Tab(q, m.c, tt)
                       IN IF hit THEN AfterInvoke(q, c1, tt)        \* limit already reached: body never starts
                          ELSE IF isdo THEN StartBeh(q, Push(c1, m), s[2], tt)
                          ELSE Push(Push(c1, m), FIdle)
                  [] s[1] = "sdo" -> StartSubs(q, c1, s[2], tt)
                  [] s[1] \in {"sdofor", "sdountil"} ->
                       LET m == IF s[1] = "sdofor" THEN FMod("for", tt, s[3], s[4], "") ELSE FMod("until", tt, 0, "steps", s[3])
                           hit == IF s[1] = "sdofor" THEN LimitReached(q, 0, m.n, m.u) ELSE Tab(q, m.c, tt)
                       IN IF hit THEN AfterInvoke(q, c1, tt) ELSE StartSubs(q, Push(c1, m), s[2], tt)
                  [] s[1] = "choose" ->
                       LET en == Enabled(q, s[2], tt) IN
                       IF en = <<>> \/ ChooseRaises(q, s[2], tt) THEN Sig(c1, "reject")
                       ELSE IF Len(en) = 1 THEN StartBeh(q, c1, en[1][1], tt)
                       ELSE AskPick(q, c1, en, "items", tt)
                  [] s[1] = "shuffle" -> Push(c1, FShuf(s[2], FALSE))
                  [] s[1] = "schoose" ->     \* `do choose` over scenarios, in a compose block
                       LET en == SEnabled(q, s[2], tt) IN
                       IF en = <<>> \/ SChooseRaises(q, s[2], tt) THEN Sig(c1, "reject")
                       ELSE IF Len(en) = 1 THEN StartSubs(q, c1, <<en[1][1]>>, tt)
                       ELSE AskPick(q, c1, en, "sitems", tt)
                  [] s[1] = "sshuffle" -> Push(c1, FShuf(s[2], TRUE))
                  [] s[1] = "rand" -> AskPick(q, c1, <<s[2], s[3], s[4]>>, "rand", tt)
                  [] s[1] = "disc" -> AskPick(q, c1, <<s[3], s[2]>>, "disc", tt)     \* ["disc", items <<v, w>>, label]
                  [] s[1] = "try" -> EnterBlock(q, Push(c1, [FTry(s[3]) EXCEPT !.act = -1] @@ [body |-> s[2]]), tt)
                  [] s[1] \in {"abort", "break", "continue"} -> Unwind(c1, s[1])
                  [] s[1] = "return" ->
                       IF Cases[q].impl = 1 THEN UnwindReturnImpl(c1, 0)
                       ELSE Unwind(c1, "return"))   \* the beh frame is now on top: it returns below
  [] f.k = "while" -> IF Tab(q, f.c, tt) THEN Push(c, FSeq(f.s)) ELSE Pop(c)
  [] f.k = "beh" ->   \* the behaviour's body has finished (or it executed return)
        LET c1 == Pop(c) IN
        IF c1.st = <<>> THEN Sig(c1, "done")
        ELSE IF Top(c1).k = "mod" THEN AfterInvoke(q, Pop(c1), tt)
        ELSE IF Top(c1).k = "shuf" THEN c1
        ELSE AfterInvoke(q, c1, tt)
  [] f.k = "mod" -> AfterInvoke(q, Pop(c), tt)          \* (only reached when its body is gone)
  [] f.k = "idle" -> [c EXCEPT !.sig = "yield", !.acts = <<>>, !.chk = FALSE]
  [] f.k = "shuf" ->
        IF f.items = <<>> THEN AfterInvoke(q, Pop(c), tt)
        ELSE LET en == IF f.sk THEN SEnabled(q, f.items, tt) ELSE Enabled(q, f.items, tt) IN
             IF en = <<>> \/ (IF f.sk THEN SChooseRaises(q, f.items, tt) ELSE ChooseRaises(q, f.items, tt)) THEN Sig(c, "reject")
             ELSE IF Len(en) = 1
                  THEN LET c1 == SetTop(c, [f EXCEPT !.items = SelectSeq(f.items, LAMBDA it : it # en[1])]) IN
                       IF f.sk THEN StartSubs(q, c1, <<en[1][1]>>, tt) ELSE StartBeh(q, c1, en[1][1], tt)
                  ELSE AskPick(q, c, en, IF f.sk THEN "sitems" ELSE "items", tt)
  [] f.k = "try" -> Pop(c)    \* (not reached: blocks are dispatched from the seq case)
  [] f.k = "par" ->   \* sub-scenarios: drop those stopped meanwhile, step the others in order
        LET mykeys == {f.keys[i] : i \in 1..Len(f.keys)}
            r == StepSubs(q, SelectSeq(c.kids, LAMBDA K : K.on /\ K.key \in mykeys), 1, tt, c.orc, c.n)
            goon == {r.subs[i].key : i \in 1..Len(r.subs)}
            \* the stepped instances are replaced by their new states; those that ended leave the list
            Upd(K) == IF K.key \in goon THEN r.subs[CHOOSE i \in 1..Len(r.subs) : r.subs[i].key = K.key] ELSE K
            kids2 == [i \in 1..Len(c.kids) |-> Upd(c.kids[i])]
            kids3 == SelectSeq(kids2, LAMBDA K : K.key \notin mykeys \/ K.key \in goon)
            c1 == [c EXCEPT !.out = c.out \o r.out, !.orc = r.orc, !.wl = c.wl \o r.wl, !.n = r.n, !.new = c.new \o r.new,
                            !.kids = kids3]
            f1 == [f EXCEPT !.keys = [i \in 1..Len(r.subs) |-> r.subs[i].key]]
        IN IF r.sig # "cont" THEN Sig(SetTop(c1, f1), r.sig)
           ELSE IF r.subs = <<>>
                THEN (LET c2 == Pop(c1) IN
                      IF c2.st # <<>> /\ Top(c2).k = "mod" THEN AfterInvoke(q, Pop(c2), tt) ELSE AfterInvoke(q, c2, tt))
                ELSE [SetTop(c1, f1) EXCEPT !.sig = "yield", !.acts = <<>>]

Run(q, c, tt) == IF c.sig # "run" THEN c ELSE Run(q, Micro(q, c, tt), tt)

\* resume a suspended (or fresh) coroutine for one time step
Resume(q, c, tt) ==
  LET c0 == [c EXCEPT !.out = <<>>, !.sig = "run", !.acts = <<>>]
  IN IF c.sig = "done" THEN [c0 EXCEPT !.sig = "done"]       \* a finished behaviour takes no actions
     ELSE IF c.sig = "yield" THEN Run(q, Walk(q, c0, 1, tt), tt)
     ELSE Run(q, c0, tt)

\* a behaviour continues after its random pick: item i of the offered options
AfterPick(q, c, i, tt) == Run(q, PickStep(q, [c EXCEPT !.out = <<>>], i, tt), tt)

\* ------------------------------------------------------------------ the time step
\* oracle scripts for one ScenarioStep / MonitorResume: at most C.orcmax picks among at most C.orcalt alternatives
\* (both 0 / 1 for cases whose compose blocks and monitors make no random pick: then Scripts = {<<>>})
Scripts == UNION {[1..n -> 1..C.orcalt] : n \in 0..C.orcmax}
NA == Len(C.agents)
Agents == {a \in 1..NA : C.agents[a] # 0}
NoInst == [s |-> 0, el |-> 0, on |-> FALSE, id |-> 0, key |-> 0, kids |-> <<>>, nk |-> 0,
           cor |-> Sig(NewCor(<<>>), "done"), mons |-> <<>>]

Init ==
  /\ cid \in 1..NC
  /\ t = 0 /\ phase = "setup" /\ ai = 0
  /\ beh = <<>> /\ top = NoInst /\ pend = [a \in 1..Len(Cases[cid].agents) |-> <<>>]
  /\ ev = <<>> /\ nexec = 0 /\ ntraj = 0 /\ flag = <<>> /\ ending = <<>>
  /\ ws = <<>> /\ pick = <<>>

End(type) == /\ ending' = <<type, t>> /\ phase' = "end"
\* rejections: a false `require` / a deadlocked choose ("reject"), or a guard violation
\* (which Simulator.simulate raises instead when raiseGuardViolations is set)
Rejections == {"reject", "guardpre", "guardinv"}
EndRej(kind) == /\ ending' = <<"rejected", t, kind>> /\ phase' = "end"

\* objects are created; the top-level scenario starts (its preconditions, then the behaviours of
\* its agents with their guards, then its monitors); dynamic properties are read back once
Setup ==
  /\ phase = "setup"
  /\ LET creates == [i \in 1..NA |-> <<"create", i>>]
         topbad == ScenPreSig(cid, C.top, 0) # "ok"
         bad == \E a \in Agents : ~GuardsOK(cid, C.agents[a], 0)
     IN /\ ev' = IF topbad \/ bad THEN creates ELSE Append(creates, <<"read", 0>>)
        /\ beh' = [a \in 1..NA |-> ObjCor(cid, C.agents[a], 0)]
        /\ top' = NewInst(cid, C.top)
        /\ IF topbad THEN EndRej(ScenPreSig(cid, C.top, 0)) /\ UNCHANGED ai
           ELSE IF bad
           THEN LET a == CHOOSE x \in Agents : ~GuardsOK(cid, C.agents[x], 0) /\ \A y \in Agents : y < x => GuardsOK(cid, C.agents[y], 0)
                IN EndRej(BehGuardSig(cid, C.agents[a], 0)) /\ UNCHANGED ai
           ELSE phase' = "scenario" /\ ending' = ending /\ ai' = 0
  /\ pend' = [a \in 1..NA |-> <<>>]
  /\ UNCHANGED <<cid, t, nexec, ntraj, flag, ws, pick>>

\* step 1: the running scenarios, parents before (and around) their children
ScenarioStep ==
  /\ phase = "scenario"
  /\ IF ~top.on THEN phase' = "record" /\ UNCHANGED <<top, ev, flag, ending>>
     ELSE \E sc \in Scripts :     \* the random picks made by compose blocks in this step
          LET r == ScenStep(cid, top, t, sc, Len(beh)) IN
          /\ r.sig \notin OrcFail /\ r.orc = <<>>
          /\ top' = r.inst /\ ev' = ev \o r.out /\ ws' = ws \o r.wl
          \* objects created by the setup blocks of sub-scenarios invoked in this step
          /\ beh' = beh \o [j \in 1..Len(r.new) |-> ObjCor(cid, r.new[j][1], r.new[j][2])]
          /\ pend' = pend \o [j \in 1..Len(r.new) |-> <<>>]
          /\ IF r.sig \in Rejections THEN EndRej(r.sig) /\ UNCHANGED flag
             ELSE /\ phase' = "record" /\ ending' = ending
                  /\ flag' = IF r.sig \in {"stop", "termsim"} THEN <<"scenarioComplete">> ELSE flag
  /\ top.on \/ (ws' = ws /\ beh' = beh /\ pend' = pend)
  /\ UNCHANGED <<cid, t, ai, nexec, ntraj, pick>>

\* step 2: record initial (at time 0) and record, a scenario's own before its sub-scenarios'; one trajectory state
RECURSIVE RecEvents(_, _, _, _), RecEventsSeq(_, _, _, _)
RecEvents(q, I, kd, tt) ==
  LET rs == SelectSeq(Sdef(q, I.s).records, LAMBDA r : r[1] = kd)
  IN [i \in 1..Len(rs) |-> <<"rec", rs[i][2], tt>>] \o RecEventsSeq(q, SubsOf(I), kd, tt)
RecEventsSeq(q, subs, kd, tt) ==
  IF subs = <<>> THEN <<>>
  ELSE (IF Head(subs).on THEN RecEvents(q, Head(subs), kd, tt) ELSE <<>>) \o RecEventsSeq(q, Tail(subs), kd, tt)
TopRecs(kd) == LET rs == SelectSeq(Sdef(cid, C.top).records, LAMBDA r : r[1] = kd)
               IN [i \in 1..Len(rs) |-> <<"rec", rs[i][2], t>>]
Record ==
  /\ phase = "record"
  /\ ev' = ev \o (IF t = 0 THEN (IF top.on THEN RecEvents(cid, top, "init", t) ELSE TopRecs("init")) ELSE <<>>)
              \o (IF top.on THEN RecEvents(cid, top, "rec", t) ELSE TopRecs("rec"))
  /\ ntraj' = ntraj + 1
  /\ phase' = "monitors" /\ ai' = 1
  /\ UNCHANGED <<cid, t, beh, top, pend, nexec, flag, ending, ws, pick>>

(* step 3: each monitor of each running scenario once: a scenario's own monitors, then those   *)
(* of its sub-scenarios.  require false -> rejection; terminate -> the scenario that           *)
(* instantiated the monitor stops (after all monitors have run); terminate simulation ->       *)
(* termination flag, the remaining monitors still run.                                          *)
\* (orc / wl: the oracle script for the monitors' random picks, threaded through the walk as in ScenStep)
RECURSIVE RunMons(_, _, _, _), RunMonList(_, _, _, _, _), RunMonSubs(_, _, _, _, _)
RunMonList(q, ms, i, tt, orc) ==   \* -> [ms, out, termsim, endscen, rej, orc, wl]
  IF i > Len(ms) THEN [ms |-> ms, out |-> <<>>, termsim |-> FALSE, endscen |-> FALSE, rej |-> "", orc |-> orc, wl |-> <<>>]
  ELSE LET c == Resume(q, [ms[i] EXCEPT !.orc = orc, !.wl = <<>>], tt)
           cs == [c EXCEPT !.orc = <<>>, !.wl = <<>>]      \* as stored
       IN
       IF c.sig \in Rejections \cup OrcFail
       THEN [ms |-> [ms EXCEPT ![i] = cs], out |-> c.out, termsim |-> FALSE, endscen |-> FALSE, rej |-> c.sig,
             orc |-> c.orc, wl |-> c.wl]
       ELSE LET r == RunMonList(q, [ms EXCEPT ![i] = cs], i + 1, tt, c.orc) IN
            [r EXCEPT !.out = c.out \o r.out, !.termsim = r.termsim \/ c.sig = "termsim",
                      !.endscen = r.endscen \/ c.sig = "terminate", !.wl = c.wl \o r.wl]
RunMonSubs(q, subs, i, tt, orc) ==  \* -> [subs, out, termsim, rej, orc, wl]
  IF i > Len(subs) THEN [subs |-> subs, out |-> <<>>, termsim |-> FALSE, rej |-> "", orc |-> orc, wl |-> <<>>]
  ELSE LET r == RunMons(q, subs[i], tt, orc) IN
       IF r.rej # "" THEN [subs |-> [subs EXCEPT ![i] = r.inst], out |-> r.out, termsim |-> FALSE, rej |-> r.rej,
                           orc |-> r.orc, wl |-> r.wl]
       ELSE LET rest == RunMonSubs(q, [subs EXCEPT ![i] = r.inst], i + 1, tt, r.orc) IN
            [rest EXCEPT !.out = r.out \o rest.out, !.termsim = rest.termsim \/ r.termsim, !.wl = r.wl \o rest.wl]
RunMons(q, I, tt, orc) ==   \* -> [inst, out, termsim, ended, rej, orc, wl]
  IF ~I.on THEN [inst |-> I, out |-> <<>>, termsim |-> FALSE, ended |-> FALSE, rej |-> "", orc |-> orc, wl |-> <<>>]
  ELSE LET a == RunMonList(q, I.mons, 1, tt, orc)
           I1 == [I EXCEPT !.mons = a.ms]
       IN IF a.rej # "" THEN [inst |-> I1, out |-> a.out, termsim |-> FALSE, ended |-> FALSE, rej |-> a.rej, orc |-> a.orc, wl |-> a.wl]
          ELSE LET b == RunMonSubs(q, SubsOf(I1), 1, tt, a.orc)
                   I2 == IF SubsOf(I1) = <<>> THEN I1 ELSE SetSubs(I1, b.subs)
               IN IF b.rej # "" THEN [inst |-> I2, out |-> a.out \o b.out, termsim |-> FALSE, ended |-> FALSE, rej |-> b.rej,
                                      orc |-> b.orc, wl |-> a.wl \o b.wl]
                  ELSE [inst |-> IF a.endscen THEN StopInst(I2) ELSE I2, out |-> a.out \o b.out,
                        termsim |-> a.termsim \/ b.termsim, ended |-> a.endscen, rej |-> "", orc |-> b.orc, wl |-> a.wl \o b.wl]
MonitorResume ==
  /\ phase = "monitors"
  /\ \E sc \in Scripts :      \* the random picks made by monitors in this step
     LET r == RunMons(cid, top, t, sc) IN
       /\ r.rej \notin OrcFail /\ r.orc = <<>>
       /\ top' = r.inst /\ ev' = ev \o r.out /\ ws' = ws \o r.wl
       /\ IF r.rej # "" THEN EndRej(r.rej) /\ UNCHANGED flag
          ELSE /\ phase' = "termination" /\ ending' = ending
               /\ flag' = IF r.termsim \/ r.ended THEN <<"terminatedByMonitor">> ELSE flag
  /\ UNCHANGED <<cid, t, beh, ai, pend, nexec, ntraj, pick>>

\* step 4: termination flag, terminate-simulation-when conditions (of every running scenario), step limit
RECURSIVE AnyTermSim(_, _, _), AnyTermSimSeq(_, _, _)
AnyTermSim(q, I, tt) == \/ \E i \in 1..Len(Sdef(q, I.s).termSimWhen) : Tab(q, Sdef(q, I.s).termSimWhen[i], tt)
                        \/ AnyTermSimSeq(q, SubsOf(I), tt)
AnyTermSimSeq(q, subs, tt) == subs # <<>> /\ ((Head(subs).on /\ AnyTermSim(q, Head(subs), tt)) \/ AnyTermSimSeq(q, Tail(subs), tt))
TopTermSim == IF top.on THEN AnyTermSim(cid, top, t)
              ELSE \E i \in 1..Len(Sdef(cid, C.top).termSimWhen) : Tab(cid, Sdef(cid, C.top).termSimWhen[i], t)
TerminationChecks ==
  /\ phase = "termination"
  /\ IF flag # <<>> THEN End(flag[1])
     ELSE IF TopTermSim THEN End("simulationTerminationCondition")
     ELSE IF C.maxSteps > 0 /\ t >= C.maxSteps THEN End("timeLimit")
     ELSE phase' = "behaviors" /\ ending' = ending
  /\ ai' = 1
  /\ ev' = IF flag = <<>> /\ ~TopTermSim /\ ~(C.maxSteps > 0 /\ t >= C.maxSteps)
           THEN Append(ev, <<"sched", t>>) ELSE ev
  /\ pend' = [a \in 1..Len(beh) |-> <<>>]
  /\ UNCHANGED <<cid, t, beh, top, nexec, ntraj, flag, ws, pick>>

\* the order the simulator returns for this step: the case's permutation for the step (entries of objects not
\* created yet are skipped), then any objects beyond it (created at run time), in creation order
SchedRow == C.sched[(t % Len(C.sched)) + 1]
Sched == SchedRow \o [j \in 1..(IF Len(beh) > Len(SchedRow) THEN Len(beh) - Len(SchedRow) ELSE 0) |-> Len(SchedRow) + j]

(* What follows the resumption of agent a's behaviour (coroutine c after the resume): a rejection; a  *)
(* pending random pick; `terminate simulation`, or `terminate` by an agent of the top-level scenario:  *)
(* the simulation ends; `terminate` by an agent created by a sub-scenario: that sub-scenario instance   *)
(* stops if it is still running (nothing happens otherwise) and the agent takes no action in this step; *)
(* otherwise the chosen actions are noted and the next agent of the schedule is resumed.                *)
AfterBeh(a, c) ==
  CASE c.sig \in Rejections ->
         /\ EndRej(c.sig) /\ beh' = [beh EXCEPT ![a] = c] /\ pick' = <<>> /\ UNCHANGED <<pend, ai, top>>
    [] c.sig = "pick" ->
         /\ beh' = [beh EXCEPT ![a] = c] /\ pick' = <<"beh", a>> /\ UNCHANGED <<pend, ai, phase, ending, top>>
    [] c.sig = "termsim" \/ (c.sig = "terminate" /\ c.own = 0) ->
         /\ End("terminatedByBehavior") /\ beh' = [beh EXCEPT ![a] = c] /\ pick' = <<>> /\ UNCHANGED <<pend, ai, top>>
    [] c.sig = "terminate" ->
         /\ top' = StopById(top, c.own)
         /\ beh' = [beh EXCEPT ![a] = [c EXCEPT !.sig = "yield", !.acts = <<>>, !.chk = TRUE]]
         /\ pend' = [pend EXCEPT ![a] = <<>>] /\ ai' = ai + 1 /\ pick' = <<>> /\ UNCHANGED <<phase, ending>>
    [] OTHER ->
         /\ beh' = [beh EXCEPT ![a] = c] /\ pend' = [pend EXCEPT ![a] = c.acts] /\ ai' = ai + 1
         /\ pick' = <<>> /\ UNCHANGED <<phase, ending, top>>

\* step 5: each agent's behaviour, exactly once, in schedule order
BehaviorResume ==
  /\ phase = "behaviors" /\ pick = <<>>
  /\ IF ai > Len(Sched)
     THEN phase' = "actions" /\ UNCHANGED <<beh, ev, pend, ending, ai, pick, top>>
     ELSE LET a == Sched[ai] IN
          IF a > Len(beh) \/ beh[a].d = 0      \* not created (yet), or an object without behaviour
          THEN ai' = ai + 1 /\ UNCHANGED <<beh, ev, pend, ending, phase, pick, top>>
          ELSE LET c == Resume(cid, beh[a], t) IN
               ev' = ev \o c.out /\ AfterBeh(a, c)
  /\ UNCHANGED <<cid, t, nexec, ntraj, flag, ws>>

\* a random pick requested by a behaviour (do choose / do shuffle / run-time distribution)
Pick ==
  /\ pick # <<>>
  /\ LET c == beh[pick[2]] IN
     \E i \in 1..PickCount(c) :
        LET c2 == AfterPick(cid, c, i, t) IN
        /\ ws' = Append(ws, PickWeight(c, i) \o <<i>>)   \* (the alternative taken is kept: two picks with the same
                                                         \*  observable outcome stay two behaviours, each with its weight)
        /\ ev' = ev \o c2.out
        /\ AfterBeh(pick[2], c2)
  /\ UNCHANGED <<cid, t, nexec, ntraj, flag>>

\* steps 6-9
ExecuteActions ==
  /\ phase = "actions"
  \* (the entries of the action dict are in schedule order: "the order of agents in the dict should be
  \*  respected in case the order of actions matters"; every scheduled agent with a behaviour has one)
  /\ ev' = Append(ev, <<"exec", t, pend, SelectSeq(Sched, LAMBDA a : a <= Len(beh) /\ beh[a].d # 0)>>) /\ nexec' = nexec + 1
  /\ phase' = "simstep"
  /\ UNCHANGED <<cid, t, beh, top, ai, pend, ntraj, flag, ending, ws, pick>>
SimulatorStep ==
  /\ phase = "simstep"
  /\ ev' = Append(ev, <<"simstep", t>>) /\ phase' = "tick"
  /\ UNCHANGED <<cid, t, beh, top, ai, pend, nexec, ntraj, flag, ending, ws, pick>>
Tick ==
  /\ phase = "tick" /\ t' = t + 1 /\ phase' = "update"
  /\ UNCHANGED <<cid, beh, top, ai, pend, ev, nexec, ntraj, flag, ending, ws, pick>>
UpdateObjects ==
  /\ phase = "update"
  /\ ev' = Append(ev, <<"read", t>>) /\ phase' = "scenario"
  /\ UNCHANGED <<cid, t, beh, top, ai, pend, nexec, ntraj, flag, ending, ws, pick>>

\* step 10: record final (not after a rejection)
Finish ==
  /\ phase = "end"
  /\ ev' = IF ending[1] = "rejected" THEN ev ELSE ev \o TopRecs("final")
  /\ phase' = "done"
  /\ UNCHANGED <<cid, t, beh, top, ai, pend, nexec, ntraj, flag, ending, ws, pick>>

Next == Setup \/ ScenarioStep \/ Record \/ MonitorResume \/ TerminationChecks \/ BehaviorResume
        \/ Pick \/ ExecuteActions \/ SimulatorStep \/ Tick \/ UpdateObjects \/ Finish
Spec == Init /\ [][Next]_vars

\* ------------------------------------------------------------------ properties
PhaseSucc == {<<"setup", "scenario">>, <<"setup", "end">>, <<"scenario", "record">>, <<"scenario", "end">>,
              <<"record", "monitors">>,
              <<"monitors", "termination">>, <<"monitors", "end">>, <<"termination", "behaviors">>,
              <<"termination", "end">>, <<"behaviors", "actions">>, <<"behaviors", "end">>,
              <<"actions", "simstep">>, <<"simstep", "tick">>, <<"tick", "update">>, <<"update", "scenario">>,
              <<"end", "done">>}
\* the documented order of a time step, and nothing runs after the ending
PhaseOrder == [][phase' # phase => <<phase, phase'>> \in PhaseSucc]_vars
ClockOnlyInTick == [][t' # t => phase = "tick" /\ t' = t + 1]_vars
NothingAfterEnding == [][ending # <<>> => (ending' = ending /\ beh' = beh /\ top' = top /\ nexec' = nexec /\ t' = t)]_vars
\* one trajectory state per started step, one action-log entry per executed step
OneEntryPerStep ==
  /\ t <= nexec /\ nexec <= t + 1
  /\ (phase \in {"scenario", "record", "monitors", "termination", "behaviors", "actions"}) => (nexec = t)
  /\ (phase \in {"monitors", "termination", "behaviors", "actions", "simstep", "tick"}) => (ntraj = t + 1)
  /\ (ending # <<>> /\ ending[1] # "rejected") => (nexec = t /\ ntraj = t + 1)
\* each agent is resumed at most once per step (its actions are set only in the behaviours phase)
EachAgentOncePerStep == [][\A a \in 1..Len(pend) : (pend'[a] # pend[a]) => (phase \in {"behaviors", "termination"})]_vars
WeightsAreProbabilities == \A i \in 1..Len(ws) : ws[i][1] > 0 /\ ws[i][1] <= ws[i][2]
StepBound == t <= C.maxSteps + 1

Emit1 == (phase = "done") =>
  PrintT(ToJson([cid |-> cid, ev |-> ev, ending |-> ending, nexec |-> nexec, ntraj |-> ntraj, ws |-> ws]))
=============================================================================
