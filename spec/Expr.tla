------------------------------- MODULE Expr -------------------------------
(* C05: expressions over random values evaluate as in plain Python on the       *)
(* samples; lazily evaluated arguments / defaults see the FINAL property values; *)
(* reported support intervals contain every reachable value.                    *)
(*                                                                              *)
(* A function specification: Eval gives every node of an expression DAG its     *)
(* plain-Python meaning (PyNum.tla) for an assignment of the random leaves.      *)
(* The meaning is written from the Python reference and the Scenic language      *)
(* reference (what a distribution / a class default / `X relative to F` denote), *)
(* never from scenic.core.distributions.  TLC enumerates every case of the batch *)
(* x every leaf assignment, checks the lemmas below as invariants and prints    *)
(* the expected value of every node (EmitRow) and the exact support (EmitCase). *)
(*                                                                              *)
(* A case (JSON, one per entry of Cases):                                        *)
(*   nodes : sequence in creation order; [k |-> kind, a |-> <<node ids>>, c |-> <<ints>>] *)
(*     const   c=<<num,den>>                                                     *)
(*     tuple list box   a=<<elements>>        (box = namedtuple Box(u, v))       *)
(*     drange  a=<<lo,hi>>      DiscreteRange: an integer in ceil(lo)..floor(hi)  *)
(*     uniform discrete  a=<<options>>        Uniform(..) / Discrete({..: w})     *)
(*     range   a=<<lo,hi>>      Range, scripted with the three values lo, mid, hi *)
(*     unistar a=<<T>>          Uniform( *T )                                     *)
(*     add sub mul truediv floordiv mod pow divmod   a=<<x,y>>                    *)
(*     neg pos abs len  a=<<x>>                                                  *)
(*     vmulx   a=<<a,b>>   the x coordinate of Vector(a, 2, 0) * b, i.e. a * b   *)
(*     getitem a=<<T,i>>        slice a=<<T,start,stop,step>> (0 = omitted)       *)
(*     attr    a=<<obj>> c=<<field>>                                             *)
(*     call    a=<<args>> c=<<fid, flag_1..flag_n>>   flag 0 positional, -1 starred, *)
(*                                               p > 0 keyword bound to parameter p *)
(*     meth    a=<<obj, args>> c=<<mid, flag_1..flag_n>>                          *)
(*     prop    c=<<p>>          self.p inside a class default                     *)
(*     rel     c=<<num,den,p>>  (k relative to F).yaw with F[pos] = pos.x: k + final value of p *)
(*   np    : number of properties (0 for a plain expression case)                *)
(*   defs  : per class of the chain, most derived first: <<node id or 0 per property>> *)
(*   withs : <<node id or 0 per property>>  (value given by a specifier of the object) *)
EXTENDS Integers, Sequences, FiniteSets, TLC, Json, IOUtils, PyNum

Cases == JsonDeserialize(IOEnv.CASES)
NC == Len(Cases)
NN(q) == Len(Cases[q].nodes)
Kind(q, n) == Cases[q].nodes[n].k
Args(q, n) == Cases[q].nodes[n].a
Cst(q, n) == Cases[q].nodes[n].c

\* ------------------------------------------------------------------ values
\*  <<"n", num, den>>  number      <<"t", <<..>>>> plain tuple      <<"l", <<..>>>> list
\*  <<"b", <<u, v>>>>  namedtuple Box(u, v): a tuple for ==, +, slicing, unpacking, but with
\*                     attributes and methods -- the container TYPE is part of the value
\*  <<"e", 1>> plain Python raises     <<"e", 2>> outside the exact universe of this spec
\*  <<"u">> not determined yet (an undrawn leaf below)      <<"none">> omitted operand
MaxNum == 30000
MaxDen == 64
MaxExp == 4
ErrPy == <<"e", 1>>
ErrOut == <<"e", 2>>
U == <<"u">>
None == <<"none">>
Num(x) == IF IAbs(x[1]) > MaxNum \/ x[2] > MaxDen THEN ErrOut ELSE <<"n", x[1], x[2]>>
NumI(i) == Num(QInt(i))
Bool(b) == IF b THEN <<"n", 1, 1>> ELSE <<"n", 0, 1>>
Q(v) == <<v[2], v[3]>>
IsN(v) == v[1] = "n"
IsSeq(v) == v[1] = "t" \/ v[1] = "l" \/ v[1] = "b"
IsTup(v) == v[1] = "t" \/ v[1] = "b"
IsErr(v) == v[1] = "e"
IsU(v) == v[1] = "u"
IsNone(v) == v[1] = "none"
AllN(s) == \A i \in 1..Len(s) : IsN(s[i])

\* ------------------------------------------------------------------ operators on numbers
Arith(op, x, y) ==
  CASE op = "add" -> Num(QAdd(x, y))
    [] op = "sub" -> Num(QSub(x, y))
    [] op = "mul" -> Num(QMul(x, y))
    [] op = "truediv" -> IF y[1] = 0 THEN ErrPy
                         ELSE LET r == QDiv(x, y) IN IF IsPow2(r[2]) THEN Num(r) ELSE ErrOut
    [] op = "floordiv" -> IF y[1] = 0 THEN ErrPy ELSE Num(QFloorDiv(x, y))
    [] op = "mod" -> IF y[1] = 0 THEN ErrPy ELSE Num(QMod(x, y))
    [] op = "divmod" -> IF y[1] = 0 THEN ErrPy
                        ELSE LET a == Num(QFloorDiv(x, y))  b == Num(QMod(x, y))
                             IN IF IsErr(a) THEN a ELSE <<"t", <<a, b>>>>
    [] op = "pow" -> IF ~QIsInt(y) \/ IAbs(y[1]) > MaxExp \/ IAbs(x[1]) > 64 THEN ErrOut
                     ELSE IF y[1] >= 0 THEN Num(QPow(x, y[1]))
                     ELSE IF x[1] = 0 THEN ErrPy
                     ELSE LET r == QInv(QPow(x, -y[1])) IN IF IsPow2(r[2]) THEN Num(r) ELSE ErrOut

BinOp(op, vx, vy) ==
  IF IsN(vx) /\ IsN(vy) THEN Arith(op, Q(vx), Q(vy))
  ELSE IF op = "add" /\ IsSeq(vx) /\ IsSeq(vy)
       THEN (IF vx[1] = "l" /\ vy[1] = "l" THEN <<"l", vx[2] \o vy[2]>>
             ELSE IF IsTup(vx) /\ IsTup(vy) THEN <<"t", vx[2] \o vy[2]>>      \* namedtuple + tuple: a plain tuple
             ELSE ErrPy)                                                    \* tuple + list: TypeError
  ELSE IF op = "mul" THEN ErrOut                                           \* sequence repetition: not modelled
  ELSE ErrPy

UnOp(op, vx) ==
  IF ~IsN(vx) THEN ErrPy
  ELSE CASE op = "neg" -> Num(QNeg(Q(vx)))
         [] op = "pos" -> vx
         [] op = "abs" -> Num(QAbs(Q(vx)))

\* ------------------------------------------------------------------ sequences
\* CPython PySlice_AdjustIndices + the index walk; s, e, st are values (number or None)
RECURSIVE Walk(_, _, _)
Walk(i, stop, step) == IF (step > 0 /\ i >= stop) \/ (step < 0 /\ i <= stop) THEN <<>>
                       ELSE <<i>> \o Walk(i + step, stop, step)
SliceIdx(len, s, e, st) ==
  LET step == IF IsNone(st) THEN 1 ELSE st[2]
      lower == IF step < 0 THEN -1 ELSE 0
      upper == IF step < 0 THEN len - 1 ELSE len
      start == IF IsNone(s) THEN (IF step < 0 THEN upper ELSE lower)
               ELSE IF s[2] < 0 THEN IMax(s[2] + len, lower) ELSE IMin(s[2], upper)
      stop ==  IF IsNone(e) THEN (IF step < 0 THEN lower ELSE upper)
               ELSE IF e[2] < 0 THEN IMax(e[2] + len, lower) ELSE IMin(e[2], upper)
  IN Walk(start, stop, step)

\* ------------------------------------------------------------------ calls
RECURSIVE PosArgs(_, _, _)
PosArgs(fl, cv, i) ==
  IF i > Len(cv) THEN <<>>
  ELSE (IF fl[i] = 0 THEN <<cv[i]>> ELSE IF fl[i] = -1 THEN cv[i][2] ELSE <<>>) \o PosArgs(fl, cv, i + 1)
KwSet(fl, p) == {i \in 1..Len(fl) : fl[i] = p}
\* Python argument binding for a function of `arity` parameters with the given defaults
\* (None = required).  Result: the parameter vector, or <<>> when Python raises TypeError.
Bind(arity, defaults, fl, cv) ==
  IF \E i \in 1..Len(cv) : fl[i] = -1 /\ ~IsSeq(cv[i]) THEN <<>>
  ELSE LET pos == PosArgs(fl, cv, 1) IN
    IF Len(pos) > arity THEN <<>>
    ELSE IF \E p \in 1..Len(pos) : KwSet(fl, p) # {} THEN <<>>           \* multiple values for an argument
    ELSE IF \E i \in 1..Len(fl) : fl[i] > arity THEN <<>>
    ELSE LET P == [p \in 1..arity |->
                    IF p <= Len(pos) THEN pos[p]
                    ELSE IF KwSet(fl, p) # {} THEN cv[CHOOSE i \in KwSet(fl, p) : TRUE]
                    ELSE defaults[p]]
         IN IF \E p \in 1..arity : IsNone(P[p]) THEN <<>> ELSE P

Lin(a, b, c) == \* a + 10*b + 100*c : the body of the user functions of the generated programs
  Num(QAdd(Q(a), QAdd(QMul(QInt(10), Q(b)), QMul(QInt(100), Q(c)))))

RECURSIVE FoldMax(_, _), FoldMin(_, _)
FoldMax(s, i) == IF i = Len(s) THEN Q(s[i]) ELSE QMax(Q(s[i]), FoldMax(s, i + 1))
FoldMin(s, i) == IF i = Len(s) THEN Q(s[i]) ELSE QMin(Q(s[i]), FoldMin(s, i + 1))

\* == between sequences is decided here only for list/list and tuple-like/tuple-like
SameSeqKind(x, y) == (x[1] = "l" /\ y[1] = "l") \/ (IsTup(x) /\ IsTup(y))
\* Horner: digits(d1, .., dn) = ((d1 * 10 + d2) * 10 + ..) + dn -- order-sensitive in every position
RECURSIVE Dig(_, _, _)
Dig(s, i, acc) == IF i > Len(s) \/ IAbs(acc[1]) > MaxNum THEN acc      \* too large: Num() turns it into ErrOut
                  ELSE Dig(s, i + 1, QAdd(QMul(QInt(10), acc), Q(s[i])))
RECURSIVE CountEq(_, _, _)
CountEq(s, x, i) == IF i > Len(s) THEN 0 ELSE (IF s[i] = x THEN 1 ELSE 0) + CountEq(s, x, i + 1)

Cmp(fid, x, y) ==
  CASE fid = 4 -> QLt(x, y) [] fid = 5 -> QLe(x, y) [] fid = 6 -> x = y
    [] fid = 7 -> x # y     [] fid = 8 -> QLt(y, x) [] fid = 9 -> QLe(y, x)

\*  1 vsum(a, b=0, c=0) = a + 10*b + 100*c      2 max(..)   3 min(..)
\*  4..9 vlt vle veq vne vgt vge (a, b)          10 vite(c, a, b=0) = a if c else b
\*  11 hypot(a, b)   12 int(x)   13 round(x[, 0])   14 float(x)
\*  15 vdig( *ds ) = digits(ds)   16 vcat(a, b) = a + b   17 vkind(s) = 0 number, 1 tuple, 2 list, 3 Box
\*  18 vcount(s, x) = s.count(x)
Fn(fid, fl, cv) ==
  CASE fid = 1 -> LET P == Bind(3, <<None, NumI(0), NumI(0)>>, fl, cv)
                  IN IF P = <<>> \/ ~AllN(P) THEN ErrPy ELSE Lin(P[1], P[2], P[3])
    [] fid \in {2, 3} ->
         IF \E i \in 1..Len(fl) : fl[i] > 0 THEN ErrOut
         ELSE IF \E i \in 1..Len(cv) : fl[i] = -1 /\ ~IsSeq(cv[i]) THEN ErrPy
         ELSE LET pos == PosArgs(fl, cv, 1)
                  xs == IF Len(pos) = 1 /\ IsSeq(pos[1]) THEN pos[1][2] ELSE pos
              IN IF Len(pos) = 0 \/ Len(xs) = 0 THEN ErrPy           \* TypeError / ValueError (empty)
                 ELSE IF Len(pos) = 1 /\ ~IsSeq(pos[1]) THEN ErrPy   \* max(3): not iterable
                 ELSE IF ~AllN(xs) THEN ErrOut
                 ELSE IF fid = 2 THEN Num(FoldMax(xs, 1)) ELSE Num(FoldMin(xs, 1))
    [] fid \in 4..9 -> LET P == Bind(2, <<None, None>>, fl, cv)
                       IN IF P = <<>> THEN ErrPy
                          ELSE IF AllN(P) THEN Bool(Cmp(fid, Q(P[1]), Q(P[2])))
                          ELSE IF fid = 6 /\ SameSeqKind(P[1], P[2]) THEN Bool(P[1][2] = P[2][2])
                          ELSE IF fid = 7 /\ SameSeqKind(P[1], P[2]) THEN Bool(P[1][2] # P[2][2])
                          ELSE ErrOut
    [] fid = 10 -> LET P == Bind(3, <<None, None, NumI(0)>>, fl, cv)
                   IN IF P = <<>> THEN ErrPy
                      ELSE IF ~IsN(P[1]) THEN ErrOut
                      ELSE IF P[1][2] # 0 THEN P[2] ELSE P[3]
    [] fid = 11 -> LET P == Bind(2, <<None, None>>, fl, cv)
                   IN IF P = <<>> \/ ~AllN(P) THEN ErrPy
                      ELSE IF ~QIsInt(Q(P[1])) \/ ~QIsInt(Q(P[2])) \/ IAbs(P[1][2]) > 100 \/ IAbs(P[2][2]) > 100 THEN ErrOut
                      ELSE LET r == ISqrtExact(P[1][2] * P[1][2] + P[2][2] * P[2][2])
                           IN IF r < 0 THEN ErrOut ELSE NumI(r)
    [] fid = 12 -> LET P == Bind(1, <<None>>, fl, cv)
                   IN IF P = <<>> \/ ~AllN(P) THEN ErrPy ELSE NumI(QTrunc(Q(P[1])))
    [] fid = 13 -> LET P == Bind(2, <<None, <<"dflt">>>>, fl, cv)
                   IN IF P = <<>> \/ ~IsN(P[1]) THEN ErrPy
                      ELSE IF P[2][1] = "dflt" THEN NumI(QRound(Q(P[1])))
                      ELSE IF IsN(P[2]) /\ P[2][2] = 0 /\ P[2][3] = 1 THEN NumI(QRound(Q(P[1])))   \* round(x, 0)
                      ELSE ErrOut
    [] fid = 14 -> LET P == Bind(1, <<None>>, fl, cv)
                   IN IF P = <<>> \/ ~AllN(P) THEN ErrPy ELSE P[1]
    [] fid = 15 -> IF \E i \in 1..Len(fl) : fl[i] > 0 THEN ErrPy
                   ELSE IF \E i \in 1..Len(cv) : fl[i] = -1 /\ ~IsSeq(cv[i]) THEN ErrPy
                   ELSE LET pos == PosArgs(fl, cv, 1)
                        IN IF ~AllN(pos) THEN ErrPy ELSE Num(Dig(pos, 1, <<0, 1>>))
    [] fid = 16 -> LET P == Bind(2, <<None, None>>, fl, cv)
                   IN IF P = <<>> THEN ErrPy ELSE BinOp("add", P[1], P[2])
    [] fid = 17 -> LET P == Bind(1, <<None>>, fl, cv)
                   IN IF P = <<>> THEN ErrPy
                      ELSE NumI(CASE P[1][1] = "n" -> 0 [] P[1][1] = "t" -> 1 [] P[1][1] = "l" -> 2 [] P[1][1] = "b" -> 3)
    [] fid = 18 -> LET P == Bind(2, <<None, None>>, fl, cv)
                   IN IF P = <<>> \/ ~IsSeq(P[1]) THEN ErrPy
                      ELSE IF ~IsN(P[2]) \/ ~AllN(P[1][2]) THEN ErrOut
                      ELSE NumI(CountEq(P[1][2], P[2], 1))

\* methods of Box(u, v):  1  f(self, a, b=0) = self.u + 10*a + 100*b     2  g(..) = self.v + 10*a + 100*b
\*   3  h(self, *ds) = digits(self.u, *ds)   4  k(self, *ds) = digits(self.v, *ds)   (g, k: @distributionMethod)
\* a plain tuple has neither attributes nor methods (AttributeError)
IsBox(v) == v[1] = "b" /\ Len(v[2]) = 2 /\ AllN(v[2])
Meth(mid, fl, cv) ==
  LET obj == cv[1]
      rest == Tail(cv)
  IN IF ~IsBox(obj) THEN ErrPy
     ELSE IF mid \in {1, 2}
          THEN LET P == Bind(2, <<None, NumI(0)>>, fl, rest)
               IN IF P = <<>> \/ ~AllN(P) THEN ErrPy
                  ELSE Lin(obj[2][IF mid = 1 THEN 1 ELSE 2], P[1], P[2])
     ELSE IF \E i \in 1..Len(fl) : fl[i] > 0 THEN ErrPy
     ELSE IF \E i \in 1..Len(rest) : fl[i] = -1 /\ ~IsSeq(rest[i]) THEN ErrPy
     ELSE LET pos == PosArgs(fl, rest, 1)
          IN IF ~AllN(pos) THEN ErrPy
             ELSE Num(Dig(<<obj[2][IF mid = 3 THEN 1 ELSE 2]>> \o pos, 1, <<0, 1>>))

\* ------------------------------------------------------------------ static typing
\* Nodes whose Python value is statically an `int` (needed where Python insists on an
\* integer: sequence indices and slice bounds; a float index is a TypeError).  The case
\* carries the annotation `it` (1 = claimed int); AnnotOK checks every claim against the
\* typing rule, locally (operands precede a node, so local consistency is soundness).
\* (TLC caches only constant definitions that do not depend on RECURSIVE operators, hence
\* an annotation that is checked rather than a recursively computed table.)
IT(q, n) == Cases[q].it[n] = 1
IntRule(q, m) ==
  LET a == Args(q, m)  kd == Kind(q, m)
      all == \A i \in 1..Len(a) : a[i] # 0 /\ IT(q, a[i])
  IN CASE kd = "const" -> Cst(q, m)[2] = 1
       [] kd = "drange" -> TRUE
       [] kd \in {"uniform", "discrete", "add", "sub", "mul", "floordiv", "mod", "neg", "pos", "abs"} -> all
       [] kd = "len" -> TRUE
       [] kd = "call" -> LET fid == Cst(q, m)[1] IN
                           \/ fid \in 4..9 \/ fid = 12
                           \/ (fid = 13 /\ Len(a) = 1)
                           \/ (fid \in {1, 2, 3, 10} /\ all /\ \A i \in 1..Len(a) : Cst(q, m)[i + 1] # -1)
       [] OTHER -> FALSE
AnnotOK(q) == \A m \in 1..NN(q) : IT(q, m) => IntRule(q, m)

\* ------------------------------------------------------------------ objects: final definitions
\* The value of property p of the object under construction is given by the specifier that
\* wins: an explicit specifier if there is one, otherwise the default of the most derived
\* class defining p.  (Language reference, "Specifier resolution" / class definitions.)
FirstDef(q, p) ==
  LET L == {lvl \in 1..Len(Cases[q].defs) : Cases[q].defs[lvl][p] # 0}
  IN IF L = {} THEN 0 ELSE Cases[q].defs[CHOOSE l \in L : \A m \in L : l <= m][p]
FinalDef(q, p) == IF Cases[q].withs[p] # 0 THEN Cases[q].withs[p] ELSE FirstDef(q, p)
Finals(q) == [p \in 1..Cases[q].np |-> FinalDef(q, p)]

\* ------------------------------------------------------------------ evaluation
Primitive(q, n) == Kind(q, n) \in {"drange", "uniform", "discrete", "range", "unistar"}
Prims(q) == {n \in 1..NN(q) : Primitive(q, n)}

ChildVals(q, n, v) == [i \in 1..Len(Args(q, n)) |-> IF Args(q, n)[i] = 0 THEN None ELSE v[Args(q, n)[i]]]
\* strictness: an undetermined operand makes the node undetermined, an error propagates
Bad(cv) == IF \E i \in 1..Len(cv) : IsU(cv[i]) THEN U
           ELSE IF \E i \in 1..Len(cv) : IsErr(cv[i])
                THEN cv[CHOOSE i \in 1..Len(cv) : IsErr(cv[i]) /\ \A j \in 1..(i - 1) : ~IsErr(cv[j])]
           ELSE None

\* the value chosen at a leaf: x is the drawn integer (drange) or the index of the alternative
PrimValue(q, n, cv, x) ==
  LET kd == Kind(q, n) IN
  CASE kd = "drange" -> NumI(x)
    [] kd \in {"uniform", "discrete"} -> cv[x]
    [] kd = "range" -> IF x = 1 THEN cv[1] ELSE IF x = 3 THEN cv[2]
                       ELSE Num(QMul(<<1, 2>>, QAdd(Q(cv[1]), Q(cv[2]))))
    [] kd = "unistar" -> cv[1][2][x]
\* static well-formedness of a leaf's operands (beyond strictness)
PrimOperandsOK(q, n, cv) ==
  LET kd == Kind(q, n) IN
  CASE kd \in {"drange", "range"} -> AllN(cv)
    [] kd = "unistar" -> IsSeq(cv[1])
    [] OTHER -> TRUE
\* admissible draws of leaf n given the values v of its operands
Supp(q, n, v) ==
  LET kd == Kind(q, n)  cv == ChildVals(q, n, v) IN
  CASE kd = "drange" -> QCeil(Q(cv[1])) .. QFloor(Q(cv[2]))
    [] kd \in {"uniform", "discrete"} -> 1..Len(cv)
    [] kd = "range" -> IF cv[1] = cv[2] THEN {1} ELSE {1, 2, 3}
    [] kd = "unistar" -> 1..Len(cv[1][2])

\* dev = TRUE evaluates with the named as-implemented deviation FloorDivOneIdentity
\* (see the end of the module); the ideal semantics is dev = FALSE.
IsConstOne(q, n) == n # 0 /\ Kind(q, n) = "const" /\ Cst(q, n) = <<1, 1>>
Det(q, n, v, prev, dev) ==
  LET a == Args(q, n)  c == Cst(q, n)  kd == Kind(q, n)
      cv == ChildVals(q, n, v)
      bad == Bad(cv)
  IN
  IF kd = "const" THEN Num(c)
  ELSE IF kd = "prop" THEN prev[FinalDef(q, c[1])]
  ELSE IF kd = "rel" THEN LET w == prev[FinalDef(q, c[3])]
                          IN IF IsU(w) \/ IsErr(w) THEN w
                             ELSE IF ~IsN(w) THEN ErrPy ELSE Num(QAdd(<<c[1], c[2]>>, Q(w)))
  ELSE IF ~IsNone(bad) THEN bad
  \* TLCEval: store the elements, not an unevaluated [i \in .. |-> ..] that keeps its whole context alive
  ELSE CASE kd = "tuple" -> <<"t", TLCEval(cv)>>
         [] kd = "box" -> <<"b", TLCEval(cv)>>
         [] kd = "list" -> <<"l", TLCEval(cv)>>
         [] kd \in {"add", "sub", "mul", "truediv", "mod", "pow", "divmod"} -> BinOp(kd, cv[1], cv[2])
         [] kd = "floordiv" -> IF dev /\ IsConstOne(q, a[2]) /\ IsN(cv[1]) THEN cv[1] ELSE BinOp(kd, cv[1], cv[2])
         [] kd = "vmulx" -> IF IsN(cv[1]) /\ IsN(cv[2]) THEN BinOp("mul", cv[1], cv[2]) ELSE ErrPy   \* (Vector(a, 2, 0) * b).x
         [] kd \in {"neg", "pos", "abs"} -> UnOp(kd, cv[1])
         [] kd = "len" -> IF IsSeq(cv[1]) THEN NumI(Len(cv[1][2])) ELSE ErrPy
         [] kd = "getitem" ->
              IF ~IsSeq(cv[1]) THEN ErrOut
              ELSE IF ~IsN(cv[2]) THEN ErrPy
              ELSE IF ~IT(q, a[2]) \/ cv[2][3] # 1 THEN ErrOut
              ELSE LET len == Len(cv[1][2])
                       i == IF cv[2][2] < 0 THEN cv[2][2] + len ELSE cv[2][2]
                   IN IF i < 0 \/ i >= len THEN ErrPy ELSE cv[1][2][i + 1]
         [] kd = "slice" ->
              IF ~IsSeq(cv[1]) THEN ErrOut
              ELSE IF \E i \in 2..4 : ~IsNone(cv[i]) /\ (~IsN(cv[i]) \/ ~IT(q, a[i])) THEN ErrOut
              ELSE IF ~IsNone(cv[4]) /\ cv[4][2] = 0 THEN ErrPy                  \* slice step cannot be zero
              ELSE LET idx == SliceIdx(Len(cv[1][2]), cv[2], cv[3], cv[4])
                   IN <<IF cv[1][1] = "l" THEN "l" ELSE "t", TLCEval([j \in 1..Len(idx) |-> cv[1][2][idx[j] + 1]])>>
         [] kd = "attr" -> IF cv[1][1] = "b" /\ c[1] <= Len(cv[1][2]) THEN cv[1][2][c[1]] ELSE ErrPy
         [] kd = "call" -> Fn(c[1], Tail(c), cv)
         [] kd = "meth" -> Meth(c[1], Tail(c), cv)

\* one pass over the nodes in creation order; asg/drawn give the leaves drawn so far;
\* prop / rel nodes read the previous pass (they may refer forward)
RECURSIVE EvalPass(_, _, _, _, _, _)
EvalPass(q, m, asg, drawn, prev, dev) ==
  IF m = 0 THEN <<>>
  ELSE LET v == EvalPass(q, m - 1, asg, drawn, prev, dev) IN
       IF Primitive(q, m)
       THEN LET cv == ChildVals(q, m, v)  bad == Bad(cv) IN
            Append(v, IF ~IsNone(bad) THEN bad
                      ELSE IF ~PrimOperandsOK(q, m, cv) THEN ErrPy
                      ELSE IF m \in drawn THEN PrimValue(q, m, cv, asg[m])
                      ELSE U)
       ELSE Append(v, Det(q, m, v, prev, dev))
AllU(q) == [n \in 1..NN(q) |-> U]
RECURSIVE Iterate(_, _, _, _, _)
Iterate(q, k, asg, drawn, dev) == IF k = 0 THEN AllU(q)
                                  ELSE EvalPass(q, NN(q), asg, drawn, Iterate(q, k - 1, asg, drawn, dev), dev)
\* plain cases are evaluated in one pass; object cases need at most np + 1 passes
Passes(q) == IF Cases[q].np = 0 THEN 1 ELSE Cases[q].np + 2
Eval(q, asg, drawn) == Iterate(q, Passes(q), asg, drawn, FALSE)
EvalDev(q, asg, drawn) == Iterate(q, Passes(q), asg, drawn, TRUE)

\* leaves that can be drawn now: undetermined, all operands determined
Ready(q, v, drawn) == {n \in Prims(q) \ drawn : IsU(v[n]) /\ \A i \in 1..Len(Args(q, n)) : ~IsU(v[Args(q, n)[i]])}
SetMin(S) == CHOOSE x \in S : \A y \in S : x <= y
Asg0(q) == [n \in 1..NN(q) |-> 0]

\* ------------------------------------------------------------------ denotation: all complete evaluations
RejVec == <<<<"r">>>>
\* every complete evaluation as a record [v |-> values of all nodes, a |-> draws, d |-> drawn leaves];
\* a branch on which a leaf has an empty support contributes [v |-> RejVec, ..]
RECURSIVE Complete(_, _, _)
Complete(q, asg, drawn) ==
  LET v == Eval(q, asg, drawn)  r == Ready(q, v, drawn) IN
  IF r = {} THEN {[v |-> v, a |-> asg, d |-> drawn]}
  ELSE LET p == SetMin(r)  s == Supp(q, p, v) IN
       IF s = {} THEN {[v |-> RejVec, a |-> asg, d |-> drawn]}
       ELSE UNION {Complete(q, [asg EXCEPT ![p] = x], drawn \cup {p}) : x \in s}
\* The denotation of case q, computed once (in Init) and carried in the state:
\*   all : every complete evaluation         ok / why : the well-formedness verdict
\*   sup : exact support <<min, max>> of every numeric node (<<>> for the others)
\* A case is inside the quantifier iff no evaluation rejects, raises, or leaves the exact universe.
QSetMin(S) == CHOOSE x \in S : \A y \in S : QLe(x, y)
QSetMax(S) == CHOOSE x \in S : \A y \in S : QLe(y, x)
Den(q) ==
  LET recs == Complete(q, Asg0(q), {})
      all == {r.v : r \in recs}
      ok == /\ AnnotOK(q)
            /\ \A v \in all : v # RejVec /\ \A n \in 1..Len(v) : ~IsErr(v[n]) /\ ~IsU(v[n])
      why == IF ok THEN "ok"
             ELSE IF ~AnnotOK(q) THEN "bad-annotation"
             ELSE IF RejVec \in all THEN "empty-support"
             ELSE IF \E v \in all : \E n \in 1..Len(v) : v[n] = ErrPy THEN "python-raises"
             ELSE IF \E v \in all : \E n \in 1..Len(v) : IsU(v[n]) THEN "cyclic"
             ELSE "outside-exact-universe"
      sup == IF ~ok THEN <<>> ELSE
               [n \in 1..NN(q) |-> IF \A v \in all : IsN(v[n])
                                   THEN LET S == {Q(v[n]) : v \in all} IN <<QSetMin(S), QSetMax(S)>>
                                   ELSE <<>>]
  IN [recs |-> recs, all |-> all, n |-> Cardinality(all), ok |-> ok, why |-> why, sup |-> sup]

\* ------------------------------------------------------------------ construction rewrites
\* The algebraic simplifications a library may perform when an expression is BUILT, each
\* with the side condition under which it is an identity in Python.  RewriteSound is
\* checked on every value of SmallQ; SideConditionsNeeded shows each side condition is
\* not vacuous; NonRules are look-alikes that are not identities at all.
Rules == <<
  [name |-> "x+0",  op |-> "add",      side |-> "R", c |-> <<0, 1>>, cond |-> "always"],
  [name |-> "0+x",  op |-> "add",      side |-> "L", c |-> <<0, 1>>, cond |-> "always"],
  [name |-> "x-0",  op |-> "sub",      side |-> "R", c |-> <<0, 1>>, cond |-> "always"],
  [name |-> "x*1",  op |-> "mul",      side |-> "R", c |-> <<1, 1>>, cond |-> "always"],
  [name |-> "1*x",  op |-> "mul",      side |-> "L", c |-> <<1, 1>>, cond |-> "always"],
  [name |-> "x/1",  op |-> "truediv",  side |-> "R", c |-> <<1, 1>>, cond |-> "always"],
  [name |-> "x//1", op |-> "floordiv", side |-> "R", c |-> <<1, 1>>, cond |-> "integer"],
  [name |-> "x**1", op |-> "pow",      side |-> "R", c |-> <<1, 1>>, cond |-> "always"] >>
NonRules == <<
  [name |-> "0-x",  op |-> "sub",      side |-> "L", c |-> <<0, 1>>],
  [name |-> "1/x",  op |-> "truediv",  side |-> "L", c |-> <<1, 1>>],
  [name |-> "1//x", op |-> "floordiv", side |-> "L", c |-> <<1, 1>>],
  [name |-> "1**x", op |-> "pow",      side |-> "L", c |-> <<1, 1>>],
  [name |-> "x%1",  op |-> "mod",      side |-> "R", c |-> <<1, 1>>],
  [name |-> "x*0",  op |-> "mul",      side |-> "R", c |-> <<0, 1>>],
  [name |-> "x**0", op |-> "pow",      side |-> "R", c |-> <<0, 1>>] >>
RuleCond(r, x) == IF r.cond = "integer" THEN QIsInt(x) ELSE TRUE
RuleLhs(r, x) == IF r.side = "R" THEN BinOp(r.op, Num(x), Num(r.c)) ELSE BinOp(r.op, Num(r.c), Num(x))
ASSUME SideConditionsNeeded ==
  \A i \in 1..Len(Rules) : Rules[i].cond # "always" =>
        \E x \in SmallQ : ~RuleCond(Rules[i], x) /\ RuleLhs(Rules[i], x) # Num(x)
ASSUME NonRulesAreNotIdentities ==
  \A i \in 1..Len(NonRules) : \E x \in SmallQ : RuleLhs(NonRules[i], x) # Num(x)

\* ------------------------------------------------------------------ as-implemented deviations (known findings)
\* FloorDivOneIdentity: the library applies "x//1 -> x" without its side condition.
\* Trigger: a floordiv node whose right operand is the constant 1 and whose left operand
\* takes a non-integer value in this evaluation.
FloorDivOneTrigger(q, v) ==
  \E n \in 1..NN(q) : Kind(q, n) = "floordiv" /\ IsConstOne(q, Args(q, n)[2])
                      /\ IsN(v[Args(q, n)[1]]) /\ v[Args(q, n)[1]][3] # 1
\* KwargLazy: a call on a random receiver (an OperatorDistribution "__call__") with a keyword
\* operand, some operand of which needs lazy evaluation (depends on a rel / prop node).
RECURSIVE LazyUpTo(_, _)
LazyUpTo(q, m) == IF m = 0 THEN <<>>
                  ELSE LET t == LazyUpTo(q, m - 1) IN
                       Append(t, Kind(q, m) \in {"rel", "prop"}
                                 \/ \E i \in 1..Len(Args(q, m)) : Args(q, m)[i] # 0 /\ t[Args(q, m)[i]])
RECURSIVE RandomUpTo(_, _)
RandomUpTo(q, m) == IF m = 0 THEN <<>>
                    ELSE LET t == RandomUpTo(q, m - 1) IN
                         Append(t, Primitive(q, m)
                                   \/ \E i \in 1..Len(Args(q, m)) : Args(q, m)[i] # 0 /\ t[Args(q, m)[i]])
KwargLazyTrigger(q) ==
  LET lz == LazyUpTo(q, NN(q))  rd == RandomUpTo(q, NN(q)) IN
  \E n \in 1..NN(q) : /\ Kind(q, n) = "meth" /\ lz[n] /\ rd[Args(q, n)[1]]
                      /\ \E i \in 2..Len(Cst(q, n)) : Cst(q, n)[i] > 0
\* ConstLeftConcat: a plain Python sequence (a literal, possibly holding random elements, or a
\* concatenation / constant slice of literals) + a random sequence: reflected __radd__ on the
\* sampled tuple / list
RECURSIVE PlainUpTo(_, _)
PlainUpTo(q, m) == IF m = 0 THEN <<>>
                   ELSE LET t == PlainUpTo(q, m - 1)  a == Args(q, m)  kd == Kind(q, m) IN
                        Append(t, \/ kd \in {"tuple", "list", "box"}
                                  \/ (kd = "add" /\ t[a[1]] /\ t[a[2]])
                                  \/ (kd = "slice" /\ t[a[1]] /\ \A i \in 2..4 : a[i] = 0 \/ Kind(q, a[i]) = "const"))
ConstLeftConcatTrigger(q) ==
  LET rd == RandomUpTo(q, NN(q))  pl == PlainUpTo(q, NN(q)) IN
  \E n \in 1..NN(q) : /\ Kind(q, n) = "add" /\ pl[Args(q, n)[1]]
                      /\ rd[Args(q, n)[2]] /\ ~pl[Args(q, n)[2]]
\* DiscreteLazyLiteral: a weighted Discrete({..}) one of whose options is a container LITERAL holding
\* a lazily evaluated element (Options.evaluateInner re-evaluates the unconverted dict keys)
DiscreteLazyLiteralTrigger(q) ==
  LET lz == LazyUpTo(q, NN(q))  pl == PlainUpTo(q, NN(q)) IN
  \E n \in 1..NN(q) : Kind(q, n) = "discrete" /\ \E i \in 1..Len(Args(q, n)) : pl[Args(q, n)[i]] /\ lz[Args(q, n)[i]]
\* VectorOperatorLazySelf: a lifted vector operator (Vector * scalar) whose scalar needs lazy
\* evaluation but no sampling (vectorOperator's delayed call drops `self`)
VectorOpLazySelfTrigger(q) ==
  LET lz == LazyUpTo(q, NN(q))  rd == RandomUpTo(q, NN(q)) IN
  \E n \in 1..NN(q) : Kind(q, n) = "vmulx" /\ lz[Args(q, n)[2]] /\ ~rd[Args(q, n)[2]]
\* StarCallRandomReceiver: star-unpacking into a method of a RANDOM receiver (Uniform(o1, o2).f( *T ))
StarCallRandomReceiverTrigger(q) ==
  LET rd == RandomUpTo(q, NN(q)) IN
  \E n \in 1..NN(q) : /\ Kind(q, n) = "meth" /\ rd[Args(q, n)[1]] /\ Kind(q, Args(q, n)[1]) # "box"
                      /\ \E i \in 2..Len(Cst(q, n)) : Cst(q, n)[i] = -1
\* RangeOfDiscreteRange: Range whose endpoint is a DiscreteRange object (repr crash)
RangeOfDrangeTrigger(q) ==
  \E n \in 1..NN(q) : Kind(q, n) = "range" /\ \E i \in 1..2 : Kind(q, Args(q, n)[i]) = "drange"

\* ------------------------------------------------------------------ the enumeration machine
VARIABLES q, pc, asg, drawn, val, den
vars == <<q, pc, asg, drawn, val, den>>

\* (the denotation is computed by an action, not in Init: TLC generates initial states
\* sequentially but runs actions on all workers)
Init == \/ /\ q \in 1..NC /\ pc = "begin" /\ asg = <<>> /\ drawn = {} /\ val = <<>> /\ den = <<>>
        \/ /\ q \in 1..Len(Rules) /\ pc = "rule" /\ drawn = {} /\ val = <<>> /\ den = <<>>
           /\ \E x \in SmallQ : asg = x

\* IOEnv.MACHINE = "1": the leaves are drawn one action at a time (Draw / Reject / Finish) and the
\* result is compared with the denotation (DoneInDenotation) -- twice the work, used by the thorough
\* tier; otherwise Pick takes one complete evaluation of the denotation per behaviour.
UseMachine == IOEnv.MACHINE = "1"
Begin == /\ pc = "begin" /\ pc' = (IF UseMachine THEN "draw" ELSE "pick")
         /\ asg' = Asg0(q)
         \* the machine needs the set of value vectors only (DoneInDenotation); Pick needs the records
         /\ den' = (IF UseMachine THEN [Den(q) EXCEPT !.recs = {}] ELSE [Den(q) EXCEPT !.all = {}])
         /\ val' = (IF UseMachine THEN Eval(q, Asg0(q), {}) ELSE <<>>)
         /\ UNCHANGED <<q, drawn>>
Pick == /\ pc = "pick"
        /\ \E r \in den.recs :
             /\ pc' = (IF r.v = RejVec THEN "rejected" ELSE "done")
             /\ val' = r.v /\ asg' = r.a /\ drawn' = r.d
        \* the evaluations themselves are not carried further (a state would cost |all| x its size)
        /\ den' = [recs |-> {}, all |-> {}, n |-> den.n, ok |-> den.ok, why |-> den.why, sup |-> den.sup]
        /\ UNCHANGED q
Draw == /\ pc = "draw" /\ Ready(q, val, drawn) # {}
        /\ LET p == SetMin(Ready(q, val, drawn)) IN
             /\ Supp(q, p, val) # {}
             /\ \E x \in Supp(q, p, val) :
                  /\ asg' = [asg EXCEPT ![p] = x] /\ drawn' = drawn \cup {p}
                  /\ val' = Eval(q, asg', drawn')
        /\ UNCHANGED <<q, pc, den>>
\* an empty DiscreteRange / Uniform over an empty starred tuple rejects the sample
Reject == /\ pc = "draw" /\ Ready(q, val, drawn) # {}
          /\ Supp(q, SetMin(Ready(q, val, drawn)), val) = {}
          /\ pc' = "rejected" /\ UNCHANGED <<q, asg, drawn, val, den>>
Finish == /\ pc = "draw" /\ Ready(q, val, drawn) = {}
          /\ pc' = "done" /\ UNCHANGED <<q, asg, drawn, val, den>>
Next == Begin \/ Pick \/ Draw \/ Reject \/ Finish
Spec == Init /\ [][Next]_vars

\* ------------------------------------------------------------------ invariants
TypeOK == /\ pc \in {"begin", "pick", "draw", "rejected", "done", "rule"}
          /\ (pc \in {"draw", "done"} => q \in 1..NC /\ drawn \subseteq Prims(q) /\ Len(val) = NN(q))

RewriteSound == pc = "rule" => (RuleCond(Rules[q], asg) => RuleLhs(Rules[q], asg) = Num(asg))

Good == pc = "done" /\ den.ok
\* the machine and the denotation agree
DoneInDenotation == UseMachine => (pc = "done" => val \in den.all) /\ (pc = "rejected" => RejVec \in den.all)
\* a printed evaluation is reproduced by evaluating its recorded draws again (checked on object
\* cases and in machine mode only: it costs a full evaluation)
Reproducible == (Good /\ (UseMachine \/ Cases[q].np > 0)) => Eval(q, asg, drawn) = val
\* object cases: the evaluation is a fixpoint (one more pass changes nothing)
FixpointStable == (Good /\ Cases[q].np > 0) => EvalPass(q, NN(q), asg, drawn, val, FALSE) = val
\* a lazily evaluated reference equals the value of the winning definition of the property
FinalValueSeen == Good => \A n \in 1..NN(q) : Kind(q, n) = "prop" => val[n] = val[FinalDef(q, Cst(q, n)[1])]
\* the deviation differs from the ideal only where its trigger holds
HasFloorDivOne(qq) == \E n \in 1..NN(qq) : Kind(qq, n) = "floordiv" /\ IsConstOne(qq, Args(qq, n)[2])
DeviationLocal == (Good /\ HasFloorDivOne(q)) => (FloorDivOneTrigger(q, val) \/ EvalDev(q, asg, drawn) = val)

NodesOf(kinds) == {n \in 1..NN(q) : Kind(q, n) \in kinds}
X(n, i) == Q(val[Args(q, n)[i]])
BothNum(n) == IsN(val[Args(q, n)[1]]) /\ IsN(val[Args(q, n)[2]])
\* x == (x//y)*y + (x%y), sign and size of the remainder
DivModLaw == Good => \A n \in NodesOf({"divmod"}) :
    LET d == Q(val[n][2][1])  r == Q(val[n][2][2])  x == X(n, 1)  y == X(n, 2) IN
      /\ QIsInt(d) /\ x = QAdd(QMul(y, d), r)
      /\ (r[1] = 0 \/ ISign(r[1]) = ISign(y[1])) /\ QLt(QAbs(r), QAbs(y))
FloorLaw == Good => \A n \in NodesOf({"floordiv"}) : BothNum(n) =>
    LET d == Q(val[n])  x == X(n, 1)  y == X(n, 2) IN
      /\ QIsInt(d)
      /\ IF y[1] > 0 THEN QLe(QMul(d, y), x) /\ QLt(x, QMul(QAdd(d, <<1, 1>>), y))
                     ELSE QLe(x, QMul(d, y)) /\ QLt(QMul(QAdd(d, <<1, 1>>), y), x)
ModLaw == Good => \A n \in NodesOf({"mod"}) : BothNum(n) =>
    LET r == Q(val[n])  x == X(n, 1)  y == X(n, 2) IN
      /\ (r[1] = 0 \/ ISign(r[1]) = ISign(y[1])) /\ QLt(QAbs(r), QAbs(y))
      /\ QIsInt(QDiv(QSub(x, r), y))
AbsNegLaw == Good =>
    /\ \A n \in NodesOf({"abs"}) : Q(val[n])[1] >= 0 /\ (Q(val[n]) = X(n, 1) \/ Q(val[n]) = QNeg(X(n, 1)))
    /\ \A n \in NodesOf({"neg"}) : QAdd(Q(val[n]), X(n, 1)) = <<0, 1>>
SeqLaw == Good =>
    /\ \A n \in NodesOf({"getitem", "unistar"}) : \E j \in 1..Len(val[Args(q, n)[1]][2]) : val[n] = val[Args(q, n)[1]][2][j]
    /\ \A n \in NodesOf({"slice"}) :
          /\ Len(val[n][2]) <= Len(val[Args(q, n)[1]][2])
          /\ \A j \in 1..Len(val[n][2]) : \E i \in 1..Len(val[Args(q, n)[1]][2]) : val[n][2][j] = val[Args(q, n)[1]][2][i]
          /\ (Args(q, n)[2] = 0 /\ Args(q, n)[3] = 0 /\ Args(q, n)[4] = 0 => val[n][2] = val[Args(q, n)[1]][2])
          /\ val[n][1] = (IF val[Args(q, n)[1]][1] = "l" THEN "l" ELSE "t")      \* a slice of a namedtuple is a plain tuple
    /\ \A n \in NodesOf({"len"}) : val[n][2] >= 0
LeafLaw == Good =>
    /\ \A n \in NodesOf({"drange"}) : QLe(X(n, 1), Q(val[n])) /\ QLe(Q(val[n]), X(n, 2)) /\ QIsInt(Q(val[n]))
    /\ \A n \in NodesOf({"range"}) : QLe(QMin(X(n, 1), X(n, 2)), Q(val[n])) /\ QLe(Q(val[n]), QMax(X(n, 1), X(n, 2)))
    /\ \A n \in NodesOf({"uniform", "discrete"}) : \E i \in 1..Len(Args(q, n)) : val[n] = val[Args(q, n)[i]]
\* every value lies in the support the case line reports
InSupport == Good => \A n \in 1..NN(q) : den.sup[n] # <<>> =>
                        QLe(den.sup[n][1], Q(val[n])) /\ QLe(Q(val[n]), den.sup[n][2])

\* ------------------------------------------------------------------ output
\* one line per case (at its initial state): verdict of the well-formedness predicate,
\* exact supports, triggers of the as-implemented deviations, final definitions
EmitCase ==
(pc \in {"draw", "pick"} /\ drawn = {}) =>
     PrintT(ToJson([t |-> "case", q |-> q, ok |-> den.ok, why |-> den.why,
                    n |-> den.n,
                    sup |-> den.sup,
                    finals |-> Finals(q),
                    kwlazy |-> KwargLazyTrigger(q),
                    concat |-> ConstLeftConcatTrigger(q),
                    rangedr |-> RangeOfDrangeTrigger(q),
                    starrecv |-> StarCallRandomReceiverTrigger(q),
                    dislazy |-> DiscreteLazyLiteralTrigger(q),
                    veclazy |-> VectorOpLazySelfTrigger(q)]))
\* one line per complete evaluation of a well-formed case: the value of EVERY node, and
\* the as-implemented values when the deviation's trigger holds
EmitRow ==
  Good => PrintT(ToJson([t |-> "row", q |-> q, v |-> val, k |-> Cardinality(drawn),
                          d |-> IF FloorDivOneTrigger(q, val) THEN EvalDev(q, asg, drawn) ELSE <<>>]))
EmitRule ==
  pc = "rule" => PrintT(ToJson([t |-> "rule", name |-> Rules[q].name, cond |-> Rules[q].cond,
                                 x |-> asg, holds |-> RuleCond(Rules[q], asg),
                                 lhs |-> RuleLhs(Rules[q], asg)]))
=============================================================================
