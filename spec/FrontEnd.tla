------------------------------ MODULE FrontEnd ------------------------------
(* C10: the front end is total -- a scenario or a located syntax error, never a crash, and the  *)
(* compiler's global state is inactive afterwards.                                             *)
(*                                                                                             *)
(* (i) The LIFECYCLE of one compilation over the global state of scenic.syntax.veneer, one     *)
(* action per critical section of translator._scenarioFromStream / compileStream /             *)
(* ScenicLoader.exec_module / veneer.activate / veneer.deactivate / veneer.model:              *)
(*                                                                                             *)
(*   Idle -Begin-> [PushPath] Activate -> Preamble -> Parse -> Compile -> PyCompile -> Exec*   *)
(*        -> Store -> (top: PopPath -> Construct) -> Deactivate -> (top: Purge) -> Idle        *)
(*                                                                                             *)
(* re-entrant: an Exec step may import a Scenic module (`import` or `model`), which runs the   *)
(* same pipeline one level deeper (`activity` is a depth) and comes back; every step that      *)
(* consumes user input may fail, after which the frames unwind through their `finally`         *)
(* clauses.  A frame of kind "direct" is the bare parse_string + compileScenicAST + compile()  *)
(* pipeline (no veneer).  What the language reference and the property demand is stated as invariants:  *)
(*   OutcomeAllowed : a failure of the Parse / Compile / PyCompile stage is a Scenic syntax    *)
(*                    error naming a line of the input; an internal error is never an outcome; *)
(*   Quiescent      : after every ending the veneer is inactive and sys.path / sys.modules     *)
(*                    are as before;                                                           *)
(*   ActivityIsDepth, LoadingModelScoped, PathScoped: the bookkeeping that makes it so.        *)
(* TLC checks them exhaustively for import depth <= MaxDepth, <= MaxImports imports per run, modules of <= Lines lines, Runs  *)
(* compilations in a row (a later one starts from the state the earlier left), all options.   *)
(*                                                                                             *)
(* (ii) Mutate: the token-level mutation operators the harness applies to seed programs.       *)
(* (iii) the documented forms and groupings are in FrontEndForms.tla.                          *)
EXTENDS Integers, Sequences, FiniteSets, TLC

CONSTANTS MaxDepth, MaxImports, Lines, Runs

Stages == {"Activate", "Preamble", "Parse", "Compile", "PyCompile", "Exec", "Store", "PopPath", "Construct", "Deactivate", "Purge"}
InputStages == {"Parse", "Compile", "PyCompile"}          \* the stages that only read the program text
Kinds == {"syntax", "user", "invalid", "internal"}
FrameKinds == {"top", "import", "model", "direct"}

VARIABLES
  frames,        \* control stack: sequence of [kind, stage, n]  (n = number of lines of that module's text)
  activity,      \* veneer.activity
  stackLen,      \* len(veneer.scenarioStack)
  cur,           \* veneer.currentScenario is not None
  scens,         \* veneer.scenarios non-empty
  params,        \* veneer._globalParameters non-empty
  locked,        \* lockedParameters / lockedModel set
  mode2D,        \* veneer.mode2D (and the 2D classes swapped in)
  simf,          \* veneer.simulatorFactory is not None
  loading,       \* veneer.loadingModel
  pathPushed,    \* the extra sys.path entry of topLevelNamespace is present
  newMods,       \* Scenic modules added to sys.modules by this compilation
  pending,       \* exception in flight: <<>> or <<[kind, stage, line]>>
  outcome,       \* <<>> while running / idle before the first run; else <<[t, kind, stage, line]>>
  opts,          \* options of the compilation in progress: [over, m2d]
  runs           \* compilations finished so far

vars == <<frames, activity, stackLen, cur, scens, params, locked, mode2D, simf, loading, pathPushed, newMods, pending, outcome, opts, runs>>
veneer == <<activity, stackLen, cur, scens, params, locked, mode2D, simf, loading>>

Depth == Len(frames)
Top == frames[Depth]
Idle == frames = <<>>
Failing == pending # <<>>
SetStage(s) == frames' = [frames EXCEPT ![Depth].stage = s]
Frame(k, s, n) == [kind |-> k, stage |-> s, n |-> n]

Init == /\ frames = <<>> /\ activity = 0 /\ stackLen = 0 /\ cur = FALSE /\ scens = FALSE /\ params = FALSE
        /\ locked = FALSE /\ mode2D = FALSE /\ simf = FALSE /\ loading = FALSE /\ pathPushed = FALSE
        /\ newMods = 0 /\ pending = <<>> /\ outcome = <<>> /\ opts = [over |-> FALSE, m2d |-> FALSE] /\ runs = 0

\* ------------------------------------------------------------------ beginning
\* scenarioFromString: sys.path.insert, then veneer.activate inside the try
BeginTop(over, m2d, n) ==
  /\ Idle /\ runs < Runs
  /\ frames' = <<Frame("top", "Activate", n)>>
  /\ pathPushed' = TRUE
  /\ opts' = [over |-> over, m2d |-> m2d]
  /\ outcome' = <<>> /\ pending' = <<>>
  /\ UNCHANGED <<veneer, newMods, runs>>

\* parse_string + compileScenicAST called directly: no veneer, no path
BeginDirect(n) ==
  /\ Idle /\ runs < Runs
  /\ frames' = <<Frame("direct", "Parse", n)>>
  /\ opts' = [over |-> FALSE, m2d |-> FALSE]
  /\ outcome' = <<>> /\ pending' = <<>>
  /\ UNCHANGED <<veneer, pathPushed, newMods, runs>>

\* veneer.activate(options, namespace)
Activate ==
  /\ ~Idle /\ ~Failing /\ Top.stage = "Activate"
  /\ LET o == IF Top.kind = "top" THEN opts ELSE [over |-> FALSE, m2d |-> FALSE] IN   \* imported modules: CompileOptions()
       /\ (o.over => activity = 0)                      \* the code asserts this
       /\ (o.m2d => (mode2D \/ activity = 0))           \* ditto
       /\ params' = (params \/ o.over) /\ locked' = (locked \/ o.over)
       /\ mode2D' = (mode2D \/ o.m2d)
  /\ activity' = activity + 1 /\ stackLen' = stackLen + 1 /\ cur' = TRUE
  /\ SetStage("Preamble")
  /\ UNCHANGED <<scens, simf, loading, pathPushed, newMods, pending, outcome, opts, runs>>

\* ------------------------------------------------------------------ the pipeline of one frame
Advance(from, to) ==
  /\ ~Idle /\ ~Failing /\ Top.stage = from
  /\ SetStage(to)
  /\ UNCHANGED <<veneer, pathPushed, newMods, pending, outcome, opts, runs>>

Preamble == Advance("Preamble", "Parse")
ParseOK == /\ Advance("Parse", "Compile")
CompileOK == Advance("Compile", "PyCompile")
\* compile() of the translated tree; the bare pipeline ends here
PyCompileOK == /\ ~Idle /\ ~Failing /\ Top.stage = "PyCompile"
               /\ SetStage(IF Top.kind = "direct" THEN "Purge" ELSE "Exec")
               /\ UNCHANGED <<veneer, pathPushed, newMods, pending, outcome, opts, runs>>

\* a failure of a stage that only reads the program text: the only exit the reference allows is
\* a Scenic syntax error naming a line of the text
FailInput(l) ==
  /\ ~Idle /\ ~Failing /\ Top.stage \in InputStages
  /\ l \in 1..Top.n
  /\ pending' = <<[kind |-> "syntax", stage |-> Top.stage, line |-> l, n |-> Top.n]>>
  /\ UNCHANGED <<frames, veneer, pathPushed, newMods, outcome, opts, runs>>

\* executing the user's top-level code: global parameters, scenario classes, the simulator ...
ExecStep(p, s, f) ==
  /\ ~Idle /\ ~Failing /\ Top.stage = "Exec"
  /\ params' = (params \/ p) /\ scens' = (scens \/ s) /\ simf' = (simf \/ f)
  /\ UNCHANGED <<frames, activity, stackLen, cur, locked, mode2D, loading, pathPushed, newMods, pending, outcome, opts, runs>>

\* ... an import of a Scenic module (ScenicLoader.exec_module -> compileStream(activate=True)) ...
ExecImport(n) ==
  /\ ~Idle /\ ~Failing /\ Top.stage = "Exec" /\ Depth <= MaxDepth /\ newMods + Depth <= MaxImports
  /\ frames' = Append(frames, Frame("import", "Activate", n))
  /\ UNCHANGED <<veneer, pathPushed, newMods, pending, outcome, opts, runs>>

\* ... the `model` statement: loadingModel is set around the import (a model may not use `model`)
ExecModel(n) ==
  /\ ~Idle /\ ~Failing /\ Top.stage = "Exec" /\ Depth <= MaxDepth /\ newMods + Depth <= MaxImports
  /\ IF loading
     THEN /\ pending' = <<[kind |-> "invalid", stage |-> "Exec", line |-> 0, n |-> Top.n]>>
          /\ UNCHANGED <<frames, loading>>
     ELSE /\ loading' = TRUE
          /\ frames' = Append(frames, Frame("model", "Activate", n))
          /\ UNCHANGED pending
  /\ UNCHANGED <<activity, stackLen, cur, scens, params, locked, mode2D, simf, pathPushed, newMods, outcome, opts, runs>>

\* ... or an error of the user's own code / an invalid scenario (any kind except an internal one
\* is the user's business at this stage)
FailExec(k) ==
  /\ ~Idle /\ ~Failing /\ Top.stage \in {"Exec", "Store", "Construct"}
  /\ k \in {"syntax", "user", "invalid"}
  /\ pending' = <<[kind |-> k, stage |-> Top.stage, line |-> 0, n |-> Top.n]>>
  /\ UNCHANGED <<frames, veneer, pathPushed, newMods, outcome, opts, runs>>

ExecDone == Advance("Exec", "Store")
StoreOK ==
  /\ ~Idle /\ ~Failing /\ Top.stage = "Store"
  /\ SetStage(IF Top.kind = "top" THEN "PopPath" ELSE "Deactivate")
  /\ UNCHANGED <<veneer, pathPushed, newMods, pending, outcome, opts, runs>>

\* ------------------------------------------------------------------ cleanup (runs on success and on failure)
\* topLevelNamespace.__exit__: sys.path.remove (on the way out of the `with`, normally or not)
PopPath ==
  /\ ~Idle /\ Top.kind = "top" /\ pathPushed
  /\ (Failing \/ Top.stage = "PopPath")
  /\ pathPushed' = FALSE
  /\ (IF Failing THEN UNCHANGED frames ELSE SetStage("Construct"))
  /\ UNCHANGED <<veneer, newMods, pending, outcome, opts, runs>>

ConstructOK == Advance("Construct", "Deactivate")

\* veneer.deactivate(), from the `finally` of the frame: after its last stage, or as soon as an
\* exception is in flight in a frame that has been activated
Deactivate ==
  /\ ~Idle /\ Top.kind # "direct"
  /\ \/ Top.stage = "Deactivate"
     \/ Failing /\ Top.stage \notin {"Activate", "Deactivate", "Purge"}
  /\ (Top.kind = "top" => ~pathPushed)
  /\ activity' = activity - 1 /\ stackLen' = stackLen - 1
  /\ scens' = FALSE                                     \* `scenarios = []` at every level
  /\ IF activity = 1
     THEN locked' = FALSE /\ cur' = FALSE /\ simf' = FALSE /\ params' = FALSE /\ mode2D' = FALSE
     ELSE cur' = TRUE /\ UNCHANGED <<locked, simf, params, mode2D>>
  /\ SetStage("Purge")
  /\ UNCHANGED <<loading, pathPushed, newMods, pending, outcome, opts, runs>>

\* leaving an imported module: back in the importer's Exec (the importer sees the exception, if any);
\* `model` resets loadingModel in its finally; a successfully imported module stays in sys.modules
Return ==
  /\ Depth > 1 /\ Top.stage = "Purge"
  /\ frames' = SubSeq(frames, 1, Depth - 1)
  /\ loading' = IF Top.kind = "model" THEN FALSE ELSE loading
  /\ newMods' = IF Failing THEN newMods ELSE newMods + 1
  /\ UNCHANGED <<activity, stackLen, cur, scens, params, locked, mode2D, simf, pathPushed, pending, outcome, opts, runs>>

\* the end of _scenarioFromStream (purgeModulesUnsafeToCache, then the result or the exception);
\* the bare pipeline has nothing to clean up
End ==
  /\ Depth = 1
  /\ \/ Top.stage = "Purge"
     \/ Top.kind = "direct" /\ Failing
  /\ frames' = <<>>
  /\ newMods' = 0
  /\ outcome' = IF Failing THEN <<[t |-> "fail", kind |-> pending[1].kind, stage |-> pending[1].stage, line |-> pending[1].line, n |-> pending[1].n]>>
                ELSE <<[t |-> "ok", kind |-> "none", stage |-> "none", line |-> 0, n |-> 0]>>
  /\ pending' = <<>>
  /\ runs' = runs + 1
  /\ UNCHANGED <<veneer, pathPushed, opts>>

Next ==
  \/ \E o, m \in BOOLEAN, n \in 1..Lines : BeginTop(o, m, n)
  \/ \E n \in 1..Lines : BeginDirect(n)
  \/ Activate \/ Preamble \/ ParseOK \/ CompileOK \/ PyCompileOK
  \/ \E l \in 1..Lines : FailInput(l)
  \/ \E p, s, f \in BOOLEAN : ExecStep(p, s, f)
  \/ \E n \in 1..Lines : (ExecImport(n) \/ ExecModel(n))
  \/ ExecDone \/ StoreOK
  \/ \E k \in Kinds : FailExec(k)
  \/ PopPath \/ ConstructOK \/ Deactivate \/ Return \/ End
  \/ (Idle /\ runs = Runs /\ UNCHANGED vars)        \* finished: stutter (so that a stuck frame shows as a deadlock)

Spec == Init /\ [][Next]_vars

\* ------------------------------------------------------------------ the property
TypeOK ==
  /\ activity \in 0..(MaxDepth + 2) /\ stackLen \in 0..(MaxDepth + 2) /\ newMods \in 0..50
  /\ \A i \in 1..Depth : frames[i].kind \in FrameKinds /\ frames[i].stage \in Stages
  /\ Len(pending) <= 1 /\ Len(outcome) <= 1

\* activity = number of frames between their activate and their deactivate = len(scenarioStack)
Active(fr) == fr.kind # "direct" /\ fr.stage \notin {"Activate", "Purge"}
ActivityIsDepth ==
  /\ activity = Cardinality({i \in 1..Depth : Active(frames[i])})
  /\ stackLen = activity
  /\ cur = (activity > 0)

Quiescent ==
  /\ activity = 0 /\ stackLen = 0 /\ ~cur /\ ~scens /\ ~params /\ ~locked /\ ~mode2D /\ ~simf /\ ~loading
  /\ ~pathPushed /\ newMods = 0
QuiescentWhenIdle == Idle => Quiescent

OutcomeAllowed ==
  outcome # <<>> =>
    LET o == outcome[1] IN
      /\ o.kind # "internal"
      /\ (o.t = "fail" /\ o.stage \in InputStages) => (o.kind = "syntax" /\ o.line \in 1..o.n)

\* loadingModel is true exactly while a `model` frame is on the stack
LoadingModelScoped == loading = (\E i \in 1..Depth : frames[i].kind = "model")
\* the extra sys.path entry exists only while the top frame is before its PopPath
PathScoped == pathPushed => (~Idle /\ frames[1].kind = "top")

\* every run ends: with deadlock checking on, a frame that cannot finish its cleanup is reported

\* ------------------------------------------------------------------ (ii) mutation operators
\* a program is a sequence of tokens; pos is 1-based; arg is a token (insert / replace), an offset
\* (swap) or unused
Mutate(toks, op, pos, arg) ==
  CASE op = "delete"   -> SubSeq(toks, 1, pos - 1) \o SubSeq(toks, pos + 1, Len(toks))
    [] op = "insert"   -> SubSeq(toks, 1, pos - 1) \o <<arg>> \o SubSeq(toks, pos, Len(toks))
    [] op = "replace"  -> [toks EXCEPT ![pos] = arg]
    [] op = "swap"     -> [toks EXCEPT ![pos] = toks[arg], ![arg] = toks[pos]]
    [] op = "truncate" -> SubSeq(toks, 1, pos - 1)
    [] op = "reindent" -> toks                                \* changes white space only
MutLen(n, op, pos) ==
  CASE op = "delete" -> n - 1 [] op = "insert" -> n + 1 [] op = "truncate" -> pos - 1 [] OTHER -> n
=============================================================================
