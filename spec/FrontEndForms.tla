---------------------------- MODULE FrontEndForms ----------------------------
(* C10 (iii): the documented grouping of the requirement connectives and temporal operators     *)
(* (docs/reference/statements.rst `require LTL formula`, operators.rst `Temporal Operators`).   *)
(*                                                                                             *)
(* A formula is an atom <<"A">>, <<"B">>, ... or <<op, f>> / <<op, f, g>> with op among not, always, *)
(* eventually, next (unary) and and, or, implies, until (binary).  The reference fixes:          *)
(*  R1  a prefix temporal operator scopes over the rest of the expression:                       *)
(*        `always A implies B` is always (A implies B); `always X and not Y` is always (X and ..) *)
(*  R2  any formula may be parenthesised and used as an operand of any connective:               *)
(*        `(always A) implies B`, `(X until Y) or (always ...)`, `always (X implies next X)`     *)
(*  R3  a prefix temporal operator may be the last operand of and / or without parentheses:      *)
(*        `A and always B`                                                                       *)
(* ShowFull prints a formula with every compound operand parenthesised (R2); ShowDoc drops the   *)
(* parentheses R1 and R3 make redundant.  Both must be accepted by `require` and parse to the    *)
(* formula's own tree.  TLC enumerates all formulas of depth <= Depth over the atoms; the        *)
(* invariant SameWithoutRules checks that the two printings differ exactly where R1 / R3 apply  *)
(* (that the text determines the tree is checked by the harness on the emitted set).            *)
EXTENDS Integers, Sequences, FiniteSets, TLC, Json, IOUtils

CONSTANTS NAtoms, FDepth

AtomNames == <<"A", "B", "C">>
Atoms == {<<AtomNames[k]>> : k \in 1..NAtoms}
Unary == {"not", "always", "eventually", "next"}
Prefix == {"always", "eventually", "next"}
Binary == {"and", "or", "implies", "until"}

RECURSIVE Forms(_)
Forms(d) == IF d = 0 THEN Atoms
            ELSE LET S == Forms(d - 1) IN
                 S \cup {<<u, f>> : u \in Unary, f \in S} \cup {<<b, f, g>> : b \in Binary, f \in S, g \in S}
All == Forms(FDepth)

IsAtom(g) == Len(g) = 1
Op(g) == IF IsAtom(g) THEN "atom" ELSE g[1]

Paren(s) == "(" \o s \o ")"
RECURSIVE ShowFull(_), ShowDoc(_)
ShowFull(f) ==
  IF IsAtom(f) THEN f[1]
  ELSE LET P(g) == IF IsAtom(g) THEN g[1] ELSE Paren(ShowFull(g)) IN
       IF Len(f) = 2 THEN f[1] \o " " \o P(f[2])
       ELSE P(f[2]) \o " " \o f[1] \o " " \o P(f[3])

\* may the operand g of the prefix operator stand without parentheses (R1)?  `until` is left out:
\* the reference says nothing about `always A until B`
R1Applies(g) == Op(g) \in {"and", "or", "implies", "not"} \cup Prefix
ShowDoc(f) ==
  IF IsAtom(f) THEN f[1]
  ELSE LET P(g) == IF IsAtom(g) THEN g[1] ELSE Paren(ShowDoc(g)) IN
       IF Len(f) = 2
       THEN IF f[1] \in Prefix /\ R1Applies(f[2]) THEN f[1] \o " " \o ShowDoc(f[2])
            ELSE f[1] \o " " \o P(f[2])
       ELSE IF f[1] \in {"and", "or"} /\ Op(f[3]) \in Prefix
            THEN P(f[2]) \o " " \o f[1] \o " " \o ShowDoc(f[3])          \* R3
            ELSE P(f[2]) \o " " \o f[1] \o " " \o P(f[3])

\* as-implemented deviation (known finding temporal-group-implies): a parenthesised operand that
\* only the requirement grammar can read (it contains a temporal operator or `implies` at its top)
\* is refused when `implies` follows it
OnlyTemporal(g) == Op(g) \in Prefix \cup {"until", "implies"}
RECURSIVE GroupImpliesTrigger(_)
GroupImpliesTrigger(f) ==
  IF IsAtom(f) THEN FALSE
  ELSE \/ (f[1] = "implies" /\ OnlyTemporal(f[2]))
       \/ \E k \in 2..Len(f) : GroupImpliesTrigger(f[k])

RECURSIVE Size(_)
Size(f) == IF IsAtom(f) THEN 1 ELSE IF Len(f) = 2 THEN 1 + Size(f[2]) ELSE 1 + Size(f[2]) + Size(f[3])

VARIABLE f
Init == f \in All
Next == UNCHANGED f
Spec == Init /\ [][Next]_f

\* the printers differ only where R1 / R3 apply
SameWithoutRules ==
  LET RECURSIVE Uses(_)
      Uses(g) == IF IsAtom(g) THEN FALSE
                 ELSE \/ (Len(g) = 2 /\ g[1] \in Prefix /\ ~IsAtom(g[2]) /\ R1Applies(g[2]))
                      \/ (Len(g) = 3 /\ g[1] \in {"and", "or"} /\ Op(g[3]) \in Prefix)
                      \/ \E k \in 2..Len(g) : Uses(g[k])
  IN (ShowFull(f) # ShowDoc(f)) <=> Uses(f)
EmitForm == PrintT(ToJson([form |-> f, full |-> ShowFull(f), doc |-> ShowDoc(f), size |-> Size(f),
                           known |-> IF GroupImpliesTrigger(f) THEN "temporal-group-implies" ELSE ""]))
=============================================================================
