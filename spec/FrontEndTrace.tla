---------------------------- MODULE FrontEndTrace ----------------------------
(* C10, code -> spec: validates recorded runs of the real front end against FrontEnd.tla.      *)
(* A batch holds many traces; a trace is <<id, events, devs>> (devs = keys of the as-implemented *)
(* deviations whose trigger predicate holds for the input) and an event the 6-tuple             *)
(*   <<name, s1, s2, x, y, z>>   (two strings, three integers)                                  *)
(*   begin      s1 = "top" | "direct", x = param overrides given, y = mode2D, z = lines of input *)
(*   snap       x = activity, y = len(scenarioStack), z = flag bits of the veneer projection     *)
(*   activate / deactivate   x = activity, y = len(scenarioStack) after the call                 *)
(*   pre        the preamble has been executed (parse_string is entered)                         *)
(*   ok         s1 = stage that returned normally                                               *)
(*   fail       s1 = stage that raised, s2 = kind, x = line named by the error (0 = none),       *)
(*              y = 1 iff the error's text is the text of that line of the file it names (when   *)
(*              the program was compiled from a file on disk; a line past the end has no text)    *)
(*   execstate  x, y, z = params / scenarios / simulatorFactory present                          *)
(*   push       s1 = "import" | "model", x = lines of the imported Scenic module                  *)
(*   poppath    topLevelNamespace left;   return = back from an imported module                  *)
(*   end        s1 = "ok" | "fail", s2 = kind, x = line                                          *)
(* Every event is matched by the FrontEnd action of the same critical section, with the logged *)
(* values constraining the action's parameters and its post-state; all FrontEnd invariants are *)
(* evaluated at every step.  A trace is accepted iff it is consumed completely (EmitAccepted    *)
(* prints its id); a trace that is not a behaviour of the lifecycle machine -- an internal     *)
(* error at an input stage, a line outside the input, a missing deactivate, a dirty snapshot --  *)
(* gets stuck and is reported by the harness as rejected.                                       *)
EXTENDS FrontEnd, Json, IOUtils

Traces == JsonDeserialize(IOEnv.TRACES)
NT == Len(Traces)

VARIABLES tid, i
tvars == <<tid, i>>

Events == Traces[tid][2]
Devs == {Traces[tid][3][k] : k \in 1..Len(Traces[tid][3])}
B(x) == x = 1

\* the veneer projection as the harness encodes it
Bit(b, w) == IF b THEN w ELSE 0
Flags == Bit(cur, 1) + Bit(scens, 2) + Bit(params, 4) + Bit(locked, 8) + Bit(mode2D, 16) + Bit(simf, 32)
         + Bit(loading, 64) + Bit(pathPushed, 128) + Bit(newMods > 0 /\ Idle, 256)

TraceInit == tid \in 1..NT /\ i = 1 /\ Init

\* as-implemented deviations (known findings): internal errors that escape from an input stage on
\* the unchanged tree.  Each has a trigger (decided by the harness from the input and the signature
\* of the error: exception type, message prefix, raising function) and the stage it may occur in:
\*   fstring-conversion-crash       f"{x!r}": AttributeError in check_fstring_conversion       (Parse)
\*   invalid-target-scenic-expr     a Scenic-only expression in an assignment-target position:
\*                                  ValueError in get_expr_name                                 (Parse)
\*   error-span-lines-keyerror      an error span reaching lines the tokenizer no longer holds:
\*                                  KeyError in Tokenizer.get_lines                             (Parse)
\*   number-literal-raw-syntaxerror `010`, `"\x"`: a raw SyntaxError of ast.literal_eval, file <unknown> (Parse)
\*   nul-byte-systemerror           a NUL byte inside an indented block: SystemError from the
\*                                  standard tokenizer                                          (Parse)
\*   behavior-annassign-crash       `x: int = 0`, `type T = ...` or `(x := ...)` binding a local of a
\*                                  behaviour / monitor body: TypeError from compile()          (PyCompile)
\*   require-prob-not-float         `require[1j] x`: ValueError of float() in the rule's action        (Parse)
\*   nested-brackets-recursionerror about 21 nested brackets: RecursionError in the PEG parser          (Parse)
\*   legacy-instance-error-attributeerror  `Object beyond x by y` (no `new`): AttributeError while
\*                                  building the "forgot 'new'?" error                          (Parse)
\*   temporal-in-ifexp-assertion    `require always x if y else z`: AssertionError, no visitor   (Compile)
\*   require-monitor-as-typeerror   `require monitor M() as n`: the name is a list               (PyCompile)
\*   try-interrupt-else-valueerror  try / interrupt / else without except                        (PyCompile)
\*   empty-target-elts-none         `for () in x`, `[] = x`, `del ()`: Tuple/List(elts=None)      (PyCompile)
\*   nul-byte-file-typeerror        a NUL byte in a program compiled from a FILE: the error built for it
\*                                  has no offset and errors.getText compares None                (Parse)
\*   non-utf8-file-unicodedecodeerror  a source file that is not UTF-8: UnicodeDecodeError of
\*                                  stream.read().decode in compileStream                        (Preamble)
\*   return-scenic-in-interrupt-typeerror  `return 5 deg` in the body or a handler of a try-interrupt:
\*                                  the value is not compiled, compile() gets a Scenic node      (PyCompile)
\*   long-chain-compile-recursionerror  a chain of ~3000 binary operators: RecursionError in the
\*                                  compiler's tree walk / compile()                          (Compile, PyCompile)
KnownCrashStage ==
  [k \in {"return-scenic-in-interrupt-typeerror", "nul-byte-file-typeerror", "non-utf8-file-unicodedecodeerror",
          "fstring-conversion-crash", "invalid-target-scenic-expr", "error-span-lines-keyerror",
          "number-literal-raw-syntaxerror", "nul-byte-systemerror", "behavior-annassign-crash",
          "require-prob-not-float", "nested-brackets-recursionerror", "legacy-instance-error-attributeerror",
          "temporal-in-ifexp-assertion", "require-monitor-as-typeerror", "try-interrupt-else-valueerror",
          "empty-target-elts-none"} |->
     IF k \in {"return-scenic-in-interrupt-typeerror", "behavior-annassign-crash", "require-monitor-as-typeerror", "try-interrupt-else-valueerror", "empty-target-elts-none"}
     THEN "PyCompile" ELSE IF k = "temporal-in-ifexp-assertion" THEN "Compile"
     ELSE IF k = "non-utf8-file-unicodedecodeerror" THEN "Preamble" ELSE "Parse"]
KnownKeys == DOMAIN KnownCrashStage \cup {"long-chain-compile-recursionerror"}
CrashAsImplemented(st) ==
  /\ ~Idle /\ ~Failing /\ Top.stage = st
  /\ \E k \in Devs \cap (KnownKeys \cup {"long-chain-compile-recursionerror"}) :
        /\ (IF k = "long-chain-compile-recursionerror" THEN st \in {"Compile", "PyCompile"} ELSE KnownCrashStage[k] = st)
        /\ pending' = <<[kind |-> k, stage |-> st, line |-> 0, n |-> Top.n]>>
  /\ UNCHANGED <<frames, veneer, pathPushed, newMods, outcome, opts, runs>>

OkStage(st) ==
  CASE st = "Parse" -> ParseOK [] st = "Compile" -> CompileOK [] st = "PyCompile" -> PyCompileOK
    [] st = "Exec" -> ExecDone [] st = "Store" -> StoreOK [] st = "Construct" -> ConstructOK
FailStage(st, k, l) == IF st \in InputStages THEN k = "syntax" /\ FailInput(l) ELSE FailExec(k)
EndAs(t, k, l) == /\ End /\ outcome'[1].t = t /\ (outcome'[1].kind = k \/ (outcome'[1].kind \in KnownKeys /\ k = "internal"))
                  /\ ((t = "fail" /\ outcome'[1].kind = "syntax" /\ outcome'[1].stage \in InputStages) => outcome'[1].line = l)

Match(e) ==
  CASE e[1] = "begin" -> IF e[2] = "top" THEN BeginTop(B(e[4]), B(e[5]), e[6]) ELSE BeginDirect(e[6])
    [] e[1] = "snap" -> (activity = e[4] /\ stackLen = e[5] /\ Flags = e[6] /\ UNCHANGED vars)
    [] e[1] = "activate" -> (Activate /\ activity' = e[4] /\ stackLen' = e[5])
    [] e[1] = "deactivate" -> (Deactivate /\ activity' = e[4] /\ stackLen' = e[5])
    [] e[1] = "pre" -> Preamble
    [] e[1] = "ok" -> (Top.stage = e[2] /\ OkStage(e[2]))
    [] e[1] = "fail" -> (/\ Top.stage = e[2]
                         /\ (e[3] = "syntax" => e[5] = 1)       \* a located error carries the text of its line
                         /\ (FailStage(e[2], e[3], e[4]) \/ (e[3] = "internal" /\ CrashAsImplemented(e[2]))))
    [] e[1] = "execstate" -> (\E p, s, f \in BOOLEAN : ExecStep(p, s, f) /\ params' = B(e[4]) /\ scens' = B(e[5]) /\ simf' = B(e[6]))
    [] e[1] = "push" -> (IF e[2] = "model" THEN ExecModel(e[4]) /\ pending' = <<>> ELSE ExecImport(e[4]))
    [] e[1] = "poppath" -> PopPath
    [] e[1] = "return" -> Return
    [] e[1] = "end" -> EndAs(e[2], e[3], e[4])

TraceNext == /\ i <= Len(Events)
             /\ Match(Events[i])
             /\ i' = i + 1 /\ UNCHANGED tid

TraceSpec == TraceInit /\ [][TraceNext]_<<vars, tvars>>

\* the property, with the known deviation named instead of hidden
OutcomeAllowedOrKnown ==
  outcome # <<>> =>
    LET o == outcome[1] IN
      /\ o.kind # "internal"
      /\ (o.t = "fail" /\ o.stage \in InputStages /\ o.kind \notin KnownKeys) => (o.kind = "syntax" /\ o.line \in 1..o.n)

Accepted == i = Len(Events) + 1
EmitAccepted == Accepted => PrintT(ToJson([acc |-> Traces[tid][1],
                                           known |-> IF outcome # <<>> /\ outcome[1].kind \in KnownKeys THEN outcome[1].kind ELSE ""]))
\* debugging aid for a rejected trace: how far it got
EmitProgress == PrintT(ToJson([at |-> Traces[tid][1], i |-> i]))
=============================================================================
