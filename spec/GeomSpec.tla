------------------------------- MODULE GeomSpec -------------------------------
(* C07 -- built-in specifiers and operators have their documented geometric     *)
(* meaning.  One definition per documented construct, written from              *)
(* docs/reference/specifiers.rst, operators.rst, data.rst and the class          *)
(* reference (contactTolerance), over the exact sub-universe of Lat3.tla:        *)
(* positions on the quarter lattice (scale 4), orientations = (Pythagorean or   *)
(* quarter-turn yaw) * cube rotation, dimensions integer, expected orientations *)
(* stated as rotation MATRICES (never as Euler angles).                         *)
(*                                                                              *)
(* A pose is [p |-> <<x,y,z>>, yq |-> <<c,s,d>>, e |-> <<ky,kp,kr>>]: position  *)
(* and orientation RotZ(yq) * FromEuler4(e); an "orientation" record has only   *)
(* yq and e.  Unit triples <<c,s,d>> denote the angle with cos c/d, sin s/d.    *)
(*                                                                              *)
(* Cases come from IOEnv.GEOM (JSON list, generated together with the Scenic    *)
(* text from one Python dict per case).  The expected record is                 *)
(*   [p, ps]   position p at scale ps (= 4 * denominator)          (ps = 0: none) *)
(*   [r, rd]   rotation matrix r / rd                               (rd = 0: none) *)
(*   [a]       angle as a unit triple                               (<<>>: none)   *)
(*   [d2]      squared distance at scale 16                         (-1: none)     *)
(*   free      the reference leaves the orientation open (don't-care)             *)
(*   dev, ir, ird   named as-implemented deviation: key ("none"), rotation       *)
EXTENDS Integers, Sequences, FiniteSets, TLC, Json, IOUtils, Lat3

Cases == JsonDeserialize(IOEnv.GEOM)
NC == Len(Cases)
ChunkSize == 64
NChunks == (NC + ChunkSize - 1) \div ChunkSize

VARIABLES pc, chunk, i, exp
vars == <<pc, chunk, i, exp>>

\* ------------------------------------------------------------------ helpers
Rot(o) == QMul(QYaw(o.yq[1], o.yq[2], o.yq[3]), QOf(FromEuler4(o.e)))      \* orientation record -> rational rotation
Own(e) == QOf(FromEuler4(e))                                                 \* the new object's own yaw/pitch/roll
IsIdentityRot(A) == A.m = MScale(A.d, Ident3)
IsYawOnly(A) == A.m[3] = <<0, 0, A.d>> /\ Col(A.m, 3) = <<0, 0, A.d>>
\* p + A * v, at scale 4 * A.d
Place(p, A, v) == [p |-> VAdd(VScale(A.d, p), QApply(A, v)), ps |-> 4 * A.d]
\* the rotation whose local +Y axis points along the horizontal direction (x, y), |(x,y)| = n:
\* azimuth measured anticlockwise from +Y, i.e. cos = y/n, sin = -x/n
AzRot(x, y, n) == QYaw(y, -x, n)
\* pitch lifting +Y by the altitude of a direction with horizontal norm nxy, vertical z, norm n
AltRot(nxy, z, n) == QPitch(nxy, z, n)
\* the frame "oriented along the line of sight": yaw = azimuth, pitch = altitude, roll = 0
SightRot(dv, nxy, n) == QMulN(QNorm(AzRot(dv[1], dv[2], nxy)), QNorm(AltRot(nxy, dv[3], n)))
NormsOK(dv, nxy, n) == nxy > 0 /\ n > 0 /\ nxy * nxy = dv[1] * dv[1] + dv[2] * dv[2] /\ n * n = nxy * nxy + dv[3] * dv[3]
AngSum(a, b) == <<a[1] * b[1] - a[2] * b[2], a[2] * b[1] + a[1] * b[2], a[3] * b[3]>>
AngNeg(a) == <<a[1], -a[2], a[3]>>
NoPos == [p |-> <<>>, ps |-> 0]
NoRot == [r |-> <<>>, rd |-> 0]
QN(A) == IF A.d > 0 THEN QNorm(A) ELSE A
Result(pos, rot, ang, d2, free, dev, irot) ==
  [p |-> pos.p, ps |-> pos.ps, r |-> QN(rot).m, rd |-> QN(rot).d, a |-> ang, d2 |-> d2, free |-> free,
   dev |-> dev, ir |-> QN(irot).m, ird |-> QN(irot).d]
NoQ == [m |-> <<>>, d |-> 0]
Plain(pos, rot) == Result(pos, rot, <<>>, -1, FALSE, "none", NoQ)

\* ------------------------------------------------------------------ directional specifiers
\* (left of | right of | ahead of | behind | above | below) X [by D]
AxisOf(sub) == CASE sub = "left" -> <<-1, 0, 0>> [] sub = "right" -> <<1, 0, 0>>
                 [] sub = "ahead" -> <<0, 1, 0>> [] sub = "behind" -> <<0, -1, 0>>
                 [] sub = "above" -> <<0, 0, 1>> [] sub = "below" -> <<0, 0, -1>>
AxisIndex(sub) == CASE sub \in {"left", "right"} -> 1 [] sub \in {"ahead", "behind"} -> 2 [] OTHER -> 3
\* vector target: the midpoint of the facing side of the NEW object's bounding box is at X (moved
\*   further by D), in the new object's own orientation;
\* OrientedPoint target: the same in the frame of the OrientedPoint, whose orientation is inherited;
\* Object target: the gap between the two bounding boxes along the target's local axis is D, or half
\*   the NEW object's contactTolerance when D is absent; the target's orientation is inherited.
\* The gap: an explicit scalar D (INCLUDING 0 and 0.0: "the distance between their bounding boxes is exactly
\* the desired scalar distance"); only when `by` is omitted, half the contactTolerance -- of the NEW object
\* (class reference: "Objects are placed at half this distance away ... when a directional specifier like
\* left of Object is used"; the reference object's own contactTolerance plays no role).  A vector D (form
\* "by <scalar/vector>" of the specifier docstrings): its component along the specifier's axis is the gap, the
\* other two components shift the object along the target's other local axes.
\* c.ct is the lattice part of the new object's contactTolerance (scale 4); c.ctmicro its remainder in units
\* of 1e-5 (the default contactTolerance 1e-4 is not on the lattice: ct = 0, ctmicro = 10).
DirAx(c) == AxisIndex(c.sub)
DirGap(c) == IF c.by = "scalar" THEN c.D
             ELSE IF c.by = "vector" THEN c.V[DirAx(c)]
             ELSE IF c.tk = "obj" THEN c.ct \div 2 ELSE 0
DirGapMicro(c) == IF c.by = "none" /\ c.tk = "obj" THEN c.ctmicro \div 2 ELSE 0        \* in 1e-5 units
DirLateral(c) == IF c.by = "vector" THEN [c.V EXCEPT ![DirAx(c)] = 0] ELSE Zero3
DirLen(c) == LET ax == DirAx(c) IN
             (IF c.tk = "obj" THEN c.rdim[ax] \div 2 ELSE 0) + DirGap(c) + c.ndim[ax] \div 2
DirOffset(c) == VAdd(VScale(DirLen(c), AxisOf(c.sub)), DirLateral(c))
DirFrame(c) == IF c.tk = "vec" THEN QMul(Rot(c.par), Own(c.own)) ELSE Rot(c.ref)
DirRot(c) == IF c.tk = "vec" THEN QMul(Rot(c.par), Own(c.own)) ELSE QMul(Rot(c.ref), Own(c.own))
Directional(c) == Plain(Place(c.ref.p, DirFrame(c), DirOffset(c)), DirRot(c))
\* the off-lattice remainder of the position: DirFrame * (axis * micro), at scale DirFrame.d, in 1e-5 units
DirMicro(c) == QApply(DirFrame(c), VScale(DirGapMicro(c), AxisOf(c.sub)))
\* lemma: seen from the target (inverse of its orientation) the new object sits on the target's axis
\* and, when aligned with it, the two boxes are exactly the gap apart
DirLemma(c, e) ==
  LET F == DirFrame(c)
      back == Apply(Transpose(F.m), VSub(e.p, VScale(F.d, c.ref.p)))          \* scale 4 * d^2
      ax == AxisIndex(c.sub)
      tb == [lo |-> VNeg(VScale(F.d * F.d, <<c.rdim[1] \div 2, c.rdim[2] \div 2, c.rdim[3] \div 2>>)),
             hi |-> VScale(F.d * F.d, <<c.rdim[1] \div 2, c.rdim[2] \div 2, c.rdim[3] \div 2>>)]
      nh == VScale(F.d * F.d, <<c.ndim[1] \div 2, c.ndim[2] \div 2, c.ndim[3] \div 2>>)
      nb == [lo |-> VSub(back, nh), hi |-> VAdd(back, nh)]
  IN /\ back = VScale(F.d * F.d, DirOffset(c))
     /\ (c.tk = "obj" /\ c.own = <<0, 0, 0>>) => GapAlong(tb, nb, ax) = F.d * F.d * DirGap(c)
     /\ (c.by = "scalar" /\ c.D = 0 /\ c.tk = "obj" /\ c.own = <<0, 0, 0>>) => BoxesTouch(tb, nb) \/ GapAlong(tb, nb, ax) = 0

\* ------------------------------------------------------------------ beyond A by O from B
\* "coordinates given by the second vector, in a local coordinate system centered at the first vector
\*  and oriented along the line of sight from the third vector"; a scalar D means (0, D, 0);
\* parentOrientation = orientation of the third argument if it is an OrientedPoint (incl. ego), else global
BeyondOffset(c) == IF c.by = "scalar" THEN <<0, c.D, 0>> ELSE c.V
BeyondDir(c) == VSub(c.p1, c.from.p)
BeyondParent(c) == IF c.fromk = "vec" THEN QIdent ELSE Rot(c.from)
Beyond(c) ==
  LET L == SightRot(BeyondDir(c), c.nxy, c.n)
      ideal == QMul(BeyondParent(c), Own(c.own))
      asimpl == Own(c.own)              \* as implemented: the third argument is coerced to a vector first, its orientation is lost
      trig == c.fromk # "vec" /\ ~IsIdentityRot(Rot(c.from))
  IN Result(Place(c.p1, L, BeyondOffset(c)), ideal, <<>>, -1, FALSE,
            IF trig THEN "beyond-parent-orientation" ELSE "none", IF trig THEN asimpl ELSE NoQ)
BeyondLemma(c) == /\ NormsOK(BeyondDir(c), c.nxy, c.n)
                  /\ LET L == SightRot(BeyondDir(c), c.nxy, c.n) IN
                     /\ IsQRot(L)
                     /\ VScale(c.n, QApply(L, Ey)) = VScale(L.d, BeyondDir(c))      \* +Y faces directly away from B
                     /\ QApply(L, Ex)[3] = 0                                          \* no roll: X stays horizontal

\* ------------------------------------------------------------------ offset by / offset along
OffsetBy(c) == Plain(Place(c.ego.p, Rot(c.ego), c.V), QMul(Rot(c.ego), Own(c.own)))
OffsetAlong(c) == Plain(Place(c.ego.p, Rot(c.dir), c.V), QMul(Rot(c.ego), Own(c.own)))

\* ------------------------------------------------------------------ relative to
RelVV(c) == Plain([p |-> VAdd(c.V, c.V2), ps |-> 4], NoQ)
RelVOP(c) == Plain(Place(c.ref.p, Rot(c.ref), c.V), Rot(c.ref))      \* an OrientedPoint inheriting the orientation
\* heading relative to heading: "-5 deg relative to 90 deg is simply 85 degrees"; the value may be the
\* heading itself or the orientation with that yaw (both are stated: angle and matrix)
RelHH(c) == Result(NoPos, QMul(QYaw(c.h2[1], c.h2[2], c.h2[3]), QYaw(c.h1[1], c.h1[2], c.h1[3])), AngSum(c.h1, c.h2), -1, FALSE, "none", NoQ)
\* "starting in the second direction and then rotating according to the first": Y * X
RelOO(c) == Plain(NoPos, QMul(Rot(c.o2), Rot(c.o1)))

\* ------------------------------------------------------------------ facing family
\* facing O: the orientation in GLOBAL coordinates equals O whatever the parent orientation
FacingOrient(c) == Plain(NoPos, Rot(c.target))
\* facing toward / away from T: only the yaw (in the parent's frame) turns the object toward T
FaceDir(c) == LET P == Rot(c.par)
                  dv == Apply(Transpose(P.m), VSub(c.T, c.pos))               \* direction in the parent's frame
              IN IF c.sub \in {"toward", "dtoward"} THEN dv ELSE VNeg(dv)
FacingYaw(c) == LET dv == FaceDir(c) IN
                Plain(NoPos, QMul(Rot(c.par), QNorm(AzRot(dv[1], dv[2], c.nxy))))
FacingDirectly(c) == Plain(NoPos, QMul(Rot(c.par), SightRot(FaceDir(c), c.nxy, c.n)))
FacingLemma(c, e) ==
  LET dv == FaceDir(c)
      gdir == IF c.sub \in {"toward", "dtoward"} THEN VSub(c.T, c.pos) ELSE VSub(c.pos, c.T)
      fwd == Apply(e.r, Ey)                                                    \* global forward axis * rd
  IN /\ Rot(c.par).d = 1
     /\ (c.sub \in {"dtoward", "daway"} => NormsOK(dv, c.nxy, c.n) /\ VScale(c.n, fwd) = VScale(e.rd, gdir))
     /\ (c.sub \in {"toward", "away"} =>
           /\ c.nxy > 0 /\ c.nxy * c.nxy = dv[1] * dv[1] + dv[2] * dv[2]
           \* in the parent's frame the forward axis is horizontal and points along (x, y) of the direction
           /\ VScale(c.nxy, Apply(Transpose(Rot(c.par).m), fwd)) = VScale(e.rd, <<dv[1], dv[2], 0>>))
\* apparently facing H [from B]: "has the given heading with respect to the line of sight from B".
\* A heading is a GLOBAL notion (yaw in the global XY plane), so for a parent orientation that is a pure
\* yaw the global orientation must be yaw(azimuth of the line of sight + H); for a parent with pitch or
\* roll the reference does not say what is meant: free.
Apparently(c) ==
  LET los == VSub(c.pos, c.from)
      tot == QMulN(QNorm(AzRot(los[1], los[2], c.nxy)), QYaw(c.H[1], c.H[2], c.H[3]))
      P == Rot(c.par)
      trig == ~IsIdentityRot(P)
  IN Result(NoPos, tot, <<>>, -1, ~IsYawOnly(P), IF trig THEN "apparently-facing-parent-orientation" ELSE "none",
            IF trig THEN QMulN(P, tot) ELSE NoQ)         \* as implemented: the yaw is not corrected for the parent

\* ------------------------------------------------------------------ facing F / facing O under a given or inherited parent
\* "facing <vector field>: sets yaw, pitch and roll so that the orientation in GLOBAL coordinates is equal
\*  to the orientation provided by the field at the object's position" -- whatever the parent
\* orientation is and wherever it comes from; the local angles are those of  parent^-1 * F[position].
\* The parent is given explicitly (`with parentOrientation`) or inherited:
\*   ahead    `ahead of OP by D`      parent = OP's orientation,  position = OP + P * (0, D + length/2, 0)
\*   offsetby `offset by V`           parent = ego's orientation, position = ego + P * V
\*   in       `in R`   (R = one lattice point with an orientation field)  parent = R's orientation there
\*   on       `on R`   the BASE (bottom centre) of the object at the point, lifted by contactTolerance/2
\*                     along the parent's up axis: position = point + P * (0, 0, height/2 + ct/2)
\* The field of a case is piecewise constant: orientation fa where x > 1/8, fb where x < 1/8 (a seam
\* no quarter-lattice point, rotated by a denominator 1, 5 or 13, can lie on).
FPParent(c) == Rot(c.par)
FPPlace(c) ==
  CASE c.pm \in {"with", "in"} -> [p |-> c.base, ps |-> 4]
    [] c.pm = "ahead" -> Place(c.base, FPParent(c), <<0, c.D + c.ndim[2] \div 2, 0>>)
    [] c.pm = "offsetby" -> Place(c.base, FPParent(c), c.V)
    [] c.pm = "on" -> Place(c.base, FPParent(c), <<0, 0, c.ndim[3] \div 2 + c.ct \div 2>>)
FieldAt(c, pos) == IF 8 * pos.p[1] > pos.ps THEN Rot(c.fa) ELSE Rot(c.fb)
FPTarget(c) == IF c.fk = "field" THEN FieldAt(c, FPPlace(c)) ELSE Rot(c.fa)
FacingUnderParent(c) == Plain(FPPlace(c), FPTarget(c))
FPLemma(c, e) ==
  LET P == FPParent(c) T == FPTarget(c) L == QLocalFor(P, T) IN
  /\ 8 * e.p[1] # e.ps                             \* the position is not on the seam of the field
  /\ IsQRot(L) /\ QEq(QMul(P, L), T)               \* the local angles parent^-1 * F compose back to F
  \* the swapped product F * parent^-1 gives the conjugate, which is F only if the two commute
  /\ (QEq(QMul(P, QMul(T, QInv(P))), T) <=> QEq(QMul(P, T), QMul(T, P)))
FPNonCommuting(c) == ~QEq(QMul(FPParent(c), FPTarget(c)), QMul(FPTarget(c), FPParent(c)))

\* ------------------------------------------------------------------ on (vector | region | Object), modifying form
\* "If position has already been specified, its value is modified by projecting it onto the region (or the
\*  onSurface of the object): we find the closest point in the region along onDirection (or its negation)
\*  and place the BASE of the object at that point", "always offset by half of contactTolerance"; base =
\*  position + baseOffset (bottom centre).  If the region has a preferred orientation the parent orientation
\*  is that orientation there (a mesh SURFACE: z axis = outward face normal, yaw unspecified here), and
\*  the contact offset is applied in that frame; a mesh VOLUME has none (global frame).  Default
\*  onDirection: straight up for volumes, the mean face normal for surfaces (only used for `on Object`,
\*  whose onSurface is its top face).
\* rk = "hollow": boundary surface of one lattice box, explicit onDirection (+-axis);
\*      "stack" : volume made of the lattice boxes c.boxes (e.g. two stacked boxes), default or explicit direction;
\*      "objtop": top surface of an Object with a cube-group orientation, default direction;
\*      "vec"   : specifying form `on V` (base at V).
OnAxis(c) == IF c.dirk = "default" THEN 3 ELSE (CHOOSE k \in 1..3 : c.dir[k] # 0)
OnLift(c) == c.ndim[3] \div 2 + c.ct \div 2
\* with an explicit baseOffset c.bo (global frame: regions without a preferred orientation and `on V`): the BASE
\* = position + baseOffset goes to the hit point, so position = hit - baseOffset + (contactTolerance / 2) up.
\* The default baseOffset (0, 0, -height/2) gives OnLift along z.
OnOff(c) == <<-c.bo[1], -c.bo[2], c.ct \div 2 - c.bo[3]>>
InCross(P, b, ax) == \A j \in (1..3) \ {ax} : b.lo[j] < P[j] /\ P[j] < b.hi[j]
\* faces of the boxes met by the ray from P along sg * e_ax, as <<distance, face coordinate, outward sign>>
RayFaces(c, ax, sg) ==
  UNION {IF InCross(c.P, c.boxes[n], ax)
         THEN {<<AbsI(f[1] - c.P[ax]), f[1], f[2]>> : f \in {x \in {<<c.boxes[n].lo[ax], -1>>, <<c.boxes[n].hi[ax], 1>>} : sg * (x[1] - c.P[ax]) > 0}}
         ELSE {} : n \in 1..Len(c.boxes)}
FirstHit(S) == CHOOSE h \in S : \A g \in S : h[1] <= g[1]
OnCandidates(c) == LET ax == OnAxis(c) IN
                   {FirstHit(RayFaces(c, ax, sg)) : sg \in {k \in {-1, 1} : RayFaces(c, ax, k) # {}}}
InsideVolume(c) == c.rk = "stack" /\ \E n \in 1..Len(c.boxes) : InBoxOpen(c.P, c.boxes[n])
OnBoxes(c) ==
  LET ax == OnAxis(c)
      h == FirstHit(OnCandidates(c))                       \* the NEAREST of the (up to) two first hits
      hit == IF InsideVolume(c) THEN c.P ELSE [c.P EXCEPT ![ax] = h[2]]
      up == IF c.rk = "hollow" THEN VScale(h[3], <<IF ax = 1 THEN 1 ELSE 0, IF ax = 2 THEN 1 ELSE 0, IF ax = 3 THEN 1 ELSE 0>>) ELSE Ez
  IN [pos |-> [p |-> IF c.rk = "stack" THEN VAdd(hit, OnOff(c)) ELSE VAdd(hit, VScale(OnLift(c), up)), ps |-> 4], up |-> up, ups |-> 1]
\* the onSurface of an Object is its top surface: the faces of its occupied space whose normal points
\* (globally) up -- for a box with a cube-group orientation, the top face of its world bounding box
OnObjBox(c) == BoxOf(c.ref.p, Rot(c.ref).m, <<c.rdim[1] \div 2, c.rdim[2] \div 2, c.rdim[3] \div 2>>)
OnObjTop(c) ==
  LET hit == <<c.P[1], c.P[2], OnObjBox(c).hi[3]>>
  IN [pos |-> [p |-> VAdd(hit, <<0, 0, OnLift(c)>>), ps |-> 4], up |-> Ez, ups |-> 1]
OnVec(c) == [pos |-> [p |-> VAdd(c.P, OnOff(c)), ps |-> 4], up |-> Ez, ups |-> 1]
OnResult(c) == CASE c.rk \in {"hollow", "stack"} -> OnBoxes(c) [] c.rk = "objtop" -> OnObjTop(c) [] c.rk = "vec" -> OnVec(c)
OnSpec(c) == Plain(OnResult(c).pos, IF c.rk \in {"stack", "vec"} THEN Own(c.own) ELSE NoQ)
OnLemma(c) ==
  /\ (c.bo = <<0, 0, -(c.ndim[3] \div 2)>> => OnOff(c) = <<0, 0, OnLift(c)>>)      \* the default base is the bottom centre
  /\ (c.rk \in {"hollow", "objtop"} => c.bo = <<0, 0, -(c.ndim[3] \div 2)>>)
  /\ (c.rk \in {"hollow", "stack"} =>
        /\ \A n \in 1..Len(c.boxes), k \in 1..3 : c.P[k] # c.boxes[n].lo[k] /\ c.P[k] # c.boxes[n].hi[k]   \* off every face plane
        /\ (~InsideVolume(c) => OnCandidates(c) # {})
        /\ \A a \in OnCandidates(c), b \in OnCandidates(c) : a # b => a[1] # b[1])                            \* no tie
  /\ (c.rk = "objtop" =>
        /\ Rot(c.ref).d = 1 /\ c.P[3] > OnObjBox(c).hi[3]
        /\ \A k \in 1..2 : OnObjBox(c).lo[k] < c.P[k] /\ c.P[k] < OnObjBox(c).hi[k])
\* does the nearest hit lie AGAINST the given direction although the ray along it hits too? (the cases
\* that tell "nearest of the two hits" from "the hit along +onDirection")
OnDiscriminating(c) ==
  c.rk \in {"hollow", "stack"} /\ ~InsideVolume(c) /\
  LET ax == OnAxis(c) sg == IF c.dirk = "default" THEN 1 ELSE c.dir[ax] IN
  RayFaces(c, ax, sg) # {} /\ RayFaces(c, ax, -sg) # {} /\
  FirstHit(RayFaces(c, ax, -sg))[1] < FirstHit(RayFaces(c, ax, sg))[1]

\* ------------------------------------------------------------------ (front | back | ...) of Object
SideSigns(sub) ==
  CASE sub = "front" -> <<0, 1, 0>> [] sub = "back" -> <<0, -1, 0>> [] sub = "left" -> <<-1, 0, 0>>
    [] sub = "right" -> <<1, 0, 0>> [] sub = "top" -> <<0, 0, 1>> [] sub = "bottom" -> <<0, 0, -1>>
    [] sub = "front left" -> <<-1, 1, 0>> [] sub = "front right" -> <<1, 1, 0>>
    [] sub = "back left" -> <<-1, -1, 0>> [] sub = "back right" -> <<1, -1, 0>>
    [] sub = "top front left" -> <<-1, 1, 1>> [] sub = "top front right" -> <<1, 1, 1>>
    [] sub = "top back left" -> <<-1, -1, 1>> [] sub = "top back right" -> <<1, -1, 1>>
    [] sub = "bottom front left" -> <<-1, 1, -1>> [] sub = "bottom front right" -> <<1, 1, -1>>
    [] sub = "bottom back left" -> <<-1, -1, -1>> [] sub = "bottom back right" -> <<1, -1, -1>>
SideOp(c) == LET s == SideSigns(c.sub) IN
             Plain(Place(c.ref.p, Rot(c.ref), <<s[1] * (c.rdim[1] \div 2), s[2] * (c.rdim[2] \div 2), s[3] * (c.rdim[3] \div 2)>>), Rot(c.ref))
\* the point lies on the boundary of the object's box: a face midpoint, edge midpoint or corner
SideLemma(c, e) == LET R == Rot(c.ref)
                       back == Apply(Transpose(R.m), VSub(e.p, VScale(R.d, c.ref.p)))
                       s == SideSigns(c.sub)
                   IN \A k \in 1..3 : back[k] = R.d * R.d * s[k] * (c.rdim[k] \div 2)

\* ------------------------------------------------------------------ scalar operators
Distance(c) == Result(NoPos, NoQ, <<>>, Norm2(VSub(c.Y, c.X)), FALSE, "none", NoQ)
\* heading (azimuth) from X to Y: zero = due North, anticlockwise positive
Angle(c) == LET dv == VSub(c.Y, c.X) IN Result(NoPos, NoQ, <<dv[2], -dv[1], c.nxy>>, -1, FALSE, "none", NoQ)
Altitude(c) == LET dv == VSub(c.Y, c.X) IN Result(NoPos, NoQ, <<c.nxy, dv[3], c.n>>, -1, FALSE, "none", NoQ)
RelHeading(c) == Result(NoPos, NoQ, AngSum(c.h1, AngNeg(c.h2)), -1, FALSE, "none", NoQ)
\* heading of the OrientedPoint minus the azimuth of the line of sight from B to it
AppHeading(c) == LET dv == VSub(c.ref.p, c.from) IN
                 Result(NoPos, NoQ, AngSum(c.hd, AngNeg(<<dv[2], -dv[1], c.nxy>>)), -1, FALSE, "none", NoQ)
ScalarLemma(c) ==
  LET dv == CASE c.kind = "apphead" -> VSub(c.ref.p, c.from) [] OTHER -> VSub(c.Y, c.X) IN
  /\ (c.kind \in {"angle", "apphead"} => c.nxy > 0 /\ c.nxy * c.nxy = dv[1] * dv[1] + dv[2] * dv[2])
  /\ (c.kind = "altitude" => NormsOK(dv, c.nxy, c.n))
  \* the heading of an orientation with zero pitch is its yaw: the direction of its +Y axis
  /\ (c.kind = "apphead" => c.ref.e[2] = 0 /\ VScale(c.hd[3], QApply(Rot(c.ref), Ey)) = VScale(Rot(c.ref).d, <<-c.hd[2], c.hd[1], 0>>))

\* ------------------------------------------------------------------ Orientation / Vector algebra (Python API)
\* fromEuler, composition A * B ("first A, then B in A's frame"), inverse, localAnglesFor (the Euler
\* angles that, applied in the frame of the parent, give the target), rotation of a vector
OriAlg(c) ==
  CASE c.sub = "euler" -> Plain(NoPos, Rot(c.o1))
    [] c.sub = "mul" -> Plain(NoPos, QMul(Rot(c.o1), Rot(c.o2)))
    [] c.sub = "inv" -> Plain(NoPos, QInv(Rot(c.o1)))
    [] c.sub = "local" -> Plain(NoPos, Rot(c.o2))
    [] c.sub = "rotate" -> Plain(Place(Zero3, Rot(c.o1), c.V), NoQ)
OriLemma(c) == /\ IsQRot(Rot(c.o1))
               /\ QEq(QMul(Rot(c.o1), QInv(Rot(c.o1))), QIdent) /\ QEq(QMul(QInv(Rot(c.o1)), Rot(c.o1)), QIdent)
               /\ (c.sub = "rotate" => Norm2(QApply(Rot(c.o1), c.V)) = Rot(c.o1).d * Rot(c.o1).d * Norm2(c.V))

\* ------------------------------------------------------------------ dispatch
Expected(c) ==
  CASE c.kind = "dir" -> Directional(c)
    [] c.kind = "beyond" -> Beyond(c)
    [] c.kind = "offsetby" -> OffsetBy(c)
    [] c.kind = "offsetalong" -> OffsetAlong(c)
    [] c.kind = "relvv" -> RelVV(c)
    [] c.kind = "relvop" -> RelVOP(c)
    [] c.kind = "relhh" -> RelHH(c)
    [] c.kind = "reloo" -> RelOO(c)
    [] c.kind = "facing" -> (CASE c.sub = "orient" -> FacingOrient(c)
                               [] c.sub \in {"toward", "away"} -> FacingYaw(c)
                               [] c.sub \in {"dtoward", "daway"} -> FacingDirectly(c)
                               [] c.sub = "apparent" -> Apparently(c))
    [] c.kind = "side" -> SideOp(c)
    [] c.kind = "distance" -> Distance(c)
    [] c.kind = "angle" -> Angle(c)
    [] c.kind = "altitude" -> Altitude(c)
    [] c.kind = "relhead" -> RelHeading(c)
    [] c.kind = "apphead" -> AppHeading(c)
    [] c.kind = "ori" -> OriAlg(c)
    [] c.kind = "facep" -> FacingUnderParent(c)
    [] c.kind = "on" -> OnSpec(c)

\* ------------------------------------------------------------------ machine: one state per case
Init == pc = "chunk" /\ chunk \in 1..NChunks /\ i = 0 /\ exp = <<>>
Pick == /\ pc = "chunk"
        /\ \E j \in ((chunk - 1) * ChunkSize + 1)..(IF chunk * ChunkSize < NC THEN chunk * ChunkSize ELSE NC) :
              /\ i' = j /\ exp' = Expected(Cases[j])
        /\ pc' = "case" /\ UNCHANGED chunk
Next == Pick
Spec == Init /\ [][Next]_vars

\* ------------------------------------------------------------------ invariants (frame lemmas)
C == Cases[i]
IsCase == pc = "case"
IsUnit(t) == t[3] > 0 /\ t[1] * t[1] + t[2] * t[2] = t[3] * t[3]
WellFormedResult == IsCase =>
   /\ (exp.rd > 0 => IsQRot([m |-> exp.r, d |-> exp.rd]))
   /\ (exp.ird > 0 => IsQRot([m |-> exp.ir, d |-> exp.ird]))
   /\ (exp.a # <<>> => IsUnit(exp.a))
   /\ (exp.dev = "none" <=> exp.ird = 0)
   /\ (exp.ps > 0 \/ exp.rd > 0 \/ exp.a # <<>> \/ exp.d2 >= 0)
ConstructLemmas == IsCase =>
   /\ (C.kind = "dir" => DirLemma(C, exp))
   /\ (C.kind = "beyond" => BeyondLemma(C))
   /\ (C.kind = "facing" /\ C.sub \in {"toward", "away", "dtoward", "daway"} => FacingLemma(C, exp))
   /\ (C.kind = "facing" /\ C.sub = "apparent" =>
          C.nxy > 0 /\ C.nxy * C.nxy = (C.pos[1] - C.from[1]) * (C.pos[1] - C.from[1]) + (C.pos[2] - C.from[2]) * (C.pos[2] - C.from[2]))
   /\ (C.kind = "side" => SideLemma(C, exp))
   /\ (C.kind = "ori" => OriLemma(C))
   /\ (C.kind = "facep" => FPLemma(C, exp))
   /\ (C.kind = "on" => OnLemma(C))
   /\ (C.kind \in {"angle", "altitude", "apphead"} => ScalarLemma(C))
\* the deviation differs from the ideal only where it is triggered, and then really differs
DeviationScoped == IsCase => (exp.dev # "none" => ~QEq([m |-> exp.r, d |-> exp.rd], [m |-> exp.ir, d |-> exp.ird]))
Emit == IsCase => PrintT(ToJson([id |-> C.id, e |-> exp, nc |-> IF C.kind = "facep" THEN FPNonCommuting(C) ELSE FALSE,
                                  up |-> IF C.kind = "on" /\ C.rk \in {"hollow", "objtop"} THEN OnResult(C).up ELSE <<>>,
                                  ups |-> IF C.kind = "on" /\ C.rk \in {"hollow", "objtop"} THEN OnResult(C).ups ELSE 0,
                                  disc |-> IF C.kind = "on" THEN OnDiscriminating(C) ELSE FALSE,
                                  pe |-> IF C.kind = "dir" THEN DirMicro(C) ELSE <<>>,
                                  pes |-> IF C.kind = "dir" THEN DirFrame(C).d ELSE 0]))
=============================================================================
