------------------------------ MODULE Lifecycle ------------------------------
(* C14: what a simulation may leave behind.                                        *)
(*                                                                                *)
(* State: the projection of the interpreter's global state that the property       *)
(* names (current simulation, running scenarios, running behaviours, guard          *)
(* evaluation flag), which scene objects currently have a per-simulation proxy,     *)
(* the property values seen through the proxies (cur) and stored in the scene's     *)
(* own objects (orig), and each running scenario's override ledger.                 *)
(*                                                                                *)
(* Actions, one per critical section of Simulation.__init__ / DynamicScenario:      *)
(* Begin, Create(o), StartScenario(s), StartBehavior(b), Override(s,o,p,v),          *)
(* SimWrite(o,p,v), StopScenario(s) (children first, revert ledger), and the fault   *)
(* disjunct Fail -- enabled in EVERY state of a running simulation -- followed by    *)
(* the cleanup of the `finally` clause: Destroy, StopBehaviors, the quiet stops of     *)
(* the scenarios still running (each reverting its ledger), DisableProxies,           *)
(* EndSimulation.  SimWrite is any run-time write to a property of a scene object:    *)
(* the simulator's updates of the dynamic properties and assignments made by          *)
(* behaviours/monitors/compose blocks to any property, overridable ones included.      *)
(*                                                                                *)
(* Named as-implemented deviations (each switched by a constant, default FALSE):    *)
(*   LedgerFirstOnly -- DynamicScenario._override keeps only the old values of the   *)
(*     first override of an object, so a property overridden later is not reverted;  *)
(*   FlagBeforeGuard -- Invocable._start marks the scenario running before its       *)
(*     preconditions are checked and a failing check does not clear the mark;        *)
(*   ProxiesBeforeStops -- the finally clause drops the proxies BEFORE it stops the    *)
(*     scenarios, so their reverts write run-time values into the scene's own objects; *)
(*   NamespaceKept -- endSimulation restores the names a behaviour module had but does  *)
(*     not remove those created at run time (a seeded change, never in the code);       *)
(*   RecordAfterEnd -- a file recorder keeps the sample offered after its recording     *)
(*     ended, which then opens the series of the next simulation.                        *)
(* With all FALSE every invariant holds; with any one TRUE TLC produces the           *)
(* counterexample that the conformance harness then looks for in the real code.      *)
EXTENDS Integers, Sequences, FiniteSets, TLC

CONSTANTS Obj, Prop, DynProp, Scen, Beh, Parent,  \* Parent[s] = enclosing scenario (0 for the top one);
                                                    \* DynProp: dynamic properties (simulator-written, not overridable)
          LedgerFirstOnly, FlagBeforeGuard, ProxiesBeforeStops, NamespaceKept, RecordAfterEnd, MaxOps

VARIABLES pc,        \* "idle" | "setup" | "run" | "c1" (in finally) | "c2".."c4" (three cleanup steps) | "c5"
          sim,       \* a simulation is current (veneer.currentSimulation)
          proxied,   \* objects that currently have a dynamic proxy
          running,   \* sequence of running scenarios (veneer.runningScenarios), oldest first
          flagged,   \* scenarios whose _isRunning flag is set
          brun,      \* behaviours running
          ledger,    \* scenario -> function from <<o,p>> to the value to restore
          shadow,    \* history: scenario -> <<o,p>> -> value before its first override (ideal ledger)
          seen,      \* as-implemented bookkeeping: scenario -> objects already in its ledger
          cur,       \* <<o,p>> -> value read through the object (proxy if any)
          orig,      \* <<o,p>> -> value stored in the scene's own object
          nops,      \* bound on the number of run-time operations explored
          outcome,   \* "none" | "ok" | "fault"
          ns,        \* module-level globals that exist only because a behaviour created them at run time
          buf        \* samples waiting in the buffer of the compiled scenario's file recorder
vars == <<pc, sim, proxied, running, flagged, brun, ledger, shadow, seen, cur, orig, nops, outcome, ns, buf>>

Val == 0..2
OP == Obj \X Prop
Empty == [x \in {} |-> 0]
Top == CHOOSE s \in Scen : Parent[s] = 0

Init == /\ pc = "idle" /\ sim = FALSE /\ proxied = {} /\ running = <<>> /\ flagged = {} /\ brun = {}
        /\ ledger = [s \in Scen |-> Empty] /\ shadow = [s \in Scen |-> Empty] /\ seen = [s \in Scen |-> {}]
        /\ cur = [x \in OP |-> 0] /\ orig = [x \in OP |-> 0] /\ nops = 0 /\ outcome = "none"
        /\ ns = {} /\ buf = 0

\* order of the three cleanup steps that follow Destroy
Order == IF ProxiesBeforeStops THEN <<"unproxy", "behaviors", "scenarios">>
                               ELSE <<"behaviors", "scenarios", "unproxy">>
Stages == <<"c2", "c3", "c4", "c5">>
StageOf(what) == Stages[CHOOSE i \in 1..3 : Order[i] = what]
NextOf(what) == Stages[(CHOOSE i \in 1..3 : Order[i] = what) + 1]

IsRunning(s) == \E i \in 1..Len(running) : running[i] = s
Innermost == running[Len(running)]

\* writes go to the proxy when there is one, otherwise they hit the scene's own object
Write(x, v) == /\ cur' = [cur EXCEPT ![x] = v]
               /\ orig' = IF x[1] \in proxied THEN orig ELSE [orig EXCEPT ![x] = v]

Begin == /\ pc = "idle" /\ ~sim
         /\ sim' = TRUE /\ pc' = "setup" /\ outcome' = "none"
         /\ UNCHANGED <<proxied, running, flagged, brun, ledger, shadow, seen, cur, orig, nops, ns, buf>>

Create(o) == /\ pc = "setup" /\ o \notin proxied
             /\ proxied' = proxied \cup {o}
             /\ UNCHANGED <<pc, sim, running, flagged, brun, ledger, shadow, seen, cur, orig, nops, outcome, ns, buf>>

\* start of a scenario: preconditions checked; guardOK = FALSE is the failing check
StartScenario(s, guardOK) ==
  /\ pc \in {"setup", "run"} /\ proxied = Obj /\ ~IsRunning(s) /\ s \notin flagged
  /\ IF Parent[s] = 0 THEN (running = <<>> /\ pc = "setup")      \* the top-level scenario starts once
     ELSE (running # <<>> /\ Innermost = Parent[s])
  /\ IF guardOK
     THEN /\ running' = Append(running, s) /\ flagged' = flagged \cup {s} /\ pc' = "run"
          /\ outcome' = outcome
     ELSE /\ running' = running
          /\ flagged' = IF FlagBeforeGuard THEN flagged \cup {s} ELSE flagged
          /\ pc' = "c1" /\ outcome' = "fault"
  /\ UNCHANGED <<sim, proxied, brun, ledger, shadow, seen, cur, orig, nops, ns, buf>>

StartBehavior(b) == /\ pc = "run" /\ b \notin brun
                    /\ brun' = brun \cup {b}
                    /\ UNCHANGED <<pc, sim, proxied, running, flagged, ledger, shadow, seen, cur, orig, nops, outcome, ns, buf>>

\* `override o with p v` executed by scenario s: the innermost running one (compose block), or a
\* sub-scenario of it that is being prepared (its setup block runs before it is started)
Override(s, o, p, v) ==
  /\ pc = "run" /\ running # <<>> /\ nops < MaxOps /\ p \notin DynProp
  /\ \/ (Innermost = s /\ \A c \in Scen : (Parent[c] = s /\ ~IsRunning(c)) => shadow[c] = Empty)
        \* (a `do Sub` prepares and starts Sub without the parent running in between)
     \/ (~IsRunning(s) /\ Parent[s] = Innermost)
  /\ LET x == <<o, p>> IN
       /\ shadow' = IF x \in DOMAIN shadow[s] THEN shadow
                    ELSE [shadow EXCEPT ![s] = (x :> cur[x]) @@ shadow[s]]
       /\ IF LedgerFirstOnly
          THEN /\ ledger' = IF o \in seen[s] THEN ledger ELSE [ledger EXCEPT ![s] = (x :> cur[x]) @@ ledger[s]]
               /\ seen' = [seen EXCEPT ![s] = seen[s] \cup {o}]
          ELSE /\ ledger' = IF x \in DOMAIN ledger[s] THEN ledger ELSE [ledger EXCEPT ![s] = (x :> cur[x]) @@ ledger[s]]
               /\ seen' = seen
       /\ Write(x, v)
  /\ nops' = nops + 1
  /\ UNCHANGED <<pc, sim, proxied, running, flagged, brun, outcome, ns, buf>>

\* a run-time write: the simulator updating a dynamic property, or user code assigning to any property
SimWrite(o, p, v) ==
  /\ pc = "run" /\ nops < MaxOps
  /\ Write(<<o, p>>, v) /\ nops' = nops + 1
  /\ UNCHANGED <<pc, sim, proxied, running, flagged, brun, ledger, shadow, seen, outcome, ns, buf>>

\* stopping the innermost scenario: revert its ledger, clear its mark
Revert(s) == [x \in OP |-> IF x \in DOMAIN ledger[s] THEN ledger[s][x] ELSE cur[x]]
StopInnermost ==
  /\ pc \in {"run", StageOf("scenarios")} /\ running # <<>>
  /\ LET s == Innermost nc == Revert(s) IN
       /\ cur' = nc
       /\ orig' = [x \in OP |-> IF x[1] \in proxied THEN orig[x] ELSE nc[x]]
       \* (sub-scenario objects of s that were prepared but never started are discarded with it)
       /\ ledger' = [c \in Scen |-> IF c = s \/ Parent[c] = s THEN Empty ELSE ledger[c]]
       /\ seen' = [c \in Scen |-> IF c = s \/ Parent[c] = s THEN {} ELSE seen[c]]
       /\ shadow' = [c \in Scen |-> IF c = s \/ Parent[c] = s THEN Empty ELSE shadow[c]]
       /\ running' = SubSeq(running, 1, Len(running) - 1)
       /\ flagged' = flagged \ {s}
       \* when the top-level scenario stops its recorders end the recording: the series is written (or dropped,
       \* for a discarded run) and the buffer emptied
       /\ buf' = IF Len(running) = 1 THEN 0 ELSE buf
  /\ UNCHANGED <<pc, sim, proxied, brun, nops, outcome, ns>>

\* the fault disjunct: an exception or rejection at any point of a running simulation
Fail == /\ pc \in {"setup", "run"} /\ sim
        /\ pc' = "c1" /\ outcome' = "fault"
        /\ UNCHANGED <<sim, proxied, running, flagged, brun, ledger, shadow, seen, cur, orig, nops, ns, buf>>
Finish == /\ pc = "run" /\ pc' = "c1" /\ outcome' = "ok"
          /\ UNCHANGED <<sim, proxied, running, flagged, brun, ledger, shadow, seen, cur, orig, nops, ns, buf>>

\* the finally clause of Simulation.__init__
Destroy == /\ pc = "c1" /\ pc' = "c2"
           /\ UNCHANGED <<sim, proxied, running, flagged, brun, ledger, shadow, seen, cur, orig, nops, outcome, ns, buf>>
DisableProxies == /\ pc = StageOf("unproxy") /\ proxied' = {} /\ pc' = NextOf("unproxy")
                  /\ cur' = orig     \* reads now see the scene's own objects again
                  /\ UNCHANGED <<sim, running, flagged, brun, ledger, shadow, seen, orig, nops, outcome, ns, buf>>
StopBehaviors == /\ pc = StageOf("behaviors") /\ brun' = {} /\ pc' = NextOf("behaviors")
                 /\ UNCHANGED <<sim, proxied, running, flagged, ledger, shadow, seen, cur, orig, nops, outcome, ns, buf>>
ScenariosStopped == /\ pc = StageOf("scenarios") /\ running = <<>> /\ pc' = NextOf("scenarios")
                    /\ UNCHANGED <<sim, proxied, running, flagged, brun, ledger, shadow, seen, cur, orig, nops, outcome, ns, buf>>
EndSimulation == /\ pc = "c5" /\ sim' = FALSE /\ pc' = "idle"
                 \* the behaviours' module namespaces are put back exactly as they were
                 /\ ns' = IF NamespaceKept THEN ns ELSE {}
                 /\ UNCHANGED <<proxied, running, flagged, brun, ledger, shadow, seen, cur, orig, nops, outcome, buf>>

\* a behaviour creates a module-level global that did not exist before the simulation
CreateGlobal == /\ pc = "run" /\ nops < MaxOps /\ ns = {}
                /\ ns' = {1} /\ nops' = nops + 1
                /\ UNCHANGED <<pc, sim, proxied, running, flagged, brun, ledger, shadow, seen, cur, orig, outcome, buf>>
\* the state of the current step is offered to the file recorder; it is kept only while the recording is on, i.e.
\* while the top-level scenario runs (RecordAfterEnd: the code offers the state of the step in which the
\* top-level scenario stops AFTER the recording has ended, and the recorder keeps it)
RecordSample == /\ pc = "run" /\ nops < MaxOps /\ buf < 2
                /\ (running # <<>> \/ (RecordAfterEnd /\ flagged = {} /\ outcome = "none"))
                /\ buf' = buf + 1 /\ nops' = nops + 1
                /\ UNCHANGED <<pc, sim, proxied, running, flagged, brun, ledger, shadow, seen, cur, orig, outcome, ns>>

Next == \/ Begin \/ Fail \/ Finish \/ StopInnermost \/ CreateGlobal \/ RecordSample
        \/ \E o \in Obj : Create(o)
        \/ \E s \in Scen, g \in BOOLEAN : StartScenario(s, g)
        \/ \E b \in Beh : StartBehavior(b)
        \/ \E s \in Scen, o \in Obj, p \in Prop, v \in 1..2 : Override(s, o, p, v) \/ SimWrite(o, p, v)
        \/ Destroy \/ DisableProxies \/ StopBehaviors \/ ScenariosStopped \/ EndSimulation
Spec == Init /\ [][Next]_vars

\* ------------------------------------------------------------------ properties
\* after every ending the scene, the scenario and the global state are as before
Quiescent == (pc = "idle") =>
   /\ ~sim /\ proxied = {} /\ running = <<>> /\ flagged = {} /\ brun = {}
   /\ ledger[Top] = Empty      \* (the top-level scenario object persists; sub-scenario objects are per-invocation)
   /\ orig = [x \in OP |-> 0]
   /\ ns = {} /\ buf = 0     \* nothing of the run is left in the compiled scenario: no new global, no buffered sample
\* the scene's own objects are never written, in any state of any run
SceneUntouched == orig = [x \in OP |-> 0]
\* when a scenario stops every property it overrode reads as before its first override
RevertOnStop == [][\A s \in Scen :
                     (IsRunning(s) /\ ~(\E i \in 1..Len(running') : running'[i] = s) /\ pc = "run")
                        => \A x \in DOMAIN shadow[s] : cur'[x] = shadow[s][x]]_vars
=============================================================================
