---------------------------- MODULE LifecycleMC ----------------------------
(* Model-checking wrapper for Lifecycle.tla: two objects, two properties, a top-level *)
(* scenario 1, its sub-scenario 2 and 2's sub-scenario 3, one behaviour, at most MaxOps run-time writes.  *)
EXTENDS Lifecycle
ParentDef == (1 :> 0) @@ (2 :> 1) @@ (3 :> 2)
=============================================================================
