---------------------------- MODULE LifecycleTrace ----------------------------
(* Trace validation for C14: each recorded run of the real simulator (events       *)
(* logged by wrappers around veneer.beginSimulation / endSimulation,                *)
(* enableDynamicProxyFor, DynamicScenario._start / _override / _stop,               *)
(* Simulation.destroy, and value read-backs of the tracked properties) must be a     *)
(* behaviour of Lifecycle.tla; every invariant of Lifecycle is evaluated at every    *)
(* step.  Unlogged steps (StopBehaviors, ScenariosStopped) are silent.               *)
(* Events: <<"begin">> <<"create", o>> <<"start", s, ok>> <<"override", s, o, p, v>>  *)
(*   <<"write", o, p, v>> <<"stop", s>> <<"val", o, p, v>> <<"destroy", okFlag>> <<"unproxy">> <<"end">>    *)
(*   <<"idle">>.   Many traces per run: Init picks the trace number.                  *)
EXTENDS Lifecycle, Json, IOUtils

Traces == JsonDeserialize(IOEnv.TRACES)
NT == Len(Traces)

VARIABLES tid, l
tvars == <<vars, tid, l>>

Tr == Traces[tid]
Ev == Tr[l]
Is(e) == l <= Len(Tr) /\ Ev[1] = e /\ l' = l + 1 /\ tid' = tid

TInit == Init /\ tid \in 1..NT /\ l = 1

TBegin == Is("begin") /\ Begin
TCreate == Is("create") /\ Create(Ev[2])
TStart == Is("start") /\ StartScenario(Ev[2], Ev[3])
TOverride == Is("override") /\ Override(Ev[2], Ev[3], Ev[4], Ev[5])
TWrite == Is("write") /\ SimWrite(Ev[2], Ev[3], Ev[4])
TStop == Is("stop") /\ running # <<>> /\ Innermost = Ev[2] /\ StopInnermost
\* a read-back of a tracked property: the model must predict the value the code shows
TVal == Is("val") /\ cur[<<Ev[2], Ev[3]>>] = Ev[4] /\ UNCHANGED vars
\* entering the finally clause (after a fault or a normal finish) and destroying the simulation
TDestroy == /\ Is("destroy") /\ pc \in {"setup", "run", "c1"}
            /\ pc' = "c2" /\ outcome' = IF pc = "c1" THEN outcome ELSE IF Ev[2] THEN "ok" ELSE "fault"
            /\ UNCHANGED <<sim, proxied, running, flagged, brun, ledger, shadow, seen, cur, orig, nops, ns, buf>>
TUnproxy == Is("unproxy") /\ DisableProxies
TEnd == Is("end") /\ EndSimulation
\* the end of the run: Lifecycle's Quiescent must hold in the model state the events led to
\* (checked here as a guard so that one bad trace is rejected instead of stopping the batch)
TIdle == Is("idle") /\ pc = "idle" /\ Quiescent /\ UNCHANGED vars
Silent == (StopBehaviors \/ ScenariosStopped) /\ UNCHANGED <<tid, l>>

TNext == TBegin \/ TCreate \/ TStart \/ TOverride \/ TWrite \/ TStop \/ TVal \/ TDestroy \/ TUnproxy \/ TEnd \/ TIdle \/ Silent
TSpec == TInit /\ [][TNext]_tvars

\* progress report: the furthest position reached in each trace (workers = 1)
ASSUME \A i \in 1..NT : TLCSet(i, 0)
Progress == IF TLCGet(tid) < l THEN TLCSet(tid, l) ELSE TRUE
Report == PrintT(ToJson([reached |-> [i \in 1..NT |-> TLCGet(i)], len |-> [i \in 1..NT |-> Len(Traces[i])]]))
=============================================================================
