-------------------------- MODULE LifecycleTraceMC --------------------------
(* Wrapper fixing the scenario tree of the C14 program template for trace validation. *)
EXTENDS LifecycleTrace
ParentDef == (1 :> 0) @@ (2 :> 1) @@ (3 :> 2)
=============================================================================
