------------------------------ MODULE MapCache ------------------------------
(* C20, second half: the cache protocol of Network.fromFile.                      *)
(*                                                                                *)
(* "A network loaded from its cache is equivalent to one parsed from the map, and  *)
(*  the cache is ignored when the map or the map options differ."                  *)
(*                                                                                *)
(* State: the map file's content (its digest), the map options the next load will   *)
(* pass, the pickle format version of the running code, and the cache file next to  *)
(* the map: absent, valid for (map digest d, options digest o, version v) holding   *)
(* the pickled network c, or corrupt.  A network is identified by the pair          *)
(* <<map content, options>> it was built from (the harness compares exported         *)
(* structures, see harness/c20.py).                                                  *)
(*                                                                                *)
(* Load(useCache, writeCache) follows the grain of the code (fromFile / fromPickle): *)
(* the cache is consulted only when useCache and the file exists; fromPickle checks  *)
(* version, map digest, options digest in that order; any failure falls back to      *)
(* parsing; after a parse writeCache rewrites the cache; a hit returns early and     *)
(* writes nothing.  The MEANING (what must hold whatever the grain) is in the         *)
(* properties below; TLC checks them on every behaviour of length <= MaxLen and       *)
(* EmitState prints every behaviour for the replay on the real code (binding M1).     *)
EXTENDS Integers, Sequences, FiniteSets, TLC, Json

CONSTANTS MaxLen,      \* bound on the number of actions
          NMaps,       \* map contents 1..NMaps (EditMap cycles through them)
          NOpts,       \* option sets 1..NOpts
          Kinds,       \* ways to corrupt the cache file (strings, meaningful to the harness)
          AsImplemented \* FALSE: the ideal protocol, replayed on the code.  TRUE: adds the named
                        \* as-implemented deviation "corrupt-cache-served" below

VARIABLES mapD, opt, ver, cache, last, hist
vars == <<mapD, opt, ver, cache, last, hist>>

Absent == [k |-> "absent", d |-> 0, o |-> 0, v |-> 0, c |-> <<0, 0>>, kind |-> ""]
Valid(d, o, v) == [k |-> "valid", d |-> d, o |-> o, v |-> v, c |-> <<d, o>>, kind |-> ""]
Corrupt(kind) == [k |-> "corrupt", d |-> 0, o |-> 0, v |-> 0, c |-> <<0, 0>>, kind |-> kind]
NoLoad == [outcome |-> "none", why |-> "", net |-> <<0, 0>>, cur |-> <<0, 0>>, use |-> FALSE, write |-> FALSE]

Init == /\ mapD = 1 /\ opt = 1 /\ ver = 1 /\ cache = Absent /\ last = NoLoad /\ hist = <<>>

\* the decision list of fromFile + fromPickle (diagnostic: which check refused the cache)
Why(u) == IF ~u THEN "cache-not-requested"
          ELSE IF cache.k = "absent" THEN "no-cache-file"
          ELSE IF cache.k = "corrupt" THEN "corrupt"
          ELSE IF cache.v # ver THEN "version"
          ELSE IF cache.d # mapD THEN "map-digest"
          ELSE IF cache.o # opt THEN "options-digest"
          ELSE "match"

Load(u, w) ==
  LET hit == Why(u) = "match" IN
  /\ last' = [outcome |-> IF hit THEN "hit" ELSE "parse", why |-> Why(u),
              net |-> IF hit THEN cache.c ELSE <<mapD, opt>>,      \* what the caller gets
              cur |-> <<mapD, opt>>, use |-> u, write |-> w]
  /\ cache' = IF ~hit /\ w THEN Valid(mapD, opt, ver) ELSE cache
  /\ hist' = Append(hist, [a |-> "Load", use |-> u, write |-> w, kind |-> ""])
  /\ UNCHANGED <<mapD, opt, ver>>

EditMap ==
  /\ NMaps > 1
  /\ mapD' = (mapD % NMaps) + 1
  /\ hist' = Append(hist, [a |-> "EditMap", use |-> FALSE, write |-> FALSE, kind |-> ""])
  /\ UNCHANGED <<opt, ver, cache, last>>

ChangeOptions ==
  /\ NOpts > 1
  /\ opt' = (opt % NOpts) + 1
  /\ hist' = Append(hist, [a |-> "ChangeOptions", use |-> FALSE, write |-> FALSE, kind |-> ""])
  /\ UNCHANGED <<mapD, ver, cache, last>>

CorruptCache(kind) ==
  /\ cache.k = "valid"
  /\ cache' = Corrupt(kind)
  /\ hist' = Append(hist, [a |-> "CorruptCache", use |-> FALSE, write |-> FALSE, kind |-> kind])
  /\ UNCHANGED <<mapD, opt, ver, last>>

\* AS-IMPLEMENTED deviation "corrupt-cache-served".  fromPickle unpickles straight from the gzip
\* stream and never reads it to its end, so the CRC-32 / length trailer of the stream is never
\* verified: a body damaged in a way that still unpickles (about 4 % of all single-byte flips of a
\* small cache file) passes the three header checks and is served as a hit, although what it holds
\* is not the parsed network (sometimes not a Network at all).
\* Trigger: the header (version, map digest, options digest) is intact, the damage is in the body.
\* In the ideal protocol such a file is just "corrupt" and Load falls back to parsing; with
\* AsImplemented = TRUE the file keeps its header and TLC reports FreshNetwork violated.
DamageBody ==
  /\ AsImplemented /\ cache.k = "valid"
  /\ cache' = [cache EXCEPT !.k = "damaged", !.c = <<0, 0>>]
  /\ hist' = Append(hist, [a |-> "DamageBody", use |-> FALSE, write |-> FALSE, kind |-> "bitflip"])
  /\ UNCHANGED <<mapD, opt, ver, last>>

\* the code is upgraded (or downgraded) to another pickle format version
BumpVersion ==
  /\ ver' = 3 - ver
  /\ hist' = Append(hist, [a |-> "BumpVersion", use |-> FALSE, write |-> FALSE, kind |-> ""])
  /\ UNCHANGED <<mapD, opt, cache, last>>

Next == \/ \E u, w \in BOOLEAN : Load(u, w)
        \/ EditMap \/ ChangeOptions \/ BumpVersion
        \/ \E kind \in Kinds : CorruptCache(kind)
        \/ DamageBody

Spec == Init /\ [][Next]_vars
Bounded == Len(hist) <= MaxLen

\* ------------------------------------------------------------------ the property
TypeOK == /\ mapD \in 1..NMaps /\ opt \in 1..NOpts /\ ver \in 1..2
          /\ cache.k \in {"absent", "valid", "corrupt", "damaged"}
          /\ last.outcome \in {"none", "hit", "parse"}

IsLoadStep == Len(hist') = Len(hist) + 1 /\ hist'[Len(hist')].a = "Load"

\* whatever was loaded -- from the cache or by parsing -- is the network of the CURRENT map
\* content under the CURRENT options ("equivalent to one parsed from the map"; a stale cache is
\* never served)
FreshNetwork == last.outcome # "none" => last.net = last.cur
\* a cache HIT happens only when version, map digest and options digest all match
HitOnlyWhenAllMatch ==
  [][(IsLoadStep /\ last'.outcome = "hit") =>
        /\ last'.use /\ cache.k = "valid"
        /\ cache.v = ver /\ cache.d = mapD /\ cache.o = opt]_vars
\* ... and (documentation of useCache: "use a cached version of the map, if one exists and
\* matches") it does happen then
HitWhenAllMatch ==
  [][(IsLoadStep /\ last'.use /\ cache.k = "valid" /\ cache.v = ver /\ cache.d = mapD /\ cache.o = opt)
        => last'.outcome = "hit"]_vars
\* the cache file is honest: what it holds is the network of the map/options its header names
CacheHonest == cache.k = "valid" => cache.c = <<cache.d, cache.o>>
\* writeCache rewrites the cache after a parse; nothing else does; a hit leaves it alone
WriteRewrites ==
  [][IsLoadStep =>
        IF last'.outcome = "parse" /\ last'.write
        THEN cache' = Valid(mapD, opt, ver)
        ELSE cache' = cache]_vars
OnlyLoadWrites == [][cache'.k = "valid" /\ cache' # cache => IsLoadStep]_vars
\* a miss never raises but falls back to parsing: loading is possible in every state, whatever
\* the state of the cache file
LoadTotal == \A u, w \in BOOLEAN : ENABLED Load(u, w)
\* caching is not vacuous: a load that may write, immediately followed by a load that may read, hits
CacheIsUsed ==
  [][(IsLoadStep /\ last'.use /\ last.outcome # "none" /\ last.write
      /\ Len(hist) > 0 /\ hist[Len(hist)].a = "Load") => last'.outcome = "hit"]_vars

\* every behaviour (the history is part of the state), printed for the replay
EmitState ==
  Len(hist) <= MaxLen =>
  PrintT(ToJson([hist |-> hist, last |-> last, cache |-> cache, mapD |-> mapD, opt |-> opt, ver |-> ver]))
=============================================================================
