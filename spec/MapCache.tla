------------------------------ MODULE MapCache ------------------------------
(* C20, second half: the cache protocol of Network.fromFile.                      *)
(*                                                                                *)
(* "A network loaded from its cache is equivalent to one parsed from the map, and  *)
(*  the cache is ignored when the map or the map options differ."                  *)
(*                                                                                *)
(* State: the map file's content (its digest), the map options the next load will   *)
(* pass, the pickle format version of the running code, and the cache file next to  *)
(* the map: absent, valid for (map digest d, options digest o, version v) holding   *)
(* the pickled network c, or corrupt.  A network is identified by the pair          *)
(* <<map content, options>> it was built from (the harness compares exported         *)
(* structures, see harness/c20.py).                                                  *)
(*                                                                                *)
(* Load(useCache, writeCache) follows the grain of the code (fromFile / fromPickle): *)
(* the cache is consulted only when useCache and the file exists; fromPickle checks  *)
(* version, map digest, options digest in that order; any failure falls back to      *)
(* parsing; after a parse writeCache rewrites the cache; a hit returns early and     *)
(* writes nothing.  The MEANING (what must hold whatever the grain) is in the         *)
(* properties below; TLC checks them on every behaviour of length <= MaxLen and       *)
(* EmitState prints every behaviour for the replay on the real code (binding M1).     *)
(*                                                                                *)
(* OPTIONS.  An option set is a *valuation as passed by the caller* (a kwargs dict: *)
(* an option may be absent, explicitly equal to its default, falsy -- 0, 0.0, False  *)
(* --, None, or another value).  Eff[d][o] is the class of the network that a fresh   *)
(* parse of map content d under option set o yields (measured by the harness: two     *)
(* option sets are equivalent on a map iff the parsed networks are indistinguishable  *)
(* in structure, geometry, lookups and the option-dependent observables).  The cache  *)
(* may be used ONLY if the file digest matches and the FULL option valuation is       *)
(* equivalent (HitOnlyWhenAllMatch, FreshNetwork use Eff); it MUST be used when the   *)
(* caller passes the very same option set again (HitWhenAllMatch).  In between (a     *)
(* different spelling of an equivalent valuation, e.g. {} and {tolerance: 0.05}) the   *)
(* code may hit or parse: Load below parses, as the code does, and the replay accepts  *)
(* a hit that returns the right network (don't-care).                                  *)
(* Two shapes of behaviours: Pairs = FALSE -- every action sequence up to MaxLen over  *)
(* a few option sets; Pairs = TRUE -- over the WHOLE option universe, the sequences     *)
(*   SetOptions(o1); Load(no cache, write or not); Idle | EditMap | BumpVersion |        *)
(*   CorruptCache; SetOptions(o2); Load(use cache, write)                                *)
(* i.e. every ordered pair of option sets with the cache present / absent / stale /      *)
(* corrupt in between.                                                                   *)
EXTENDS Integers, Sequences, FiniteSets, TLC, Json, IOUtils

CONSTANTS MaxLen,      \* bound on the number of actions
          NMaps,       \* map contents 1..NMaps (EditMap cycles through them)
          NOpts,       \* option sets 1..NOpts
          Kinds,       \* ways to corrupt the cache file (strings, meaningful to the harness)
          AsImplemented, \* FALSE: the ideal protocol, replayed on the code.  TRUE: adds the named
                         \* as-implemented deviation "corrupt-cache-served" below
          Pairs          \* FALSE: free action sequences; TRUE: ordered pairs of option sets (see above)

\* Eff[d][o]: class of the network parsed from map content d under option set o (a JSON array of
\* arrays measured by the harness; TLC's cfg files cannot hold tuples, so it comes through a file)
Eff == JsonDeserialize(IOEnv.EFF)

VARIABLES mapD, opt, ver, cache, last, hist
vars == <<mapD, opt, ver, cache, last, hist>>

Absent == [k |-> "absent", d |-> 0, o |-> 0, v |-> 0, c |-> <<0, 0>>, kind |-> ""]
Valid(d, o, v) == [k |-> "valid", d |-> d, o |-> o, v |-> v, c |-> <<d, o>>, kind |-> ""]
Corrupt(kind) == [k |-> "corrupt", d |-> 0, o |-> 0, v |-> 0, c |-> <<0, 0>>, kind |-> kind]
NoLoad == [outcome |-> "none", why |-> "", net |-> <<0, 0>>, cur |-> <<0, 0>>, use |-> FALSE, write |-> FALSE]

Init == /\ mapD = 1 /\ opt = 1 /\ ver = 1 /\ cache = Absent /\ last = NoLoad /\ hist = <<>>

\* the decision list of fromFile + fromPickle (diagnostic: which check refused the cache)
Why(u) == IF ~u THEN "cache-not-requested"
          ELSE IF cache.k = "absent" THEN "no-cache-file"
          ELSE IF cache.k = "corrupt" THEN "corrupt"
          ELSE IF cache.v # ver THEN "version"
          ELSE IF cache.d # mapD THEN "map-digest"
          ELSE IF cache.o # opt THEN "options-digest"
          ELSE "match"

Load(u, w) ==
  LET hit == Why(u) = "match" IN
  /\ last' = [outcome |-> IF hit THEN "hit" ELSE "parse", why |-> Why(u),
              net |-> IF hit THEN cache.c ELSE <<mapD, opt>>,      \* what the caller gets
              cur |-> <<mapD, opt>>, use |-> u, write |-> w]
  /\ cache' = IF ~hit /\ w THEN Valid(mapD, opt, ver) ELSE cache
  /\ hist' = Append(hist, [a |-> "Load", use |-> u, write |-> w, kind |-> "", o |-> 0])
  /\ UNCHANGED <<mapD, opt, ver>>

EditMap ==
  /\ NMaps > 1
  /\ mapD' = (mapD % NMaps) + 1
  /\ hist' = Append(hist, [a |-> "EditMap", use |-> FALSE, write |-> FALSE, kind |-> "", o |-> 0])
  /\ UNCHANGED <<opt, ver, cache, last>>

ChangeOptions ==
  /\ NOpts > 1
  /\ opt' = (opt % NOpts) + 1
  /\ hist' = Append(hist, [a |-> "ChangeOptions", use |-> FALSE, write |-> FALSE, kind |-> "", o |-> 0])
  /\ UNCHANGED <<mapD, ver, cache, last>>

\* pairs mode: the caller passes option set o from now on (any o, also the current one)
SetOptions(o) ==
  /\ opt' = o
  /\ hist' = Append(hist, [a |-> "SetOptions", use |-> FALSE, write |-> FALSE, kind |-> "", o |-> o])
  /\ UNCHANGED <<mapD, ver, cache, last>>

\* pairs mode: nothing happens between the two loads (the cache stays as the first load left it)
Idle ==
  /\ hist' = Append(hist, [a |-> "Idle", use |-> FALSE, write |-> FALSE, kind |-> "", o |-> 0])
  /\ UNCHANGED <<mapD, opt, ver, cache, last>>

CorruptCache(kind) ==
  /\ cache.k = "valid"
  /\ cache' = Corrupt(kind)
  /\ hist' = Append(hist, [a |-> "CorruptCache", use |-> FALSE, write |-> FALSE, kind |-> kind, o |-> 0])
  /\ UNCHANGED <<mapD, opt, ver, last>>

\* AS-IMPLEMENTED deviation "corrupt-cache-served".  fromPickle unpickles straight from the gzip
\* stream and never reads it to its end, so the CRC-32 / length trailer of the stream is never
\* verified: a body damaged in a way that still unpickles (about 4 % of all single-byte flips of a
\* small cache file) passes the three header checks and is served as a hit, although what it holds
\* is not the parsed network (sometimes not a Network at all).
\* Trigger: the header (version, map digest, options digest) is intact, the damage is in the body.
\* In the ideal protocol such a file is just "corrupt" and Load falls back to parsing; with
\* AsImplemented = TRUE the file keeps its header and TLC reports FreshNetwork violated.
DamageBody ==
  /\ AsImplemented /\ cache.k = "valid"
  /\ cache' = [cache EXCEPT !.k = "damaged", !.c = <<0, 0>>]
  /\ hist' = Append(hist, [a |-> "DamageBody", use |-> FALSE, write |-> FALSE, kind |-> "bitflip", o |-> 0])
  /\ UNCHANGED <<mapD, opt, ver, last>>

\* the code is upgraded (or downgraded) to another pickle format version
BumpVersion ==
  /\ ver' = 3 - ver
  /\ hist' = Append(hist, [a |-> "BumpVersion", use |-> FALSE, write |-> FALSE, kind |-> "", o |-> 0])
  /\ UNCHANGED <<mapD, opt, cache, last>>

\* which actions may happen where: anywhere in free mode, by position in pairs mode
Pos == Len(hist) + 1
LoadOK(u, w) == ~Pairs \/ (Pos = 2 /\ ~u) \/ (Pos = 5 /\ u /\ w)
Between == ~Pairs \/ Pos = 3
DoLoad == \E u, w \in BOOLEAN : LoadOK(u, w) /\ Load(u, w)
DoEditMap == Between /\ EditMap
DoChangeOptions == ~Pairs /\ ChangeOptions
DoBumpVersion == Between /\ BumpVersion
DoCorruptCache == Between /\ \E kind \in Kinds : CorruptCache(kind)
DoDamageBody == ~Pairs /\ DamageBody
DoSetOptions == Pairs /\ Pos \in {1, 4} /\ \E o \in 1..NOpts : SetOptions(o)
DoIdle == Pairs /\ Pos = 3 /\ Idle
Next == \/ DoLoad \/ DoEditMap \/ DoChangeOptions \/ DoBumpVersion \/ DoCorruptCache
        \/ DoDamageBody \/ DoSetOptions \/ DoIdle

Spec == Init /\ [][Next]_vars
Bounded == Len(hist) <= MaxLen

\* ------------------------------------------------------------------ the property
TypeOK == /\ mapD \in 1..NMaps /\ opt \in 1..NOpts /\ ver \in 1..2
          /\ cache.k \in {"absent", "valid", "corrupt", "damaged"}
          /\ last.outcome \in {"none", "hit", "parse"}

IsLoadStep == Len(hist') = Len(hist) + 1 /\ hist'[Len(hist')].a = "Load"

\* whatever was loaded -- from the cache or by parsing -- is the network of the CURRENT map
\* content under the CURRENT options ("equivalent to one parsed from the map"; a stale cache is
\* never served)
SameNet(a, b) == a[1] = b[1] /\ a[1] \in 1..NMaps /\ Eff[a[1]][a[2]] = Eff[b[1]][b[2]]
FreshNetwork == last.outcome # "none" => SameNet(last.net, last.cur)
\* a cache HIT happens only when version, map digest and the full option valuation all match
HitOnlyWhenAllMatch ==
  [][(IsLoadStep /\ last'.outcome = "hit") =>
        /\ last'.use /\ cache.k = "valid"
        /\ cache.v = ver /\ cache.d = mapD /\ Eff[mapD][cache.o] = Eff[mapD][opt]]_vars
\* ... and (documentation of useCache: "use a cached version of the map, if one exists and
\* matches") it does happen then
HitWhenAllMatch ==
  [][(IsLoadStep /\ last'.use /\ cache.k = "valid" /\ cache.v = ver /\ cache.d = mapD /\ cache.o = opt)
        => last'.outcome = "hit"]_vars
\* the cache file is honest: what it holds is the network of the map/options its header names
CacheHonest == cache.k = "valid" => cache.c = <<cache.d, cache.o>>
\* writeCache rewrites the cache after a parse; nothing else does; a hit leaves it alone
WriteRewrites ==
  [][IsLoadStep =>
        IF last'.outcome = "parse" /\ last'.write
        THEN cache' = Valid(mapD, opt, ver)
        ELSE cache' = cache]_vars
OnlyLoadWrites == [][cache'.k = "valid" /\ cache' # cache => IsLoadStep]_vars
\* a miss never raises but falls back to parsing: loading is possible in every state, whatever
\* the state of the cache file
LoadTotal == \A u, w \in BOOLEAN : ENABLED Load(u, w)
\* caching is not vacuous: a load that may write, immediately followed by a load that may read, hits
CacheIsUsed ==
  [][(IsLoadStep /\ last'.use /\ last.outcome # "none" /\ last.write
      /\ Len(hist) > 0 /\ hist[Len(hist)].a = "Load") => last'.outcome = "hit"]_vars

\* every behaviour (the history is part of the state), printed for the replay
EmitState ==
  Len(hist) <= MaxLen =>
  PrintT(ToJson([hist |-> hist, last |-> last, cache |-> cache, mapD |-> mapD, opt |-> opt, ver |-> ver]))
=============================================================================
