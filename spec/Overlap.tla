------------------------------ MODULE Overlap ------------------------------
(* C04 -- object overlap and containment tests agree with exact solid geometry.  *)
(*                                                                              *)
(* Part (i): the exact oracle on the lattice sub-universe (DESIGN.md 1.4).      *)
(* A solid is a finite union of axis-aligned boxes with integer coordinates     *)
(* (real coordinate x 4; every coordinate is even, i.e. the real solids live on *)
(* the half-unit lattice).  A catalogue shape is given in its local frame,      *)
(* centred on its bounding-box centre, as interior-disjoint parts grouped into  *)
(* bodies (connected components); a pose is one of the 24 cube rotations (a     *)
(* signed permutation matrix: a rotated lattice box is again an axis-aligned    *)
(* lattice box) followed by a lattice translation.  On such solids              *)
(*    OverlapS (interiors intersect), TouchS (closures meet, interiors do not), *)
(*    InsideS / StrictInsideS (containment, containment in the interior),       *)
(*    Gap2S (squared distance)                                                  *)
(* are integer computations.  Containment is decided by volumes: a box lies in  *)
(* a union of interior-disjoint boxes iff the volumes of its intersections with *)
(* them add up to its own volume; "in the interior" is the same test on the box *)
(* grown by one quarter unit (sound and complete because every face lies on an  *)
(* even coordinate).                                                            *)
(*                                                                              *)
(* Part (ii): the decision lists of                                             *)
(*    Object.intersects            (planar-box fast path F1, then)              *)
(*    MeshVolumeRegion.intersects  (passes P1, P2A/P2B, P3, P4, P5)             *)
(*    MeshVolumeRegion.containsObject (passes C1 .. C5)                         *)
(*    PolygonalFootprintRegion.containsObject (G1 .. G3)                        *)
(*    Object.minimumDistanceTo     (2-D fast path D1, FCL distance D2)          *)
(* as sequences of guarded exits over named exact quantities.  The grain (which *)
(* exits exist, in which order) is the code's; the meaning of every quantity is *)
(* the one the code's comments / the reference give it (circumradius = radius   *)
(* of a ball about the position containing the solid, inradius = radius of a    *)
(* ball about an interior point contained in the solid, ...).  Internal choices *)
(* the code makes (which interior point, which candidate point) are             *)
(* nondeterministic.  TLC checks, for every configuration of the universe,      *)
(*    - ExitsSound: every exit, whenever its guard (and the precondition its    *)
(*      comment relies on) holds in exact arithmetic, returns the oracle answer *)
(*      (or the configuration merely touches: don't-care);                      *)
(*    - DoneSound: whatever exit decides, the list returns the oracle answer;   *)
(*    - totality: no deadlock before an answer (CHECK_DEADLOCK TRUE);           *)
(*    - OracleLemmas: the oracle's operators are mutually consistent.           *)
(* In batch mode EmitDone prints, per configuration, the expected answer        *)
(* ("T" / "F" / "free" when touching), the exit that decides and, for           *)
(* distances, gap^2.                                                            *)
EXTENDS Integers, Sequences, FiniteSets, TLC, Json, IOUtils, SequencesExt

Data   == JsonDeserialize(IOEnv.OV_DATA)
Mode   == IOEnv.OV_MODE            \* "batch" | "universe"
Shapes == Data.shapes              \* [name, kind ("box" = BoxShape | "mesh"), parts, body]
Rots   == Data.rots                \* 24 signed permutation matrices
Polys  == Data.polys               \* rectilinear footprints: [name, rects (2-D boxes)]
Cases  == Data.cases               \* batch mode
Univ   == Data.universe            \* universe mode: blocks of index sets
NS == Len(Shapes)
NR == Len(Rots)

\* ------------------------------------------------------------------ integers
Max2(a, b) == IF a > b THEN a ELSE b
Min2(a, b) == IF a < b THEN a ELSE b
Abs(a) == IF a < 0 THEN -a ELSE a
Sq(a) == a * a
SetMax(S) == CHOOSE x \in S : \A y \in S : y <= x
SetMin(S) == CHOOSE x \in S : \A y \in S : x <= y
\* sqrt(d2) > sqrt(r2) + sqrt(s2)   and   sqrt(d2) < sqrt(r2) + sqrt(s2)   on squares
GtSum(d2, r2, s2) == LET t == d2 - r2 - s2 IN t > 0 /\ Sq(t) > 4 * r2 * s2
LtSum(d2, r2, s2) == LET t == d2 - r2 - s2 IN t < 0 \/ Sq(t) < 4 * r2 * s2

\* ------------------------------------------------------------------ boxes
Box(lo, hi) == [lo |-> lo, hi |-> hi]
AddV(u, v) == <<u[1] + v[1], u[2] + v[2], u[3] + v[3]>>
D2(u, v) == Sq(u[1] - v[1]) + Sq(u[2] - v[2]) + Sq(u[3] - v[3])
Ext(a, i) == a.hi[i] - a.lo[i]
Vol(a) == Ext(a, 1) * Ext(a, 2) * Ext(a, 3)
IVol(a, b) == LET e(i) == Max2(0, Min2(a.hi[i], b.hi[i]) - Max2(a.lo[i], b.lo[i]))
              IN e(1) * e(2) * e(3)
BoxOverlap(a, b) == \A i \in 1..3 : a.lo[i] < b.hi[i] /\ b.lo[i] < a.hi[i]
BoxMeet(a, b) == \A i \in 1..3 : a.lo[i] <= b.hi[i] /\ b.lo[i] <= a.hi[i]
BoxIn(a, b) == \A i \in 1..3 : b.lo[i] <= a.lo[i] /\ a.hi[i] <= b.hi[i]
AxGap(a, b, i) == Max2(0, Max2(a.lo[i] - b.hi[i], b.lo[i] - a.hi[i]))
BoxGap2(a, b) == Sq(AxGap(a, b, 1)) + Sq(AxGap(a, b, 2)) + Sq(AxGap(a, b, 3))
Grow(a) == Box(<<a.lo[1] - 1, a.lo[2] - 1, a.lo[3] - 1>>, <<a.hi[1] + 1, a.hi[2] + 1, a.hi[3] + 1>>)
Corners(a) == {<<x, y, z>> : x \in {a.lo[1], a.hi[1]}, y \in {a.lo[2], a.hi[2]}, z \in {a.lo[3], a.hi[3]}}
PtBoxD2(x, a) == LET g(i) == Max2(0, Max2(a.lo[i] - x[i], x[i] - a.hi[i]))
                 IN Sq(g(1)) + Sq(g(2)) + Sq(g(3))
PtInClosed(x, a) == \A i \in 1..3 : a.lo[i] <= x[i] /\ x[i] <= a.hi[i]
PtInOpen(x, a) == \A i \in 1..3 : a.lo[i] < x[i] /\ x[i] < a.hi[i]
Centre(a) == <<(a.lo[1] + a.hi[1]) \div 2, (a.lo[2] + a.hi[2]) \div 2, (a.lo[3] + a.hi[3]) \div 2>>
Cube1(x) == Box(<<x[1] - 1, x[2] - 1, x[3] - 1>>, <<x[1] + 1, x[2] + 1, x[3] + 1>>)

\* ------------------------------------------------------------------ solids = sequences of boxes
Idx(A) == 1..Len(A)
RECURSIVE SumIV(_, _, _)
SumIV(a, R, k) == IF k = 0 THEN 0 ELSE IVol(a, R[k]) + SumIV(a, R, k - 1)
OverlapS(A, B) == \E i \in Idx(A), j \in Idx(B) : BoxOverlap(A[i], B[j])
MeetS(A, B) == \E i \in Idx(A), j \in Idx(B) : BoxMeet(A[i], B[j])
TouchS(A, B) == MeetS(A, B) /\ ~OverlapS(A, B)
InsideS(A, R) == \A i \in Idx(A) : SumIV(A[i], R, Len(R)) = Vol(A[i])
StrictInsideS(A, R) == \A i \in Idx(A) : SumIV(Grow(A[i]), R, Len(R)) = Vol(Grow(A[i]))
Gap2S(A, B) == SetMin({BoxGap2(A[i], B[j]) : i \in Idx(A), j \in Idx(B)})
BBoxS(A) == Box(<<SetMin({A[i].lo[1] : i \in Idx(A)}), SetMin({A[i].lo[2] : i \in Idx(A)}), SetMin({A[i].lo[3] : i \in Idx(A)})>>,
                <<SetMax({A[i].hi[1] : i \in Idx(A)}), SetMax({A[i].hi[2] : i \in Idx(A)}), SetMax({A[i].hi[3] : i \in Idx(A)})>>)
CornersS(A) == UNION {Corners(A[i]) : i \in Idx(A)}
\* a lattice point in the interior / in the closure of a solid
IntPt(x, A) == SumIV(Cube1(x), A, Len(A)) = 8
ClosedPt(x, A) == \E i \in Idx(A) : PtInClosed(x, A[i])

\* ------------------------------------------------------------------ poses
ApplyRot(M, v) == <<M[1][1] * v[1] + M[1][2] * v[2] + M[1][3] * v[3],
                    M[2][1] * v[1] + M[2][2] * v[2] + M[2][3] * v[3],
                    M[3][1] * v[1] + M[3][2] * v[2] + M[3][3] * v[3]>>
RotBox(M, b) == LET u == ApplyRot(M, b.lo) w == ApplyRot(M, b.hi)
                IN Box(<<Min2(u[1], w[1]), Min2(u[2], w[2]), Min2(u[3], w[3])>>,
                       <<Max2(u[1], w[1]), Max2(u[2], w[2]), Max2(u[3], w[3])>>)
Shift(b, p) == Box(AddV(b.lo, p), AddV(b.hi, p))
NParts(s) == Len(Shapes[s].parts)
(* TLC keeps a function constructor nested inside another value lazy and re-evaluates its body  *)
(* at every application; MkSeq builds a concrete tuple instead (solids have at most 4 parts).   *)
MkSeq(n, F(_)) == CASE n = 1 -> <<F(1)>>
                    [] n = 2 -> <<F(1), F(2)>>
                    [] n = 3 -> <<F(1), F(2), F(3)>>
                    [] n = 4 -> <<F(1), F(2), F(3), F(4)>>
RotPartsT == [sr \in (1..NS) \X (1..NR) |->
                MkSeq(NParts(sr[1]), LAMBDA k : RotBox(Rots[sr[2]], Shapes[sr[1]].parts[k]))]
World(s, r, p) == LET RP == RotPartsT[<<s, r>>] IN MkSeq(NParts(s), LAMBDA k : Shift(RP[k], p))
YawOnly(r) == Rots[r][3][3] = 1        \* pitch = roll = 0

\* ------------------------------------------------------------------ per-shape tables (local frame)
ConvexT   == [s \in 1..NS |-> NParts(s) = 1]
BoxKindT  == [s \in 1..NS |-> Shapes[s].kind = "box"]
NBodiesT  == [s \in 1..NS |-> SetMax(Range(Shapes[s].body))]
Origin    == <<0, 0, 0>>
\* circumradius^2 about the position (Shape._circumradius: farthest vertex from the centre)
Circ2T    == [s \in 1..NS |-> SetMax({D2(v, Origin) : v \in CornersS(Shapes[s].parts)})]
\* candidate interior points: the centres of the parts (for a box: its centre)
IPT       == [s \in 1..NS |-> MkSeq(NParts(s), LAMBDA k : Centre(Shapes[s].parts[k]))]
CircIP2T  == [s \in 1..NS |-> MkSeq(NParts(s), LAMBDA k : SetMax({D2(v, IPT[s][k]) : v \in CornersS(Shapes[s].parts)}))]
OriginInT == [s \in 1..NS |-> ClosedPt(Origin, Shapes[s].parts)]
\* the complement of a solid as a finite set of (possibly very long) boxes: cells of the grid
\* spanned by the part coordinates that lie in no part
BIG == 400
Ivals(C) == {<<c, d>> \in C \X C : c < d /\ ~\E e \in C : c < e /\ e < d}
CutsAx(P, i) == {P[k].lo[i] : k \in Idx(P)} \cup {P[k].hi[i] : k \in Idx(P)} \cup {-BIG, BIG}
CompCells(P) == {c \in {Box(<<x[1], y[1], z[1]>>, <<x[2], y[2], z[2]>>) :
                            x \in Ivals(CutsAx(P, 1)), y \in Ivals(CutsAx(P, 2)), z \in Ivals(CutsAx(P, 3))} :
                   ~\E k \in Idx(P) : BoxIn(c, P[k])}
CompT     == [s \in 1..NS |-> SetToSeq(CompCells(Shapes[s].parts))]
\* inradius^2 about an interior point = squared distance to the complement
In2T      == [s \in 1..NS |-> MkSeq(NParts(s), LAMBDA k : SetMin({PtBoxD2(IPT[s][k], CompT[s][c]) : c \in 1..Len(CompT[s])}))]
WorldComp(s, r, p) == [c \in 1..Len(CompT[s]) |-> Shift(RotBox(Rots[r], CompT[s][c]), p)]

\* well-formedness of the catalogue (generator sanity rule, checked before anything else)
WellFormedShape(s) ==
  LET P == Shapes[s].parts bd == Shapes[s].body bb == BBoxS(P) IN
  /\ \A k \in Idx(P), i \in 1..3 : P[k].lo[i] % 2 = 0 /\ P[k].hi[i] % 2 = 0 /\ P[k].lo[i] < P[k].hi[i]
  /\ \A k, l \in Idx(P) : k # l => ~BoxOverlap(P[k], P[l])                      \* interior-disjoint parts
  /\ \A i \in 1..3 : bb.lo[i] = -bb.hi[i]                                        \* centred
  /\ \A k, l \in Idx(P) : bd[k] # bd[l] => ~BoxMeet(P[k], P[l])                  \* bodies are apart
  /\ (Len(P) > 1 => SumIV(bb, P, Len(P)) < Vol(bb))                              \* several parts: not convex
  /\ \A k \in Idx(P) : IntPt(IPT[s][k], P)
ASSUME \A s \in 1..NS : WellFormedShape(s)
ASSUME \A r \in 1..NR : \A i \in 1..3 : Abs(Rots[r][i][1]) + Abs(Rots[r][i][2]) + Abs(Rots[r][i][3]) = 1

\* ------------------------------------------------------------------ bodies; what FCL's collide sees
PartsOf(s, b) == {k \in 1..NParts(s) : Shapes[s].body[k] = b}
MeetB(A, IA, B, IB) == \E i \in IA, j \in IB : BoxMeet(A[i], B[j])
RECURSIVE SumIVB(_, _, _, _)
SumIVB(a, B, IB, k) == IF k = 0 THEN 0 ELSE (IF k \in IB THEN IVol(a, B[k]) ELSE 0) + SumIVB(a, B, IB, k - 1)
StrictInB(A, IA, B, IB) == \A i \in IA : SumIVB(Grow(A[i]), B, IB, Len(B)) = Vol(Grow(A[i]))
(* fcl.collide on the FCL geometries Scenic builds: a convex shape is a solid (fcl.Convex), any    *)
(* other shape is its triangulated surface (fcl.BVHModel).  Every body of the catalogue is a        *)
(* topological ball, so for two bodies whose closures meet: the surfaces meet unless one lies in    *)
(* the interior of the other; a solid meets a surface unless the solid lies inside that surface.    *)
FclHit(A, sa, B, sb) ==
  \E ba \in 1..NBodiesT[sa], bb \in 1..NBodiesT[sb] :
     LET IA == PartsOf(sa, ba) IB == PartsOf(sb, bb) IN
     /\ MeetB(A, IA, B, IB)
     /\ (ConvexT[sb] \/ ~StrictInB(A, IA, B, IB))
     /\ (ConvexT[sa] \/ ~StrictInB(B, IB, A, IA))

\* ------------------------------------------------------------------ footprints
ZBIG == 200
ExtrudeT == [p \in 1..Len(Polys) |->
               MkSeq(Len(Polys[p].rects), LAMBDA k :
                 Box(<<Polys[p].rects[k].lo[1], Polys[p].rects[k].lo[2], -ZBIG>>,
                     <<Polys[p].rects[k].hi[1], Polys[p].rects[k].hi[2], ZBIG>>))]
Extrude(p) == ExtrudeT[p]
Rect2Meet(a, b) == \A i \in 1..2 : a.lo[i] <= b.hi[i] /\ b.lo[i] <= a.hi[i]
Rect2Gap2(a, b) == Sq(AxGap(a, b, 1)) + Sq(AxGap(a, b, 2))

\* ================================================================== the machine
VARIABLES cfg, pc, q, ans, dval, exit
ovars == <<cfg, pc, q, ans, dval, exit>>

(* The pose of a solid is its GLOBAL orientation = parentOrientation * local orientation (the    *)
(* object's own yaw / pitch / roll are relative to its parent frame).  A configuration gives the  *)
(* (parent, local) pair of each solid (qa, la) / (qb, lb); they are composed with the exact       *)
(* lattice rotations, and everything below -- the solids, and in particular whether a box is      *)
(* "planar" (lies flat: no global pitch / roll) -- uses the composed rotations ra / rb only.      *)
MatMul(A, B) == [r \in 1..3 |-> [c \in 1..3 |-> A[r][1] * B[1][c] + A[r][2] * B[2][c] + A[r][3] * B[3][c]]]
SameMat(A, B) == \A r \in 1..3, c \in 1..3 : A[r][c] = B[r][c]
ComposeT == [qr \in (1..NR) \X (1..NR) |-> CHOOSE g \in 1..NR : SameMat(Rots[g], MatMul(Rots[qr[1]], Rots[qr[2]]))]
(* Generic frame (containment configurations): g = 1 turns the WHOLE configuration (container and *)
(* object, positions and orientations) by the rational yaw with cos = 3/5, sin = 4/5 about the    *)
(* world z axis.  Overlap, containment and distances are invariant under this common rigid motion, *)
(* so the oracle and every radius / ball quantity are computed in the lattice frame; only what    *)
(* the code measures on WORLD axis-aligned bounding boxes changes (the objects' world boxes are   *)
(* then noticeably larger than the solids): it is computed exactly on the turned corners with     *)
(* coordinates scaled by 5 (W5), and world points are taken back to the lattice frame scaled by   *)
(* 25 (Back25).                                                                                   *)
MkCfg(id, proc, api, a, qa, la, pa, b, qb, lb, pb, poly, g) ==
  [id |-> id, proc |-> proc, api |-> api, a |-> a, qa |-> qa, la |-> la, ra |-> ComposeT[<<qa, la>>], pa |-> pa,
   b |-> b, qb |-> qb, lb |-> lb, rb |-> ComposeT[<<qb, lb>>], pb |-> pb, poly |-> poly, g |-> g]
W5(v) == <<3 * v[1] - 4 * v[2], 4 * v[1] + 3 * v[2], 5 * v[3]>>
Back25(X) == <<3 * X[1] + 4 * X[2], 3 * X[2] - 4 * X[1], 5 * X[3]>>
AABB5(S) == LET P == {W5(c) : c \in CornersS(S)} IN
            Box(<<SetMin({x[1] : x \in P}), SetMin({x[2] : x \in P}), SetMin({x[3] : x \in P})>>,
                <<SetMax({x[1] : x \in P}), SetMax({x[2] : x \in P}), SetMax({x[3] : x \in P})>>)
\* closed overlap of the world bounding boxes
BBMeetF(g, A, B) == IF g = 0 THEN BoxMeet(BBoxS(A), BBoxS(B)) ELSE BoxMeet(AABB5(A), AABB5(B))
\* every corner of the object's world bounding box strictly inside (a part of) R
BBInF(g, O, R) == IF g = 0 THEN StrictInsideS(<<BBoxS(O)>>, R)
                  ELSE \A X \in Corners(AABB5(O)) : \E j \in Idx(R) :
                          \A i \in 1..3 : 25 * R[j].lo[i] < Back25(X)[i] /\ Back25(X)[i] < 25 * R[j].hi[i]

OvInit ==
  /\ pc = "measure" /\ q = <<>> /\ ans = FALSE /\ dval = -1 /\ exit = "-"
  /\ \/ /\ Mode = "batch"
        /\ \E k \in 1..Len(Cases) :
             cfg = MkCfg(Cases[k].id, Cases[k].proc, Cases[k].api, Cases[k].a, Cases[k].qa, Cases[k].ra, Cases[k].pa,
                         Cases[k].b, Cases[k].qb, Cases[k].rb, Cases[k].pb, Cases[k].poly, Cases[k].g)
     \/ /\ Mode = "universe"
        /\ \E u \in 1..Len(Univ) :
             \E a \in Range(Univ[u].sa), qa \in Range(Univ[u].sqa), ra \in Range(Univ[u].sra),
                b \in Range(Univ[u].sb), qb \in Range(Univ[u].sqb), rb \in Range(Univ[u].srb),
                dx \in Range(Univ[u].dx), dy \in Range(Univ[u].dy), dz \in Range(Univ[u].dz), g \in Range(Univ[u].sg) :
               cfg = MkCfg(0, Univ[u].proc, Univ[u].api, a, qa, ra, Univ[u].pa, b, qb, rb,
                           AddV(Univ[u].pa, <<dx, dy, dz>>), Univ[u].poly, g)

\* ---- measured exact quantities -------------------------------------------------
\* Measure computes what depends on the configuration only; Choose adds what depends on the
\* internal choices of the code (interior points, candidate points).
QPairBase(c) ==
  LET A == World(c.a, c.ra, c.pa)
      B == World(c.b, c.rb, c.pb)
      ovl == OverlapS(A, B)
      meet == MeetS(A, B)
      planar == ConvexT[c.a] /\ ConvexT[c.b] /\ YawOnly(c.ra) /\ YawOnly(c.rb)
  IN [ovl |-> ovl, touch |-> meet /\ ~ovl, gap2 |-> Gap2S(A, B),
      d2 |-> D2(c.pa, c.pb), circA2 |-> Circ2T[c.a], circB2 |-> Circ2T[c.b],
      pre |-> c.api = "obj",
      bbMeet |-> BoxMeet(BBoxS(A), BBoxS(B)),
      hit |-> FclHit(A, c.a, B, c.b),
      convA |-> ConvexT[c.a], convB |-> ConvexT[c.b], bcA |-> NBodiesT[c.a], bcB |-> NBodiesT[c.b],
      planar |-> planar,
      fast |-> planar /\ c.api = "obj" /\ BoxKindT[c.a] /\ BoxKindT[c.b],
      zA |-> c.pa[3], zB |-> c.pb[3],
      hA |-> Ext(Shapes[c.a].parts[1], 3), hB |-> Ext(Shapes[c.b].parts[1], 3),
      polyMeet |-> Rect2Meet(A[1], B[1]), pgap2 |-> Rect2Gap2(A[1], B[1])]
QPairChoice(c, ia, ib) ==
  LET A == World(c.a, c.ra, c.pa)
      B == World(c.b, c.rb, c.pb)
      ipA == AddV(c.pa, ApplyRot(Rots[c.ra], IPT[c.a][ia]))
      ipB == AddV(c.pb, ApplyRot(Rots[c.rb], IPT[c.b][ib]))
  IN [ipd2 |-> D2(ipA, ipB), inA2 |-> In2T[c.a][ia], inB2 |-> In2T[c.b][ib],
      cipA2 |-> CircIP2T[c.a][ia], cipB2 |-> CircIP2T[c.b][ib],
      aHasIpB |-> IntPt(ipB, A), aMayIpB |-> ClosedPt(ipB, A),
      bHasIpA |-> IntPt(ipA, B), bMayIpA |-> ClosedPt(ipA, B)]

QContBase(c) ==
  LET R == World(c.a, c.ra, c.pa)
      O == World(c.b, c.rb, c.pb)
      vo == CornersS(O)
  IN [ins |-> InsideS(O, R), sins |-> StrictInsideS(O, R),
      bbMeet |-> BBMeetF(c.g, R, O), bbInB |-> BoxIn(BBoxS(O), BBoxS(R)),
      ovl |-> OverlapS(O, R),
      convR |-> ConvexT[c.a],
      bbIn |-> BBInF(c.g, O, R),
      vertsIn |-> \A v \in vo : IntPt(v, R),
      vertsInClosed |-> \A v \in vo : ClosedPt(v, R)]
QContChoice(c, kc, kq) ==   \* kc / kq: candidate point of the object / of the region (0 = position)
  LET R == World(c.a, c.ra, c.pa)
      O == World(c.b, c.rb, c.pb)
      cand == IF kc = 0 THEN c.pb ELSE AddV(c.pb, ApplyRot(Rots[c.rb], IPT[c.b][kc]))
      qp == IF kq = 0 THEN c.pa ELSE AddV(c.pa, ApplyRot(Rots[c.ra], IPT[c.a][kq]))
      RC == WorldComp(c.a, c.ra, c.pa)
      vo == CornersS(O)
  IN [candIn |-> ClosedPt(cand, R),
      rho2 |-> IF IntPt(cand, R) THEN SetMin({PtBoxD2(cand, RC[k]) : k \in 1..Len(RC)}) ELSE 0,
      ocirc2 |-> SetMax({D2(v, cand) : v \in vo}),
      rcirc2 |-> SetMax({D2(v, qp) : v \in CornersS(R)}),
      omax2 |-> SetMax({D2(v, qp) : v \in vo})]

QFoot(c) ==
  LET P == Extrude(c.poly)
      O == World(c.b, c.rb, c.pb)
  IN [ins |-> InsideS(O, P), sins |-> StrictInsideS(O, P),
      convO |-> ConvexT[c.b],
      bbIn |-> InsideS(<<BBoxS(O)>>, P),
      ovl |-> OverlapS(O, P)]

\* the code takes the object's position / the region's bounding-box centre as candidate point
\* when the solid contains it, otherwise a sampled interior point (here: any part centre)
CandChoices(s) == IF OriginInT[s] THEN {0} ELSE 1..NParts(s)
\* in a generic frame the region's candidate is the centre of its WORLD bounding box (if the region
\* contains it), which is no lattice point: any candidate is allowed (PASS 4 is sound for every point)
CandChoicesR(c) == IF c.g = 1 THEN 0..NParts(c.a) ELSE CandChoices(c.a)

Measure ==
  /\ pc = "measure" /\ pc' = "choose"
  /\ q' = CASE cfg.proc \in {"isect", "dist"} -> QPairBase(cfg)
             [] cfg.proc = "cont" -> QContBase(cfg)
             [] cfg.proc = "foot" -> QFoot(cfg)
  /\ UNCHANGED <<cfg, ans, dval, exit>>

Choose ==
  /\ pc = "choose" /\ pc' = "run"
  /\ \/ /\ cfg.proc \in {"isect", "dist"}
        /\ \E ia \in 1..NParts(cfg.a), ib \in 1..NParts(cfg.b) : q' = q @@ QPairChoice(cfg, ia, ib)
     \/ /\ cfg.proc = "cont"
        /\ \E kc \in CandChoices(cfg.b), kq \in CandChoicesR(cfg) : q' = q @@ QContChoice(cfg, kc, kq)
     \/ /\ cfg.proc = "foot" /\ q' = q
  /\ UNCHANGED <<cfg, ans, dval, exit>>

(* A decision list is a sequence of guarded exits tried in order: exit k is taken iff it is     *)
(* reached (no earlier exit fired) and its guard holds.  One action per exit (so that TLC's      *)
(* coverage counts how often each exit decides); Reach.. spells out "no earlier exit fired".     *)
Run(p) == pc = "run" /\ cfg.proc = p
Finish(e, a) == pc' = "done" /\ exit' = e /\ ans' = a /\ UNCHANGED <<cfg, q, dval>>
FinishD(e, v) == pc' = "done" /\ exit' = e /\ dval' = v /\ UNCHANGED <<cfg, q, ans>>
FreeOr(free, v) == IF free THEN BOOLEAN ELSE {v}

\* ---- Object.intersects: planar-box fast path, then MeshVolumeRegion.intersects ----------
ZApart == 2 * Abs(q.zA - q.zB) > q.hA + q.hB          \* |zA - zB| > (hA + hB) / 2
G1     == GtSum(q.d2, q.circA2, q.circB2)              \* centres farther apart than the circumradii
G2in   == LtSum(q.ipd2, q.inA2, q.inB2)                \* inscribed balls overlap
G2circ == GtSum(q.ipd2, q.cipA2, q.cipB2)              \* circumscribed balls about the interior points apart
P4Definite == q.aHasIpB \/ q.bHasIpA
P4Possible == q.aMayIpB \/ q.bMayIpA
P4Answers == {b \in BOOLEAN : (P4Definite => b) /\ (b => P4Possible)}
ReachP1 == ~q.fast
ReachP2 == ReachP1 /\ ~G1
ReachP3 == ReachP2 /\ (IF q.pre THEN ~G2in /\ ~G2circ ELSE q.bbMeet)
ReachP4 == ReachP3 /\ ~q.hit /\ ~(q.convA /\ q.convB)
ReachP5 == ReachP4 /\ ~(q.bcA = 1 /\ q.bcB = 1)

F1zExit      == Run("isect") /\ q.fast /\ ZApart /\ Finish("F1z", FALSE)
F1polyExit   == Run("isect") /\ q.fast /\ ~ZApart /\ Finish("F1poly", q.polyMeet)
P1Exit       == Run("isect") /\ ReachP1 /\ G1 /\ Finish("P1", FALSE)
P2inExit     == Run("isect") /\ ReachP2 /\ q.pre /\ G2in /\ Finish("P2in", TRUE)
P2circExit   == Run("isect") /\ ReachP2 /\ q.pre /\ ~G2in /\ G2circ /\ Finish("P2circ", FALSE)
P2bbExit     == Run("isect") /\ ReachP2 /\ ~q.pre /\ ~q.bbMeet /\ Finish("P2bb", FALSE)
P3hitExit    == Run("isect") /\ ReachP3 /\ q.hit /\ Finish("P3hit", TRUE)
P3convexExit == Run("isect") /\ ReachP3 /\ ~q.hit /\ q.convA /\ q.convB /\ Finish("P3convex", FALSE)
P4Exit       == Run("isect") /\ ReachP4 /\ q.bcA = 1 /\ q.bcB = 1 /\ \E b \in P4Answers : Finish("P4", b)
P5Exit       == Run("isect") /\ ReachP5 /\ \E b \in FreeOr(q.touch, q.ovl) : Finish("P5", b)

\* ---- Object.minimumDistanceTo (squared) ----------------------------------------
D1Exit == Run("dist") /\ q.fast /\ q.zA = q.zB /\ FinishD("D2d", q.pgap2)
D2Exit == Run("dist") /\ ~(q.fast /\ q.zA = q.zB) /\ FinishD("Dfcl", q.gap2)
(* As-implemented deviation (third-party FCL, known finding "fcl-convex-distance"): when an      *)
(* fcl.Convex geometry is involved (at least one convex shape), fcl.distance may return the      *)
(* distance between two points of the solids that are not the closest ones -- an over-estimate   *)
(* of the gap, still at most the distance between the farthest points of the circumscribed       *)
(* balls, (d + rA + rB)^2 <= 3 (d^2 + rA^2 + rB^2).  Trigger: the FCL path is taken (no 2-D     *)
(* fast path), the solids are disjoint and at least one of them is convex.  v2 is the squared    *)
(* reported distance.                                                                            *)
FclConvexTrigger == (q.convA \/ q.convB) /\ ~(q.fast /\ q.zA = q.zB) /\ q.gap2 > 0
DevUB2 == 3 * (q.d2 + q.circA2 + q.circB2)
DistAsImplemented(v2) == FclConvexTrigger /\ v2 >= q.gap2 /\ v2 <= DevUB2
(* Second as-implemented deviation (known finding "nested-nonconvex-distance"): a non-convex     *)
(* shape is given to FCL as its triangulated surface, so when a solid lies strictly inside a     *)
(* non-convex solid (no surface contact: the model's FclHit is false although the solids         *)
(* overlap) the reported distance is the positive distance to that surface.  Trigger: overlap    *)
(* and no FCL hit (impossible when both are convex).                                             *)
NestedTrigger == q.ovl /\ ~q.hit
DistNestedAsImplemented(v2) == NestedTrigger /\ v2 > 0 /\ v2 <= DevUB2

\* ---- MeshVolumeRegion.containsObject --------------------------------------------
ContFree == q.ins /\ ~q.sins                              \* inside but touching the boundary: don't-care
ReachC2 == q.bbMeet
ReachC3 == ReachC2 /\ ~q.convR
ReachC4 == ReachC3 /\ q.candIn /\ ~(q.rho2 > q.ocirc2)
ReachC5 == ReachC4 /\ ~(q.omax2 > q.rcirc2)
C1Exit      == Run("cont") /\ ~q.bbMeet /\ Finish("C1", FALSE)
C2bbExit    == Run("cont") /\ ReachC2 /\ q.convR /\ q.bbIn /\ Finish("C2bb", TRUE)
C2vertsExit == Run("cont") /\ ReachC2 /\ q.convR /\ ~q.bbIn
                 /\ \E b \in FreeOr(q.vertsInClosed /\ ~q.vertsIn, q.vertsIn) : Finish("C2verts", b)
C3outExit   == Run("cont") /\ ReachC3 /\ ~q.candIn /\ Finish("C3out", FALSE)
C3ballExit  == Run("cont") /\ ReachC3 /\ q.candIn /\ q.rho2 > q.ocirc2 /\ Finish("C3ball", TRUE)
C4farExit   == Run("cont") /\ ReachC4 /\ q.omax2 > q.rcirc2 /\ Finish("C4far", FALSE)
C5Exit      == Run("cont") /\ ReachC5 /\ \E b \in FreeOr(ContFree, q.ins) : Finish("C5", b)

\* ---- PolygonalFootprintRegion.containsObject --------------------------------------
\* the projected convex hull lies between the exact projection and the bounding rectangle
HullIn == {h \in BOOLEAN : (q.bbIn => h) /\ (h => q.ins)}
G1convexExit == Run("foot") /\ q.convO /\ \E b \in FreeOr(ContFree, q.ins) : Finish("G1convex", b)
G2hullExit   == Run("foot") /\ ~q.convO /\ TRUE \in HullIn /\ Finish("G2hull", TRUE)
G3Exit       == Run("foot") /\ ~q.convO /\ FALSE \in HullIn /\ \E b \in FreeOr(ContFree, q.ins) : Finish("G3exact", b)

Done == pc = "done" /\ UNCHANGED ovars

OvNext == \/ Measure \/ Choose
          \/ F1zExit \/ F1polyExit
          \/ P1Exit \/ P2inExit \/ P2circExit \/ P2bbExit
          \/ P3hitExit \/ P3convexExit \/ P4Exit \/ P5Exit
          \/ D1Exit \/ D2Exit
          \/ C1Exit \/ C2bbExit \/ C2vertsExit
          \/ C3outExit \/ C3ballExit \/ C4farExit \/ C5Exit
          \/ G1convexExit \/ G2hullExit \/ G3Exit
          \/ Done

OvSpec == OvInit /\ [][OvNext]_ovars

\* ================================================================== what TLC checks
PairProc == cfg.proc \in {"isect", "dist"}
AgreeOvl(b) == q.touch \/ b = q.ovl
AgreeIns(b) == ContFree \/ b = q.ins

TypeOK == /\ pc \in {"measure", "choose", "run", "done"}
          /\ ans \in BOOLEAN /\ dval \in Int

\* whatever exit decided, the answer is the oracle's (or the configuration merely touches)
DoneSound ==
  pc = "done" =>
     CASE cfg.proc = "isect" -> AgreeOvl(ans)
       [] cfg.proc = "dist"  -> dval = q.gap2
       [] cfg.proc \in {"cont", "foot"} -> AgreeIns(ans)

\* every shortcut is sound on its own: its guard (with the precondition its comment relies on),
\* evaluated in exact arithmetic, implies the oracle's answer -- wherever it sits in the list.
\* Checked once per configuration and internal choice (in the state right after Choose).
ExitsSoundIsect ==
  (cfg.proc = "isect" /\ pc = "run") =>
     /\ (q.planar /\ ZApart) => AgreeOvl(FALSE)
     /\ (q.planar /\ ~ZApart) => AgreeOvl(q.polyMeet)
     /\ G1 => AgreeOvl(FALSE)
     /\ G2in => AgreeOvl(TRUE)
     /\ G2circ => AgreeOvl(FALSE)
     /\ ~q.bbMeet => AgreeOvl(FALSE)
     /\ q.hit => AgreeOvl(TRUE)
     /\ (~q.hit /\ q.convA /\ q.convB) => AgreeOvl(FALSE)
     /\ (~q.hit /\ q.bcA = 1 /\ q.bcB = 1) => \A b \in P4Answers : AgreeOvl(b)
ExitsSoundDist ==
  (cfg.proc = "dist" /\ pc = "run") =>
     /\ (q.planar /\ q.zA = q.zB) => q.pgap2 = q.gap2
ExitsSoundCont ==
  (cfg.proc = "cont" /\ pc = "run") =>
     /\ ~q.bbMeet => AgreeIns(FALSE)
     /\ (q.convR /\ q.bbIn) => AgreeIns(TRUE)
     /\ q.convR => (q.vertsIn = q.sins /\ q.vertsInClosed = q.ins)
     /\ ~q.candIn => AgreeIns(FALSE)
     /\ (q.candIn /\ q.rho2 > q.ocirc2) => AgreeIns(TRUE)
     /\ q.omax2 > q.rcirc2 => AgreeIns(FALSE)
ExitsSoundFoot ==
  (cfg.proc = "foot" /\ pc = "run") =>
     /\ q.bbIn => q.ins
     /\ \A h \in HullIn : h => AgreeIns(TRUE)
ExitsSound == ExitsSoundIsect /\ ExitsSoundDist /\ ExitsSoundCont /\ ExitsSoundFoot

\* the oracle's operators are mutually consistent
FirstPass == pc = "choose"      \* the state right after Measure
OracleLemmas ==
  /\ (FirstPass /\ PairProc) =>
        /\ (q.gap2 = 0) = (q.ovl \/ q.touch)
        /\ ~(q.ovl /\ q.touch)
        /\ q.ovl => q.bbMeet
        /\ q.ovl = (\E i \in 1..NParts(cfg.a), j \in 1..NParts(cfg.b) :
                        IVol(World(cfg.a, cfg.ra, cfg.pa)[i], World(cfg.b, cfg.rb, cfg.pb)[j]) > 0)
        /\ q.d2 = D2(cfg.pb, cfg.pa)
  /\ (FirstPass /\ cfg.proc \in {"cont", "foot"}) =>
        /\ q.sins => q.ins
        /\ q.ins => q.ovl
  /\ (FirstPass /\ cfg.proc = "cont") =>
        /\ q.ins => (q.bbInB /\ q.vertsInClosed)
        /\ q.sins => q.vertsIn

\* batch mode: one line per configuration and internal choice
Exp3(free, v) == IF free THEN "free" ELSE IF v THEN "T" ELSE "F"
EmitDone ==
  (pc = "done" /\ Mode = "batch") =>
     PrintT(ToJson([id |-> cfg.id, proc |-> cfg.proc, exit |-> exit, ans |-> ans, dval |-> dval,
                    exp |-> IF PairProc THEN Exp3(q.touch, q.ovl) ELSE Exp3(ContFree, q.ins),
                    gap2 |-> IF PairProc THEN q.gap2 ELSE -1,
                    devub2 |-> IF PairProc THEN DevUB2 ELSE -1,
                    trig |-> IF cfg.proc = "dist" THEN FclConvexTrigger ELSE FALSE,
                    ntrig |-> IF cfg.proc = "dist" THEN NestedTrigger ELSE FALSE]))
=============================================================================
