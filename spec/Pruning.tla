------------------------------ MODULE Pruning ------------------------------
(* C08, part 2: which positions of an object are FEASIBLE (occur in some       *)
(* scene satisfying every requirement), which positions a sound pruner may    *)
(* keep (PrunedIdeal, the techniques documented in scenic.core.pruning), and   *)
(* what the named as-implemented deviations would keep instead.               *)
(*                                                                            *)
(* Exact sub-universe: coordinates are integers in QUARTER units (1 Scenic     *)
(* unit = 4); regions are unions of axis-parallel integer boxes (rectilinear   *)
(* polygons at z = 0 are boxes with an unbounded z range); objects are boxes   *)
(* whose yaw is a multiple of 90 degrees; vector-field cells carry headings    *)
(* that are multiples of 90 degrees; probe positions have odd coordinates, so  *)
(* they never lie on a boundary.  Everything is decided in integer arithmetic.*)
(*                                                                            *)
(* A program (JSON):                                                           *)
(*   fam   "cont" | "ori" | "box" | "vis" | "rh"                               *)
(*   objs  <<ego, other>> or <<obj>>; an object is                             *)
(*         [fixed, pos, base, poly, off, sizes, yaws, pitches, rolls,        *)
(*          facing, vis, vd]                                                 *)
(*           fixed/pos : placed `at` pos (no base)                             *)
(*           base      : <<box, ...>>  box = <<x0,y0,z0,x1,y1,z1>>             *)
(*           off       : <<ox,oy>> horizontal offset position - base point     *)
(*           sizes     : <<<<w,l,h>>, ...>> discrete alternatives              *)
(*           yaws, pitches, rolls : lattice values (quarter turns) of the pose  *)
(*           facing    : heading = field at position (+ deviation)              *)
(*           dev, devs : hull <<lo, hi>> and witness values (degrees) of a      *)
(*                       bounded random deviation added to the field heading    *)
(*           onz, lift : placed `on` the base surface: centre = base point +    *)
(*                       height/2 + lift                                        *)
(*           vis       : "none" | "requireVisible" | "visible" (seen by ego)   *)
(*           vd        : visibleDistance                                       *)
(*   cont  container (workspace) boxes, <<>> = none                           *)
(*   field <<<<box, heading in degrees>>, ...>>                                *)
(*   reqs  requirement shapes of Relations.tla about (ego, other) with         *)
(*         kind "require" | "soft" | "terminate" | "record"; dist constants in *)
(*         quarter units, rh constants in degrees                              *)
(*                                                                            *)
(* Feasible(o, p): p is in the base region of o and values of everything else *)
(* exist (size alternative, position of the other object among ITS probe      *)
(* positions) such that all HARD requirements hold: containment in the         *)
(* container, user `require` statements (soft requirements, termination       *)
(* conditions and recorded expressions constrain nothing), visibility.  The    *)
(* existential over a finite witness set under-approximates true feasibility,  *)
(* which is the safe direction for the verdict (a feasible probe outside the   *)
(* real pruned region is a lost scene).                                        *)
EXTENDS Integers, Sequences, FiniteSets, TLC, Json, IOUtils, SequencesExt

Rel == INSTANCE Relations WITH cs <- 0, pc <- 0, res <- 0

Progs == JsonDeserialize(IOEnv.PROGS)
NP == Len(Progs)
BIG == 10000
INF == Rel!INF

Abs(a) == IF a < 0 THEN -a ELSE a
Max2(a, b) == IF a > b THEN a ELSE b
Min2(a, b) == IF a < b THEN a ELSE b
Sq(a) == a * a
\* integer square roots (arguments stay below 10^6)
ISqrtFloor(x) == CHOOSE n \in 0..1000 : n * n <= x /\ (n + 1) * (n + 1) > x
ISqrtCeil(x) == CHOOSE n \in 0..1001 : n * n >= x /\ (n = 0 \/ (n - 1) * (n - 1) < x)

(* ------------------------------------------------------------------ geometry *)
InBox(p, b) == b[1] < p[1] /\ p[1] < b[4] /\ b[2] < p[2] /\ p[2] < b[5] /\ b[3] < p[3] /\ p[3] < b[6]
InUnion(p, bs) == \E i \in 1..Len(bs) : InBox(p, bs[i])

\* cut points of [lo, hi] along axis a induced by the faces of the boxes bs
Cuts(lo, hi, bs, a) ==
  SetToSortSeq({lo, hi} \cup {v \in {bs[i][a] : i \in 1..Len(bs)} \cup {bs[i][a + 3] : i \in 1..Len(bs)} : lo < v /\ v < hi}, <)
\* doubled midpoints of consecutive cut points
Mids(s) == {s[i] + s[i + 1] : i \in 1..(Len(s) - 1)}
InBox2(m, b) == /\ 2 * b[1] < m[1] /\ m[1] < 2 * b[4] /\ 2 * b[2] < m[2] /\ m[2] < 2 * b[5]
                /\ 2 * b[3] < m[3] /\ m[3] < 2 * b[6]
\* the box [lo, hi] (3-vectors) is contained in the union of the boxes bs
BoxInUnion(lo, hi, bs) ==
  \A x \in Mids(Cuts(lo[1], hi[1], bs, 1)) : \A y \in Mids(Cuts(lo[2], hi[2], bs, 2)) :
    \A z \in Mids(Cuts(lo[3], hi[3], bs, 3)) : \E i \in 1..Len(bs) : InBox2(<<x, y, z>>, bs[i])

\* squared distance from point p to the box with corners lo, hi
AxisGap(v, lo, hi) == IF v < lo THEN lo - v ELSE IF v > hi THEN v - hi ELSE 0
Gap2(p, lo, hi) == Sq(AxisGap(p[1], lo[1], hi[1])) + Sq(AxisGap(p[2], lo[2], hi[2])) + Sq(AxisGap(p[3], lo[3], hi[3]))
Dist2(p, q) == Sq(p[1] - q[1]) + Sq(p[2] - q[2]) + Sq(p[3] - q[3])

\* the open ball of radius r around p lies inside the union of the boxes bs:
\* every cell of the complement (grid induced by the faces, closed by +-BIG) is at distance >= r
BallInside(p, r, bs) ==
  LET X == Cuts(-BIG, BIG, bs, 1) Y == Cuts(-BIG, BIG, bs, 2) Z == Cuts(-BIG, BIG, bs, 3) IN
  \A i \in 1..(Len(X) - 1) : \A j \in 1..(Len(Y) - 1) : \A k \in 1..(Len(Z) - 1) :
     \/ \E n \in 1..Len(bs) : InBox2(<<X[i] + X[i + 1], Y[j] + Y[j + 1], Z[k] + Z[k + 1]>>, bs[n])
     \/ Gap2(p, <<X[i], Y[j], Z[k]>>, <<X[i + 1], Y[j + 1], Z[k + 1]>>) >= r * r

(* ------------------------------------------------------------------ programs *)
P(q) == Progs[q]
Obj(q, k) == Progs[q].objs[k]
NObj(q) == Len(Progs[q].objs)
Other(k) == 3 - k
Movable(q) == {k \in 1..NObj(q) : ~Obj(q, k).fixed}

\* Poses.  An orientation is intrinsic yaw (about Z), pitch (about X), roll (about Y), each a
\* number of quarter turns; o.yaws / o.pitches / o.rolls list the lattice values the property
\* can take (one value: a constant; several: a discrete Uniform, or the lattice angles inside a
\* Range -- its end points are limits of poses of positive probability, and probes keep a
\* quarter unit from every boundary, so a pose that fits at an end point fits nearby too).
\* Half extents of the box (w, l, h) along the world axes: R = Rz Rx Ry permutes the axes,
\* an odd roll swaps X/Z first, then an odd pitch swaps Y/Z, then an odd yaw swaps X/Y.
SeqSet(s) == {s[i] : i \in 1..Len(s)}
Poses(o) == SeqSet(o.yaws) \X SeqSet(o.pitches) \X SeqSet(o.rolls)
HalfExt(sz, pose) ==
  LET a == IF pose[3] % 2 = 1 THEN <<sz[3], sz[2], sz[1]>> ELSE sz
      b == IF pose[2] % 2 = 1 THEN <<a[1], a[3], a[2]>> ELSE a
      c == IF pose[1] % 2 = 1 THEN <<b[2], b[1], b[3]>> ELSE b
  IN <<c[1] \div 2, c[2] \div 2, c[3] \div 2>>
\* centre of the object whose base point is p: the horizontal offset, and for an object placed
\* `on` a surface (o.onz) half its height plus the lift of its base above (below) the surface
PosOf(o, p, sz) == <<p[1] + o.off[1], p[2] + o.off[2],
                     p[3] + (IF o.onz THEN (sz[3] \div 2) + o.lift ELSE 0)>>
Lo(c, h) == <<c[1] - h[1], c[2] - h[2], c[3] - h[3]>>
Hi(c, h) == <<c[1] + h[1], c[2] + h[2], c[3] + h[3]>>

\* the probe grid of an object: odd coordinates over the bounding box of its base plus a margin
BBoxLo(bs, a) == CHOOSE v \in {bs[i][a] : i \in 1..Len(bs)} : \A i \in 1..Len(bs) : v <= bs[i][a]
BBoxHi(bs, a) == CHOOSE v \in {bs[i][a + 3] : i \in 1..Len(bs)} : \A i \in 1..Len(bs) : v >= bs[i][a + 3]
Odd(lo, hi) == {v \in lo..hi : v % 2 = 1}
XsT == [q \in 1..NP |-> [k \in 1..NObj(q) |->
          IF Obj(q, k).fixed THEN <<>>
          ELSE SetToSortSeq(Odd(BBoxLo(Obj(q, k).base, 1) - 4, BBoxHi(Obj(q, k).base, 1) + 4), <)]]
YsT == [q \in 1..NP |-> [k \in 1..NObj(q) |->
          IF Obj(q, k).fixed THEN <<>>
          ELSE SetToSortSeq(Odd(BBoxLo(Obj(q, k).base, 2) - 4, BBoxHi(Obj(q, k).base, 2) + 4), <)]]
ZsT == [q \in 1..NP |-> [k \in 1..NObj(q) |->
          IF Obj(q, k).fixed THEN <<>>
          ELSE IF Obj(q, k).poly THEN <<0>>
          ELSE SetToSortSeq(Odd(BBoxLo(Obj(q, k).base, 3), BBoxHi(Obj(q, k).base, 3) + 2), <)]]
NRows(q, k) == Len(YsT[q][k]) * Len(ZsT[q][k])
RowY(q, k, r) == YsT[q][k][((r - 1) % Len(YsT[q][k])) + 1]
RowZ(q, k, r) == ZsT[q][k][((r - 1) \div Len(YsT[q][k])) + 1]

\* heading (degrees, in (-180, 180]) of the field at p; 999 outside every cell
HeadingAt(q, p) == LET f == Progs[q].field IN
   IF \E i \in 1..Len(f) : InBox(p, f[i][1])
   THEN f[CHOOSE i \in 1..Len(f) : InBox(p, f[i][1])][2] ELSE 999

\* witnesses: probe positions of object k inside its base, with the heading there
WitT == [q \in 1..NP |-> [k \in 1..NObj(q) |->
   IF Obj(q, k).fixed THEN {<<Obj(q, k).pos[1], Obj(q, k).pos[2], Obj(q, k).pos[3], 999>>}
   ELSE {<<w[1], w[2], w[3], HeadingAt(q, w)>> :
           w \in {v \in SeqSet(XsT[q][k]) \X SeqSet(YsT[q][k]) \X SeqSet(ZsT[q][k]) :
                    InUnion(v, Obj(q, k).base)}}]]

(* ------------------------------------------------------- requirement meaning *)
Reqs(q) == Progs[q].reqs
Hard(r) == r.kind = "require"
NormDeg(d) == IF d > 180 THEN d - 360 ELSE IF d <= -180 THEN d + 360 ELSE d
\* the values a relative heading of ht seen from hb may take: the two signs of a
\* half turn are not distinguished (don't-care of the normalisation)
RHVals(hb, ht) == LET d == NormDeg(ht - hb) IN IF d = 180 THEN {-180, 180} ELSE {d}
\* robustly: one degree to either side as well (headings that are a field heading plus a
\* continuous deviation are never decided on a boundary, nor on float rounding of degrees)
RHRobust(hb, ht) == UNION {RHVals(hb, ht + e) : e \in {-1, 0, 1}}
SatDist(r, d2) == Rel!SatShape(r, LAMBDA k : k > 0 /\ d2 < k * k, LAMBDA k : k >= 0 /\ d2 = k * k)
SatRH(r, hb, ht) == \A d \in RHRobust(hb, ht) : Rel!SatShape(r, LAMBDA k : d < k, LAMBDA k : d = k)

\* ego at pe (heading he) sees other at po?  gap from the eye to the other's box against the
\* visible distance; slack = 0 exact, slack = 1 robust (a quarter unit inside)
SeesSome(q, pe, po, slack) ==
  LET e == Obj(q, 1) o == Obj(q, 2) IN
  \E n \in 1..Len(o.sizes) : \E pose \in Poses(o) :
     LET h == HalfExt(o.sizes[n], pose) c == PosOf(o, po, o.sizes[n]) IN
       IF slack = 0 THEN Gap2(pe, Lo(c, h), Hi(c, h)) < Sq(e.vd)
       ELSE e.vd > slack /\ Gap2(pe, Lo(c, h), Hi(c, h)) <= Sq(e.vd - slack)

\* the pair (ego at we, other at wo) satisfies every hard two-object constraint
PairOK(q, we, wo, slack) ==
  /\ \A i \in 1..Len(Reqs(q)) : (Hard(Reqs(q)[i]) /\ Reqs(q)[i].q = "dist") =>
        SatDist(Reqs(q)[i], Dist2(<<we[1], we[2], we[3]>>, <<wo[1], wo[2], wo[3]>>))
  \* headings: the field heading at the position plus some witness value of the deviation
  /\ \E de \in SeqSet(Obj(q, 1).devs) : \E do \in SeqSet(Obj(q, 2).devs) :
        \A i \in 1..Len(Reqs(q)) : (Hard(Reqs(q)[i]) /\ Reqs(q)[i].q = "rh") =>
           SatRH(Reqs(q)[i], we[4] + de, wo[4] + do)
  /\ (Obj(q, 2).vis # "none") => SeesSome(q, <<we[1], we[2], we[3]>>, <<wo[1], wo[2], wo[3]>>, slack)

\* the object alone: some size alternative in some pose (position AND orientation) fits into
\* the container
FitsAlone(q, k, p) ==
  LET o == Obj(q, k) IN
  Progs[q].cont = <<>> \/
  \E n \in 1..Len(o.sizes) : \E pose \in Poses(o) :
     LET h == HalfExt(o.sizes[n], pose) c == PosOf(o, p, o.sizes[n]) IN BoxInUnion(Lo(c, h), Hi(c, h), Progs[q].cont)

InBase(q, k, p) == InUnion(p, Obj(q, k).base)

FeasibleS(q, k, p, slack) ==
  /\ InBase(q, k, p) /\ FitsAlone(q, k, p)
  /\ (NObj(q) = 2) =>
       LET me == <<p[1], p[2], p[3], HeadingAt(q, p)>> IN
       \E w \in WitT[q][Other(k)] :
          /\ Obj(q, Other(k)).fixed \/ FitsAlone(q, Other(k), <<w[1], w[2], w[3]>>)
          /\ IF k = 1 THEN PairOK(q, me, w, slack) ELSE PairOK(q, w, me, slack)
Feasible(q, k, p) == FeasibleS(q, k, p, 0)
FeasibleV(q, k, p) == FeasibleS(q, k, p, 1)        \* used for the verdict

(* ------------------------------------------------ the documented techniques *)
\* (1) containment: erode the container by (min inradius - max offset) when positive
MinOf(S) == CHOOSE x \in S : \A y \in S : x <= y
MaxOf(S) == CHOOSE x \in S : \A y \in S : x >= y
\* the planar inradius may be used only for an object KNOWN to lie flat: polygonal base, pitch
\* and roll both the constant 0 (a random pitch or roll, whatever its support, is not flat)
Flat(o) == o.poly /\ o.pitches = <<0>> /\ o.rolls = <<0>>
InRad(o, sz) == IF Flat(o) THEN Min2(sz[1], sz[2]) \div 2 ELSE Min2(Min2(sz[1], sz[2]), sz[3]) \div 2
MinInRad(o) == MinOf({InRad(o, o.sizes[n]) : n \in 1..Len(o.sizes)})
OffNorm(o) == ISqrtCeil(Sq(o.off[1]) + Sq(o.off[2]))     \* generator keeps it a perfect square
Erosion(o) == MinInRad(o) - OffNorm(o)
HasOff(o) == o.off[1] # 0 \/ o.off[2] # 0
ContIdeal(q, k, p) ==
  LET o == Obj(q, k) c == Progs[q].cont IN
  IF c = <<>> THEN TRUE
  ELSE IF Erosion(o) > 0 THEN BallInside(p, Erosion(o), c)
  ELSE IF HasOff(o) THEN TRUE          \* nothing is known about the base point itself
  ELSE InUnion(p, c)
\* deviation OffsetNoErosion: the base is intersected with the container even when the
\* offset exceeds the inradius
ContAsImpl(q, k, p) ==
  LET o == Obj(q, k) c == Progs[q].cont IN
  IF c = <<>> THEN TRUE
  ELSE IF Erosion(o) > 0 THEN BallInside(p, Erosion(o), c) ELSE InUnion(p, c)
TrigOffset(q, k) == Progs[q].cont # <<>> /\ HasOff(Obj(q, k)) /\ Erosion(Obj(q, k)) <= 0

\* (2) relative heading: keep the part of the base inside cells whose heading can satisfy
\* the bound w.r.t. some cell of the other object's field within the distance bound
RngRH == <<-180, 180>>
RngD == <<0, INF>>
Counted(r, all) == all \/ Hard(r)
IvOf(r, asimpl) == IF asimpl THEN Rel!AsImplU(r, IF r.q = "dist" THEN RngD ELSE RngRH)
                   ELSE Rel!RuleU(r, IF r.q = "dist" THEN RngD ELSE RngRH)
RECURSIVE MeetReqs(_, _, _, _, _)
MeetReqs(rs, i, kind, all, asimpl) ==
  IF i > Len(rs) THEN (IF kind = "dist" THEN RngD ELSE RngRH)
  ELSE IF rs[i].q = kind /\ Counted(rs[i], all)
       THEN Rel!MeetRaw(IvOf(rs[i], asimpl), MeetReqs(rs, i + 1, kind, all, asimpl))
       ELSE MeetReqs(rs, i + 1, kind, all, asimpl)
\* radius of the other object (half diagonal), rounded up for the ideal bound and down for
\* the attribution of a deviation
Rad2x4(sz) == Sq(sz[1]) + Sq(sz[2]) + Sq(sz[3])            \* (2 radius)^2
RadUp(o) == MaxOf({(ISqrtCeil(Rad2x4(o.sizes[n])) + 1) \div 2 : n \in 1..Len(o.sizes)})
RadDown(o) == MaxOf({ISqrtFloor(Rad2x4(o.sizes[n])) \div 2 : n \in 1..Len(o.sizes)})
VisBound(q, up) == IF NObj(q) = 2 /\ Obj(q, 2).vis # "none"
                   THEN Obj(q, 1).vd + (IF up THEN RadUp(Obj(q, 2)) ELSE RadDown(Obj(q, 2)))
                   ELSE INF
\* per program, once: variant v = 1 ideal, 2 NeAsLe only, 3 non-hard counted only, 4 both
VAll(v) == v \in {3, 4}
VAsImpl(v) == v \in {2, 4}
IvT == [q \in 1..NP |-> [v \in 1..4 |->
          [rh |-> MeetReqs(Reqs(q), 1, "rh", VAll(v), VAsImpl(v)),
           d  |-> MeetReqs(Reqs(q), 1, "dist", VAll(v), VAsImpl(v))]]]
VisBoundT == [q \in 1..NP |-> [up \in BOOLEAN |-> VisBound(q, up)]]
MaxDist(q, v, up) == Min2(IvT[q][v].d[2], VisBoundT[q][up])
RHIv(q, k, v) == LET iv == IvT[q][v].rh IN IF k = 1 THEN iv ELSE <<-iv[2], -iv[1]>>
\* base cell heading hb with deviation hull bd = <<L, R>>, target cell heading ht with hull td:
\* the relative heading ranges over [ht - hb + td.L - bd.R, ht - hb + td.R - bd.L] modulo a
\* full turn (the documented "up to a bounded offset"); the cell is kept iff that set meets
\* the required interval.  raw: the deviation RawHeadingDifference (no deviations only)
NoDev(d) == d[1] = 0 /\ d[2] = 0
RHCellOK(hb, ht, bd, td, iv, raw) ==
  IF raw /\ NoDev(bd) /\ NoDev(td) THEN ht - hb >= iv[1] /\ ht - hb <= iv[2]
  ELSE LET a == ht - hb + td[1] - bd[2]  b == ht - hb + td[2] - bd[1] IN
       b - a >= 360 \/ \E t \in {-720, -360, 0, 360, 720} : a + t <= iv[2] /\ b + t >= iv[1]
RHApplies(q) == /\ Progs[q].fam = "rh" /\ NObj(q) = 2
                /\ \A k \in 1..2 : Obj(q, k).facing /\ ~Obj(q, k).fixed /\ ~HasOff(Obj(q, k))
RHAppliesT == [q \in 1..NP |-> RHApplies(q)]
RHKeeps(q, k, p, v, raw, up) ==
  LET iv == RHIv(q, k, v) md == MaxDist(q, v, up) f == Progs[q].field
      hb == HeadingAt(q, p) IN
  IF ~RHAppliesT[q] \/ md = INF \/ (iv[1] <= -180 /\ iv[2] >= 180) THEN TRUE
  ELSE md >= 0 /\ \E c \in 1..Len(f) :
         /\ RHCellOK(hb, f[c][2], Obj(q, k).dev, Obj(q, Other(k)).dev, iv, raw)
         /\ Gap2(p, <<f[c][1][1], f[c][1][2], f[c][1][3]>>, <<f[c][1][4], f[c][1][5], f[c][1][6]>>) <= md * md
\* deviation TouchCrash: feasibleRHPolygon asserts that a base cell intersected with a dilated
\* target cell is a polygon; when the dilated cell merely touches the base cell the
\* intersection is a segment or a point and compilation dies with an AssertionError
IvGap(a0, a1, b0, b1) == IF a1 < b0 THEN b0 - a1 ELSE IF b1 < a0 THEN a0 - b1 ELSE 0
RectGap2(a, b) == Sq(IvGap(a[1], a[4], b[1], b[4])) + Sq(IvGap(a[2], a[5], b[2], b[5]))
TrigTouch(q) ==
  /\ RHApplies(q)
  /\ LET md == IvT[q][4].d[2] f == Progs[q].field IN
     /\ md # INF /\ md >= 0 /\ md <= VisBoundT[q][TRUE]
     /\ \E k \in 1..2 : LET iv == RHIv(q, k, 4) IN
          /\ ~(iv[1] <= -180 /\ iv[2] >= 180)
          /\ \E b \in 1..Len(f) : \E t \in 1..Len(f) :
                b # t /\ RHCellOK(f[b][2], f[t][2], Obj(q, k).dev, Obj(q, Other(k)).dev, iv, TRUE) /\ RectGap2(f[b][1], f[t][1]) = md * md
TrigNoneq(q) == \E i \in 1..Len(Reqs(q)) : Hard(Reqs(q)[i]) /\ Rel!HasNe(Reqs(q)[i])
TrigNonhard(q) == \E i \in 1..Len(Reqs(q)) : ~Hard(Reqs(q)[i])
TrigUnnorm(q) == /\ \A k \in 1..NObj(q) : NoDev(Obj(q, k).dev)
                 /\ \E a \in 1..Len(Progs[q].field) : \E b \in 1..Len(Progs[q].field) :
                       Abs(Progs[q].field[a][2] - Progs[q].field[b][2]) >= 180

\* (3) visibility: an object that must be seen by a fixed ego lies within the view
\* distance plus its own radius of the eye
VisApplies(q, k) == NObj(q) = 2 /\ k = 2 /\ Obj(q, 2).vis # "none" /\ Obj(q, 1).fixed
VisIdeal(q, k, p) ==
  IF ~VisApplies(q, k) THEN TRUE
  ELSE \E n \in 1..Len(Obj(q, 2).sizes) :
         Dist2(PosOf(Obj(q, 2), p, Obj(q, 2).sizes[n]), Obj(q, 1).pos) <= Sq(Obj(q, 1).vd + RadUp(Obj(q, 2)) + OffNorm(Obj(q, 2)))
\* deviation VisBufferRelativePitch: _bufferOverapproximate computes the number of dilation
\* passes from the RELATIVE pitch (ceil(buffer / 0.15) + 1) while one pass dilates by the
\* absolute pitch 0.15 * (largest extent of the view region); when that extent is below one
\* unit (view distance < 1/2) the view region is dilated by less than the object's radius.
\* Modelled from below: nothing beyond the view sphere itself is guaranteed to be kept.
\* (Until the fix of VoxelRegion.dilation -- which dilated inside the undilated grid -- the
\* same model applied to every view distance: known finding visibility-buffer-not-dilated.)
VisAsImpl(q, k, p) ==
  IF ~VisApplies(q, k) THEN TRUE
  ELSE Obj(q, 1).vd > 1 /\ Dist2(PosOf(Obj(q, 2), p, Obj(q, 2).sizes[1]), Obj(q, 1).pos) <= Sq(Obj(q, 1).vd - 1)
TrigVisbuf(q, k) == VisApplies(q, k) /\ 2 * Obj(q, 1).vd < 4

\* bound extraction refuses a program ("absolute value cannot be negative") although it is
\* satisfiable: through a != read as <=, or through a condition that is not a requirement
RefuseNoneq(q) == \E i \in 1..Len(Reqs(q)) : Hard(Reqs(q)[i]) /\ Rel!HasNe(Reqs(q)[i]) /\ Rel!AsImplRaises(Reqs(q)[i])
RefuseNonhard(q) == \E i \in 1..Len(Reqs(q)) : ~Hard(Reqs(q)[i]) /\ Rel!AsImplRaises(Reqs(q)[i])
TrigT == [q \in 1..NP |-> [noneq |-> TrigNoneq(q), nonhard |-> TrigNonhard(q), unnorm |-> TrigUnnorm(q),
                            touch |-> TrigTouch(q), refuseNoneq |-> RefuseNoneq(q), refuseNonhard |-> RefuseNonhard(q)]]

PrunedIdeal(q, k, p) ==
  /\ InBase(q, k, p) /\ ContIdeal(q, k, p)
  /\ RHKeeps(q, k, p, 1, FALSE, TRUE) /\ VisIdeal(q, k, p)
\* one deviation at a time (only where its trigger predicate holds), and all together
KeepNoneq(q, k, p) == TrigT[q].noneq => RHKeeps(q, k, p, 2, FALSE, FALSE)
KeepNonhard(q, k, p) == TrigT[q].nonhard => RHKeeps(q, k, p, 3, FALSE, FALSE)
KeepUnnorm(q, k, p) == TrigT[q].unnorm => RHKeeps(q, k, p, 1, TRUE, FALSE)
KeepOffset(q, k, p) == TrigOffset(q, k) => ContAsImpl(q, k, p)
KeepVisbuf(q, k, p) == TrigVisbuf(q, k) => VisAsImpl(q, k, p)
AnyTrig(q, k) == TrigT[q].noneq \/ TrigT[q].nonhard \/ TrigT[q].unnorm \/ TrigOffset(q, k) \/ TrigVisbuf(q, k)
KeepAll(q, k, p) == AnyTrig(q, k) =>
                    /\ ContAsImpl(q, k, p) /\ VisAsImpl(q, k, p)
                    /\ RHKeeps(q, k, p, 4, TRUE, FALSE)
\* with no trigger the techniques as implemented keep at least what the documented ones keep
AsImplKeeps(q, k, p) == /\ InBase(q, k, p) /\ ContAsImpl(q, k, p) /\ RHKeeps(q, k, p, 4, TRUE, TRUE)
                        /\ (IF TrigVisbuf(q, k) THEN VisAsImpl(q, k, p) ELSE VisIdeal(q, k, p))

B(b) == IF b THEN 1 ELSE 0
\* one integer per probe: 1 base, 2 feasible, 4 feasible (verdict), 8 ideal keeps it,
\* 16.. the probe is in the base but dropped under the named deviation, 1024: no trigger
\* holds and the as-implemented techniques drop a position the documented ones keep (must
\* not happen: the named deviations are the only modelled sources of unsoundness)
Code(q, k, p) ==
  LET base == InBase(q, k, p) ideal == PrunedIdeal(q, k, p)
      fv == FeasibleV(q, k, p)
      f == fv \/ (NObj(q) = 2 /\ Obj(q, 2).vis # "none" /\ Feasible(q, k, p)) IN   \* slack only matters for visibility
  IF ~base THEN 0 ELSE
  B(base) + 2 * B(f) + 4 * B(fv) + 8 * B(ideal)
  + 16 * B(base /\ ~KeepNoneq(q, k, p)) + 32 * B(base /\ ~KeepNonhard(q, k, p))
  + 64 * B(base /\ ~KeepUnnorm(q, k, p)) + 128 * B(base /\ ~KeepOffset(q, k, p))
  + 256 * B(base /\ ~KeepVisbuf(q, k, p)) + 512 * B(base /\ ~KeepAll(q, k, p))
  + 1024 * B(~AnyTrig(q, k) /\ ideal /\ ~AsImplKeeps(q, k, p))
Bit(c, b) == (c \div b) % 2 = 1

(* ------------------------------------------------------------------- machine *)
VARIABLES pid, oid, ri, acc
vars == <<pid, oid, ri, acc>>

Init == /\ pid \in 1..NP /\ oid \in Movable(pid) /\ ri = 0 /\ acc = <<>>
ScanRow ==
  /\ ri < NRows(pid, oid)
  /\ ri' = ri + 1
  /\ acc' = Append(acc, [i \in 1..Len(XsT[pid][oid]) |->
                Code(pid, oid, <<XsT[pid][oid][i], RowY(pid, oid, ri + 1), RowZ(pid, oid, ri + 1)>>)])
  /\ UNCHANGED <<pid, oid>>
Next == ScanRow
Spec == Init /\ [][Next]_vars

LastRow == acc[Len(acc)]
TypeOK == ri \in 0..NRows(pid, oid) /\ Len(acc) = ri
\* the lemmas, on the row just scanned
FeasInIdealInBase == ri > 0 => \A i \in 1..Len(LastRow) :
   /\ Bit(LastRow[i], 2) => Bit(LastRow[i], 8)
   /\ Bit(LastRow[i], 8) => Bit(LastRow[i], 1)
   /\ Bit(LastRow[i], 4) => Bit(LastRow[i], 2)
\* with no trigger predicate true, as-implemented = documented
NoTriggerNoDeviation == ri > 0 => \A i \in 1..Len(LastRow) : ~Bit(LastRow[i], 1024)
EmitObject ==
  (ri = NRows(pid, oid)) =>
     PrintT(ToJson([pid |-> Progs[pid].id, oid |-> oid, xs |-> XsT[pid][oid], ys |-> YsT[pid][oid],
                    zs |-> ZsT[pid][oid], rows |-> acc,
                    trig |-> [noneq |-> TrigT[pid].noneq, nonhard |-> TrigT[pid].nonhard,
                              unnorm |-> TrigT[pid].unnorm, touch |-> TrigT[pid].touch,
                              refuseNoneq |-> TrigT[pid].refuseNoneq, refuseNonhard |-> TrigT[pid].refuseNonhard,
                              offset |-> TrigOffset(pid, oid),
                              visbuf |-> TrigVisbuf(pid, oid)]]))
=============================================================================
