------------------------------ MODULE PyFront ------------------------------
(* C09: plain Python inside Scenic compiles to what CPython would parse, apart from the        *)
(* documented rewrites.                                                                        *)
(*                                                                                             *)
(* (a) Grammar: the abstract syntax of Python 3.12 (Parser/Python.asdl) as data: constructor,  *)
(*     sort, fields (name, kind, sort).  A tree is a record                                    *)
(*        [c |-> constructor, a |-> <<field values>>, p |-> <<node id>> or <<>>, s |-> 0 | 1]    *)
(*     (the node id stands for the node's source position lineno/col/end_lineno/end_col, which  *)
(*     the harness keeps: Rewrite never computes with positions, it only carries them; on the  *)
(*     wire a tree is the compact array <<c, id, field1, ...>>, decoded by Dec)                *)
(*     field values by kind: node = tree; list = sequence of trees; opt = sequence of length   *)
(*     <= 1; holes = sequence of trees or NoneHole; atom = string; optatom / atoms = sequence  *)
(*     of strings.  s = 1 marks a node produced by a rewrite.                                   *)
(* (b) Rewrite: the DOCUMENTED rewrites and nothing else (language reference: ego / workspace  *)
(*     / globalParameters are read through accessor calls and cannot be rebound; str / int /   *)
(*     float calls are lifted and the names cannot be overwritten; iterable unpacking in a     *)
(*     call outside a behaviour goes through wrapStarredValue / callWithStarArgs; a class      *)
(*     without bases derives from Object and every class gains the property table              *)
(*     _scenic_properties after its own statements).  Everything else is the identity, with    *)
(*     positions unchanged.                                                                    *)
(* (c) Invariants checked by TLC on every enumerated tree: WellFormed (input and output are    *)
(*     trees of the grammar: Rewrite is total), IdentityWithoutTrigger, Idempotent (on the     *)
(*     untouched part), PositionsPreserved, ErrorsOnlyFromStores.  EmitCase prints, per case,  *)
(*     whether it has a trigger, the expected tree when it has, and which as-implemented       *)
(*     deviations (known findings) have their trigger predicate satisfied.                     *)
EXTENDS Integers, Sequences, FiniteSets, TLC, Json, IOUtils

Cases == JsonDeserialize(IOEnv.CASES)      \* sequence of <<id, ctx, paren, feat, compact tree>>
NC == Len(Cases)

\* ---------------------------------------------------------------- (a) the abstract grammar
F(n, k, s) == <<n, k, s>>
Grammar == <<
 <<"Module", "mod", <<F("body","list","stmt"), F("type_ignores","list","type_ignore")>> >>,
 <<"FunctionDef", "stmt", <<F("name","atom","-"), F("args","node","arguments"), F("body","list","stmt"), F("decorator_list","list","expr"), F("returns","opt","expr"), F("type_comment","optatom","-"), F("type_params","list","type_param")>> >>,
 <<"AsyncFunctionDef", "stmt", <<F("name","atom","-"), F("args","node","arguments"), F("body","list","stmt"), F("decorator_list","list","expr"), F("returns","opt","expr"), F("type_comment","optatom","-"), F("type_params","list","type_param")>> >>,
 <<"ClassDef", "stmt", <<F("name","atom","-"), F("bases","list","expr"), F("keywords","list","keyword"), F("body","list","stmt"), F("decorator_list","list","expr"), F("type_params","list","type_param")>> >>,
 <<"Return", "stmt", <<F("value","opt","expr")>> >>,
 <<"Delete", "stmt", <<F("targets","list","expr")>> >>,
 <<"Assign", "stmt", <<F("targets","list","expr"), F("value","node","expr"), F("type_comment","optatom","-")>> >>,
 <<"TypeAlias", "stmt", <<F("name","node","expr"), F("type_params","list","type_param"), F("value","node","expr")>> >>,
 <<"AugAssign", "stmt", <<F("target","node","expr"), F("op","node","operator"), F("value","node","expr")>> >>,
 <<"AnnAssign", "stmt", <<F("target","node","expr"), F("annotation","node","expr"), F("value","opt","expr"), F("simple","atom","-")>> >>,
 <<"For", "stmt", <<F("target","node","expr"), F("iter","node","expr"), F("body","list","stmt"), F("orelse","list","stmt"), F("type_comment","optatom","-")>> >>,
 <<"AsyncFor", "stmt", <<F("target","node","expr"), F("iter","node","expr"), F("body","list","stmt"), F("orelse","list","stmt"), F("type_comment","optatom","-")>> >>,
 <<"While", "stmt", <<F("test","node","expr"), F("body","list","stmt"), F("orelse","list","stmt")>> >>,
 <<"If", "stmt", <<F("test","node","expr"), F("body","list","stmt"), F("orelse","list","stmt")>> >>,
 <<"With", "stmt", <<F("items","list","withitem"), F("body","list","stmt"), F("type_comment","optatom","-")>> >>,
 <<"AsyncWith", "stmt", <<F("items","list","withitem"), F("body","list","stmt"), F("type_comment","optatom","-")>> >>,
 <<"Match", "stmt", <<F("subject","node","expr"), F("cases","list","match_case")>> >>,
 <<"Raise", "stmt", <<F("exc","opt","expr"), F("cause","opt","expr")>> >>,
 <<"Try", "stmt", <<F("body","list","stmt"), F("handlers","list","excepthandler"), F("orelse","list","stmt"), F("finalbody","list","stmt")>> >>,
 <<"TryStar", "stmt", <<F("body","list","stmt"), F("handlers","list","excepthandler"), F("orelse","list","stmt"), F("finalbody","list","stmt")>> >>,
 <<"Assert", "stmt", <<F("test","node","expr"), F("msg","opt","expr")>> >>,
 <<"Import", "stmt", <<F("names","list","alias")>> >>,
 <<"ImportFrom", "stmt", <<F("module","optatom","-"), F("names","list","alias"), F("level","optatom","-")>> >>,
 <<"Global", "stmt", <<F("names","atoms","-")>> >>,
 <<"Nonlocal", "stmt", <<F("names","atoms","-")>> >>,
 <<"Expr", "stmt", <<F("value","node","expr")>> >>,
 <<"Pass", "stmt", <<>> >>, <<"Break", "stmt", <<>> >>, <<"Continue", "stmt", <<>> >>,
 <<"BoolOp", "expr", <<F("op","node","boolop"), F("values","list","expr")>> >>,
 <<"NamedExpr", "expr", <<F("target","node","expr"), F("value","node","expr")>> >>,
 <<"BinOp", "expr", <<F("left","node","expr"), F("op","node","operator"), F("right","node","expr")>> >>,
 <<"UnaryOp", "expr", <<F("op","node","unaryop"), F("operand","node","expr")>> >>,
 <<"Lambda", "expr", <<F("args","node","arguments"), F("body","node","expr")>> >>,
 <<"IfExp", "expr", <<F("test","node","expr"), F("body","node","expr"), F("orelse","node","expr")>> >>,
 <<"Dict", "expr", <<F("keys","holes","expr"), F("values","list","expr")>> >>,
 <<"Set", "expr", <<F("elts","list","expr")>> >>,
 <<"ListComp", "expr", <<F("elt","node","expr"), F("generators","list","comprehension")>> >>,
 <<"SetComp", "expr", <<F("elt","node","expr"), F("generators","list","comprehension")>> >>,
 <<"DictComp", "expr", <<F("key","node","expr"), F("value","node","expr"), F("generators","list","comprehension")>> >>,
 <<"GeneratorExp", "expr", <<F("elt","node","expr"), F("generators","list","comprehension")>> >>,
 <<"Await", "expr", <<F("value","node","expr")>> >>,
 <<"Yield", "expr", <<F("value","opt","expr")>> >>,
 <<"YieldFrom", "expr", <<F("value","node","expr")>> >>,
 <<"Compare", "expr", <<F("left","node","expr"), F("ops","list","cmpop"), F("comparators","list","expr")>> >>,
 <<"Call", "expr", <<F("func","node","expr"), F("args","list","expr"), F("keywords","list","keyword")>> >>,
 <<"FormattedValue", "expr", <<F("value","node","expr"), F("conversion","atom","-"), F("format_spec","opt","expr")>> >>,
 <<"JoinedStr", "expr", <<F("values","list","expr")>> >>,
 <<"Constant", "expr", <<F("value","atom","-"), F("kind","optatom","-")>> >>,
 <<"Attribute", "expr", <<F("value","node","expr"), F("attr","atom","-"), F("ctx","node","expr_context")>> >>,
 <<"Subscript", "expr", <<F("value","node","expr"), F("slice","node","expr"), F("ctx","node","expr_context")>> >>,
 <<"Starred", "expr", <<F("value","node","expr"), F("ctx","node","expr_context")>> >>,
 <<"Name", "expr", <<F("id","atom","-"), F("ctx","node","expr_context")>> >>,
 <<"List", "expr", <<F("elts","list","expr"), F("ctx","node","expr_context")>> >>,
 <<"Tuple", "expr", <<F("elts","list","expr"), F("ctx","node","expr_context")>> >>,
 <<"Slice", "expr", <<F("lower","opt","expr"), F("upper","opt","expr"), F("step","opt","expr")>> >>,
 <<"Load", "expr_context", <<>> >>, <<"Store", "expr_context", <<>> >>, <<"Del", "expr_context", <<>> >>,
 <<"And", "boolop", <<>> >>, <<"Or", "boolop", <<>> >>,
 <<"Add", "operator", <<>> >>, <<"Sub", "operator", <<>> >>, <<"Mult", "operator", <<>> >>, <<"MatMult", "operator", <<>> >>,
 <<"Div", "operator", <<>> >>, <<"Mod", "operator", <<>> >>, <<"Pow", "operator", <<>> >>, <<"LShift", "operator", <<>> >>,
 <<"RShift", "operator", <<>> >>, <<"BitOr", "operator", <<>> >>, <<"BitXor", "operator", <<>> >>, <<"BitAnd", "operator", <<>> >>,
 <<"FloorDiv", "operator", <<>> >>,
 <<"Invert", "unaryop", <<>> >>, <<"Not", "unaryop", <<>> >>, <<"UAdd", "unaryop", <<>> >>, <<"USub", "unaryop", <<>> >>,
 <<"Eq", "cmpop", <<>> >>, <<"NotEq", "cmpop", <<>> >>, <<"Lt", "cmpop", <<>> >>, <<"LtE", "cmpop", <<>> >>, <<"Gt", "cmpop", <<>> >>,
 <<"GtE", "cmpop", <<>> >>, <<"Is", "cmpop", <<>> >>, <<"IsNot", "cmpop", <<>> >>, <<"In", "cmpop", <<>> >>, <<"NotIn", "cmpop", <<>> >>,
 <<"comprehension", "comprehension", <<F("target","node","expr"), F("iter","node","expr"), F("ifs","list","expr"), F("is_async","atom","-")>> >>,
 <<"ExceptHandler", "excepthandler", <<F("type","opt","expr"), F("name","optatom","-"), F("body","list","stmt")>> >>,
 <<"arguments", "arguments", <<F("posonlyargs","list","arg"), F("args","list","arg"), F("vararg","opt","arg"), F("kwonlyargs","list","arg"), F("kw_defaults","holes","expr"), F("kwarg","opt","arg"), F("defaults","list","expr")>> >>,
 <<"arg", "arg", <<F("arg","atom","-"), F("annotation","opt","expr"), F("type_comment","optatom","-")>> >>,
 <<"keyword", "keyword", <<F("arg","optatom","-"), F("value","node","expr")>> >>,
 <<"alias", "alias", <<F("name","atom","-"), F("asname","optatom","-")>> >>,
 <<"withitem", "withitem", <<F("context_expr","node","expr"), F("optional_vars","opt","expr")>> >>,
 <<"match_case", "match_case", <<F("pattern","node","pattern"), F("guard","opt","expr"), F("body","list","stmt")>> >>,
 <<"MatchValue", "pattern", <<F("value","node","expr")>> >>,
 <<"MatchSingleton", "pattern", <<F("value","atom","-")>> >>,
 <<"MatchSequence", "pattern", <<F("patterns","list","pattern")>> >>,
 <<"MatchMapping", "pattern", <<F("keys","list","expr"), F("patterns","list","pattern"), F("rest","optatom","-")>> >>,
 <<"MatchClass", "pattern", <<F("cls","node","expr"), F("patterns","list","pattern"), F("kwd_attrs","atoms","-"), F("kwd_patterns","list","pattern")>> >>,
 <<"MatchStar", "pattern", <<F("name","optatom","-")>> >>,
 <<"MatchAs", "pattern", <<F("pattern","opt","pattern"), F("name","optatom","-")>> >>,
 <<"MatchOr", "pattern", <<F("patterns","list","pattern")>> >>,
 <<"TypeVar", "type_param", <<F("name","atom","-"), F("bound","opt","expr")>> >>,
 <<"ParamSpec", "type_param", <<F("name","atom","-")>> >>,
 <<"TypeVarTuple", "type_param", <<F("name","atom","-")>> >>,
 <<"TypeIgnore", "type_ignore", <<F("lineno","atom","-"), F("tag","atom","-")>> >>
>>

Constructors == {Grammar[i][1] : i \in 1..Len(Grammar)}
GIndex == [c \in Constructors |-> CHOOSE i \in 1..Len(Grammar) : Grammar[i][1] = c]
Sig == [c \in Constructors |-> Grammar[GIndex[c]][3]]
SortOf == [c \in Constructors |-> Grammar[GIndex[c]][2]]

\* compact wire format -> tree
RECURSIVE Dec(_), DecSeq(_)
DecSeq(v) == [j \in 1..Len(v) |-> Dec(v[j])]
Dec(w) ==
  IF w[1] = "NoneHole" THEN [c |-> "NoneHole", a |-> <<>>, p |-> <<>>, s |-> 0]
  ELSE [c |-> w[1], p |-> <<w[2]>>, s |-> 0,
        a |-> [i \in 1..(Len(w) - 2) |->
                 LET k == Sig[w[1]][i][2] v == w[i + 2] IN
                 CASE k = "node" -> Dec(v)
                   [] k \in {"list", "opt", "holes"} -> DecSeq(v)
                   [] OTHER -> v]]

IsHole(t) == t.c = "NoneHole"
IsErr(t) == t.c = "Error_"

RECURSIVE WF(_, _)
WF(t, sort) ==
  /\ t.c \in Constructors
  /\ SortOf[t.c] = sort
  /\ Len(t.a) = Len(Sig[t.c])
  /\ Len(t.p) <= 1
  /\ \A i \in 1..Len(t.a) :
       LET k == Sig[t.c][i][2] s == Sig[t.c][i][3] v == t.a[i] IN
       CASE k = "node" -> WF(v, s)
         [] k = "list" -> \A j \in 1..Len(v) : WF(v[j], s)
         [] k = "opt" -> Len(v) <= 1 /\ \A j \in 1..Len(v) : WF(v[j], s)
         [] k = "holes" -> \A j \in 1..Len(v) : IsHole(v[j]) \/ WF(v[j], s)
         [] k = "optatom" -> Len(v) <= 1
         [] OTHER -> TRUE

\* ---------------------------------------------------------------- (b) the documented rewrites
Tracked == {"ego", "workspace"}
GlobalParams == "globalParameters"
Lifted == {"str", "int", "float"}
LiftedName(id) == CASE id = "str" -> "_toStrScenic" [] id = "int" -> "_toIntScenic" [] id = "float" -> "_toFloatScenic"
Reserved == Tracked \cup {GlobalParams} \cup Lifted     \* builtin names: usable, not overwritable

Syn(c, a) == [c |-> c, a |-> a, p |-> <<>>, s |-> 1]
SynAt(c, a, p) == [c |-> c, a |-> a, p |-> p, s |-> 1]
LoadCtx == Syn("Load", <<>>)
NameLoad(id) == Syn("Name", <<id, LoadCtx>>)
ErrorNode(t) == [c |-> "Error_", a |-> <<t.a[1]>>, p |-> t.p, s |-> 1]
IntToStr(n) == ToString(n)
\* the constant "line number of node n" (the harness knows the line of every node id)
LineConst(n) == Syn("Constant", <<"L" \o IntToStr(n), <<>>>>)

IsName(t, ids) == t.c = "Name" /\ t.a[1] \in ids
IsLoad(t) == t.a[2].c = "Load"

PropTable == Syn("Assign", << <<Syn("Name", <<"_scenic_properties", Syn("Store", <<>>)>>)>>, Syn("Dict", <<<<>>, <<>>>>), <<>> >>)

RECURSIVE Rw(_, _), RwSeq(_, _), RwHoles(_, _)
RwSeq(v, beh) == [j \in 1..Len(v) |-> Rw(v[j], beh)]
RwHoles(v, beh) == [j \in 1..Len(v) |-> IF IsHole(v[j]) THEN v[j] ELSE Rw(v[j], beh)]

RwGeneric(t, beh) ==
  [t EXCEPT !.a = [i \in 1..Len(t.a) |->
      LET k == Sig[t.c][i][2] v == t.a[i] IN
      CASE k = "node" -> Rw(v, beh)
        [] k = "list" -> RwSeq(v, beh)
        [] k = "opt" -> RwSeq(v, beh)
        [] k = "holes" -> RwHoles(v, beh)
        [] OTHER -> v]]

\* a starred positional argument outside a behaviour: *wrapStarredValue(value, line of value)
WrapStar(arg, beh) ==
  Syn("Starred", <<Syn("Call", <<NameLoad("wrapStarredValue"), <<Rw(arg.a[1], beh), LineConst(arg.a[1].p[1])>>, <<>>>>), LoadCtx>>)

RwCall(t, beh) ==
  LET f0 == Rw(t.a[1], beh)
      f == IF f0.c = "Name" /\ f0.a[1] \in Lifted THEN [f0 EXCEPT !.a[1] = LiftedName(f0.a[1])] ELSE f0
      wraps == ~beh /\ \E j \in 1..Len(t.a[2]) : t.a[2][j].c = "Starred"
      args == [j \in 1..Len(t.a[2]) |-> IF ~beh /\ t.a[2][j].c = "Starred" THEN WrapStar(t.a[2][j], beh) ELSE Rw(t.a[2][j], beh)]
      kws == RwSeq(t.a[3], beh)
  IN IF wraps THEN SynAt("Call", <<NameLoad("callWithStarArgs"), <<f>> \o args, kws>>, t.p)
     ELSE [t EXCEPT !.a = <<f, args, kws>>]

RwClass(t, beh) ==
  LET g == RwGeneric(t, beh) IN
  [g EXCEPT !.a[2] = IF t.a[2] = <<>> THEN <<NameLoad("Object")>> ELSE g.a[2],
            !.a[4] = IF \E j \in 1..Len(g.a[4]) : g.a[4][j].s = 1 /\ g.a[4][j].c = "Assign" THEN g.a[4]   \* already has its table
                     ELSE Append(g.a[4], PropTable)]

Rw(t, beh) ==
  IF t.s = 1 THEN t
  ELSE IF t.c = "Name" THEN
         IF t.a[1] \in Tracked \cup {GlobalParams}
         THEN IF IsLoad(t) THEN SynAt("Call", <<[t EXCEPT !.s = 1], <<>>, <<>>>>, t.p) ELSE ErrorNode(t)
         ELSE IF t.a[1] \in Lifted /\ ~IsLoad(t) THEN ErrorNode(t) ELSE t
  ELSE IF t.c = "Call" THEN RwCall(t, beh)
  ELSE IF t.c = "ClassDef" THEN RwClass(t, beh)
  ELSE RwGeneric(t, beh)

\* ---------------------------------------------------------------- folds over trees
\* preorder list of the nodes of t (operators / contexts / holes included)
RECURSIVE Nodes(_), NodesSeq(_)
NodesSeq(v) == IF v = <<>> THEN <<>> ELSE Nodes(Head(v)) \o NodesSeq(Tail(v))
RECURSIVE FieldNodes(_, _)
FieldNodes(t, i) ==
  IF i > Len(t.a) THEN <<>>
  ELSE LET k == Sig[t.c][i][2] v == t.a[i] IN
       (CASE k = "node" -> Nodes(v)
          [] k \in {"list", "opt", "holes"} -> NodesSeq(v)
          [] OTHER -> <<>>) \o FieldNodes(t, i + 1)
Nodes(t) == IF IsHole(t) \/ IsErr(t) THEN <<t>> ELSE <<t>> \o FieldNodes(t, 1)

TriggerNode(n, beh) ==
  \/ n.c = "Name" /\ n.a[1] \in Tracked \cup {GlobalParams}
  \/ n.c = "Name" /\ n.a[1] \in Lifted /\ ~IsLoad(n)
  \/ n.c = "Call" /\ n.a[1].c = "Name" /\ n.a[1].a[1] \in Lifted
  \/ n.c = "Call" /\ ~beh /\ \E j \in 1..Len(n.a[2]) : n.a[2][j].c = "Starred"
  \/ n.c = "ClassDef"
HasTrigger(t, beh) == LET ns == Nodes(t) IN \E i \in 1..Len(ns) : TriggerNode(ns[i], beh)

\* structural equality that never compares values of different kinds
RECURSIVE Same(_, _), SameSeq(_, _)
SameSeq(v, w) == Len(v) = Len(w) /\ \A j \in 1..Len(v) : Same(v[j], w[j])
Same(t, u) ==
  /\ t.c = u.c /\ t.p = u.p /\ t.s = u.s
  /\ (IsHole(t) \/ IsErr(t) \/
      \A i \in 1..Len(t.a) :
        LET k == Sig[t.c][i][2] IN
        CASE k = "node" -> Same(t.a[i], u.a[i])
          [] k \in {"list", "opt", "holes"} -> SameSeq(t.a[i], u.a[i])
          [] OTHER -> t.a[i] = u.a[i])

\* the atoms of a requirement: `and`, `or`, `not` are requirement connectives, the operands are
\* the Python expressions that must compile as Python
RECURSIVE ReqAtoms(_), ReqAtomsSeq(_)
ReqAtomsSeq(v) == IF v = <<>> THEN <<>> ELSE ReqAtoms(Head(v)) \o ReqAtomsSeq(Tail(v))
ReqAtoms(e) == IF e.c = "BoolOp" THEN ReqAtomsSeq(e.a[2])
               ELSE IF e.c = "UnaryOp" /\ e.a[1].c = "Not" THEN ReqAtoms(e.a[2])
               ELSE <<e>>

\* ---------------------------------------------------------------- per-case operators
CaseId(c) == Cases[c][1]
CaseCtx(c) == Cases[c][2]
CaseParen(c) == Cases[c][3]
CaseFeat(c) == Cases[c][4]
Beh(c) == CaseCtx(c) = "behavior"
\* the fragments of case c whose compiled form is observable, in order
Frags(c) == LET t == Dec(Cases[c][5]) IN
            CASE CaseCtx(c) = "module" -> <<t>>
              [] CaseCtx(c) = "behavior" -> t.a[3]           \* body of the def standing for the behaviour
              [] CaseCtx(c) = "require" -> ReqAtoms(t)
              [] OTHER -> <<t>>                                \* specifier argument
FragSort(c) == CASE CaseCtx(c) = "module" -> "mod" [] CaseCtx(c) = "behavior" -> "stmt" [] OTHER -> "expr"

\* ---------------------------------------------------------------- as-implemented deviations
\* masks: fstr-literal-value = value and extent of the literal parts of an f-string unconstrained;
\* fstr-literal = the literal parts may also be missing, and a replacement field with a format spec
\* may carry conversion 'r'; star-annotation = an annotation `*T` of a starred parameter may be missing.
\* (Column offsets are not part of the property -- it promises the tree
\* and the line numbers -- so differences in columns only are don't-cares of the harness.)
\* (known findings: the ideal above is what the property demands; each deviation has a trigger
\* predicate over the case and a description of what the implementation does instead, which the
\* harness uses as a comparison mask / outcome override)
Feat(c, f) == \E i \in 1..Len(CaseFeat(c)) : CaseFeat(c)[i] = f
ExplicitConv(n) == n.c = "FormattedValue" /\ n.a[2] # "-1"
IsFV(n) == n.c = "FormattedValue"
IsJS(n) == n.c = "JoinedStr"
ElseChain(n) == n.c = "IfExp" /\ n.a[3].c \in {"IfExp", "Lambda"}
\* statements / expressions whose target Python requires to be a plain name
NameOnlyTarget(n) == \/ (n.c = "AnnAssign" /\ n.a[1].c = "Name")
                     \/ n.c = "TypeAlias"
                     \/ n.c = "NamedExpr"
\* an empty tuple / list used as a target (`for () in x`, `[] = x`, `del ()`)
EmptyTarget(n) == n.c \in {"Tuple", "List"} /\ n.a[1] = <<>> /\ n.a[2].c \in {"Store", "Del"}
\* `def f(*a: *T)`: the annotation of the starred parameter is an unpacking
StarAnnotation(n) == n.c = "arg" /\ n.a[2] # <<>> /\ n.a[2][1].c = "Starred"
Deviations(c, ns) ==
  LET Has(P(_)) == \E i \in 1..Len(ns) : P(ns[i]) IN
  (IF Feat(c, "fstr-bang") /\ Has(ExplicitConv) THEN {[key |-> "fstring-conversion-crash", outcome |-> "crash:AttributeError", mask |-> ""]} ELSE {}) \cup
  (IF Feat(c, "fstr-escape") /\ Has(IsJS) THEN {[key |-> "fstring-escape-not-decoded", outcome |-> "", mask |-> "fstr-literal-value"]} ELSE {}) \cup
  \* after a line containing a form feed / U+2028 / ... the text of a debug field is taken from the wrong line
  (IF Feat(c, "fstr-debug") /\ Feat(c, "odd-linebreak") /\ Has(IsFV) THEN {[key |-> "fstring-debug-text-wrong-line", outcome |-> "", mask |-> "fstr-literal"]} ELSE {}) \cup
  (IF Feat(c, "fstr-debug") /\ Has(IsFV) THEN {[key |-> "fstring-debug-text-lost", outcome |-> "", mask |-> "fstr-literal"]} ELSE {}) \cup
  (IF Has(EmptyTarget) THEN {[key |-> "empty-target-elts-none", outcome |-> "crash:TypeError", mask |-> ""]} ELSE {}) \cup
  (IF Has(StarAnnotation) THEN {[key |-> "star-annotation-lost", outcome |-> "", mask |-> "star-annotation"]} ELSE {}) \cup
  (IF Has(ElseChain) THEN {[key |-> "ternary-else-chain", outcome |-> "reject", mask |-> ""]} ELSE {}) \cup
  \* a behaviour keeps its local variables on the behaviour object; an annotated assignment, a `type`
  \* statement or a walrus binding such a variable is compiled to a tree that compile() refuses
  (IF Beh(c) /\ Has(NameOnlyTarget) THEN {[key |-> "behavior-annassign-crash", outcome |-> "crash:TypeError", mask |-> ""]} ELSE {})

\* undocumented: which unparenthesised Python expressions a requirement / specifier position
\* admits -- a rejection there is a don't-care
MayReject(c) == CaseCtx(c) \in {"require", "specifier"} /\ CaseParen(c) = 0

\* ---------------------------------------------------------------- machine: pick, parse, rewrite
\* (the per-case results live in state variables so that TLC's workers compute them in parallel)
VARIABLES q, pc, frag, out, trig
vars == <<q, pc, frag, out, trig>>
Init == q = 0 /\ pc = "idle" /\ frag = <<>> /\ out = <<>> /\ trig = FALSE
Pick == /\ pc = "idle"
        /\ \E c \in 1..NC : q' = c
        /\ pc' = "picked" /\ UNCHANGED <<frag, out, trig>>
Parse == /\ pc = "picked"
         /\ frag' = Frags(q)
         /\ pc' = "parsed" /\ UNCHANGED <<q, out, trig>>
DoRewrite == /\ pc = "parsed"
             /\ out' = [j \in 1..Len(frag) |-> Rw(frag[j], Beh(q))]
             /\ trig' = \E j \in 1..Len(frag) : HasTrigger(frag[j], Beh(q))
             /\ pc' = "rewritten" /\ UNCHANGED <<q, frag>>
Next == Pick \/ Parse \/ DoRewrite
Spec == Init /\ [][Next]_vars

Done == pc = "rewritten"
HasErr == LET ns == NodesSeq(out) IN \E i \in 1..Len(ns) : IsErr(ns[i])

\* ---------------------------------------------------------------- (c) invariants
InputWellFormed == Done => \A j \in 1..Len(frag) : WF(frag[j], FragSort(q))
\* total: the output is again a tree of the grammar, or carries an error
Total == Done => (HasErr \/ \A j \in 1..Len(out) : WF(out[j], FragSort(q)))
IdentityWithoutTrigger == (Done /\ ~trig) => SameSeq(out, frag)
ChangesOnlyWithTrigger == (Done /\ trig) => ~SameSeq(out, frag)
Idempotent == Done => SameSeq([j \in 1..Len(out) |-> Rw(out[j], Beh(q))], out)
\* every node of the input survives with its constructor and position, in order, except the
\* Starred nodes of wrapped call arguments and the names that may not be rebound
Key(n) == <<n.c, n.p>>
RECURSIVE IsSubseqFrom(_, _, _, _)
IsSubseqFrom(v, i, w, j) == IF i > Len(v) THEN TRUE ELSE IF j > Len(w) THEN FALSE
                            ELSE IF Key(v[i]) = Key(w[j]) THEN IsSubseqFrom(v, i + 1, w, j + 1) ELSE IsSubseqFrom(v, i, w, j + 1)
Untouched(v) == SelectSeq(v, LAMBDA n : n.s = 0)
PositionsPreserved ==
  Done => LET inn == NodesSeq(frag) outn == Untouched(NodesSeq(out)) IN
            /\ IsSubseqFrom(outn, 1, inn, 1)
            /\ (~trig => Len(outn) = Len(inn))
ErrorsOnlyFromStores ==
  (Done /\ HasErr) => LET ns == NodesSeq(frag) IN \E i \in 1..Len(ns) : ns[i].c = "Name" /\ ns[i].a[1] \in Reserved /\ ~IsLoad(ns[i])

EmitCase ==
  Done => LET ns == NodesSeq(frag) IN
    PrintT(ToJson([id |-> CaseId(q), q |-> q, trig |-> trig, err |-> HasErr, n |-> Len(ns),
                   nfrag |-> Len(frag), mayreject |-> MayReject(q),
                   dev |-> Deviations(q, ns),
                   exp |-> IF trig /\ ~HasErr THEN out ELSE <<>>]))

\* printed once: the grammar table, for the cross-check with the generator and CPython's ast module
EmitGrammar ==
  (pc = "idle") =>
    PrintT(ToJson([grammar |-> [i \in 1..Len(Grammar) |-> [c |-> Grammar[i][1], sort |-> Grammar[i][2], fields |-> Grammar[i][3]]]]))
=============================================================================
