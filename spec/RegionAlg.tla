------------------------------ MODULE RegionAlg ------------------------------
(* C16 -- region operations obey set semantics in full 3-D.                      *)
(*                                                                              *)
(* Function specification (DESIGN 1.3): the meaning of the region kinds and of   *)
(* intersect / union / difference / intersects / distanceTo / AABB /             *)
(* containsRegion is written once, from the reference, in RegionGeom.tla         *)
(* (structural Member with all three coordinates, Height, AABB, Dist,            *)
(* Intersects).  This module enumerates a catalogue: one state per primitive     *)
(* region ("prim"), one per ordered pair ("pair", op = "none") and one per       *)
(* (ordered pair, operation).  The invariants state the laws on every probe of   *)
(* the grid; Emit* prints what the real library must answer, and classifies the  *)
(* snapped samples the harness drew from the real result regions.                *)
(*                                                                              *)
(* Which API answers which question (reference + docstrings):                    *)
(*   containsPoint of a PolygonalRegion is the FOOTPRINT test (x, y only); what  *)
(*   it means off the region's plane is not documented for the other planar      *)
(*   kinds, so the composition laws for containsPoint are stated (and compared)  *)
(*   only on probes lying in the plane of every planar operand (PlaneOK);        *)
(*   heights are checked through Height / AABB / Dist / samples, all of which    *)
(*   use Member with three coordinates.                                          *)
EXTENDS RegionGeom, TLC, Json, IOUtils

Data == JsonDeserialize(IOEnv.CASES)
Cat == Data.cat                  \* sequence of primitive regions
Probes == Data.probes            \* sequence of <<x, y, z>>
DistIdx == Data.distidx          \* probes for which distances are printed
Pairs == Data.pairs              \* [a, b, si, su, sd]: ordered pair + snapped samples per operation
NC == Len(Cat)
NQ == Len(Probes)
NP == Len(Pairs)
Ops == {"inter", "union", "diff"}

VARIABLES mode, i, op, rows, out
vars == <<mode, i, op, rows, out>>
Fan == 16            \* initial fan-out so that TLC's workers share the catalogue

\* ---------------------------------------------------------------- rows (materialised per state)
\* membership / boundary / in-plane rows of one catalogue region over the probe grid; they are
\* computed once when a pair (or primitive) is picked and carried in the state variable `rows`
\* A pair may carry a vertical offset dz (lattice units): its probes are the grid translated by dz.
\* It is used by the HISTORY cases (see Reuse below), whose second operands sit far above or below
\* the grid; translating the probes with them keeps everything exact.
PR(q, dz) == <<Probes[q][1], Probes[q][2], Probes[q][3] + dz>>
MemRow(r, dz) == [q \in 1..NQ |-> Member(Cat[r], PR(q, dz))]
BdRow(r, dz) == [q \in 1..NQ |-> OnBd(Cat[r], PR(q, dz))]
PlaneRow(r, dz) == [q \in 1..NQ |-> IsPlanar(Cat[r]) => PR(q, dz)[3] = ZOf(Cat[r])]
RowsOf(a, b, dz) == [ma |-> MemRow(a, dz), mb |-> MemRow(b, dz), ba |-> BdRow(a, dz), bb |-> BdRow(b, dz),
                     pa |-> PlaneRow(a, dz), pb |-> PlaneRow(b, dz)]
Bit(b) == IF b THEN 1 ELSE 0

PA(p) == Cat[Pairs[p].a]
PB(p) == Cat[Pairs[p].b]
ClearR(rw, q) == ~rw.ba[q] /\ ~rw.bb[q]
PlaneOKR(rw, q) == rw.pa[q] /\ rw.pb[q]
ExpectedR(rw, o, q) == CASE o = "inter" -> rw.ma[q] /\ rw.mb[q] [] o = "union" -> rw.ma[q] \/ rw.mb[q] [] o = "diff" -> rw.ma[q] /\ ~rw.mb[q]
SmpP(p, o) == IF o = "inter" THEN Pairs[p].si ELSE IF o = "union" THEN Pairs[p].su ELSE Pairs[p].sd

\* A.intersects(B) exactly when they share a point
SharedProbeR(rw) == \E q \in 1..NQ : rw.ma[q] /\ rw.mb[q] /\ ClearR(rw, q)
IxOf(g, sh) == IF g \in {"touch", "unknown"} /\ sh THEN "yes" ELSE g
\* containsRegion(A, B) <=> Member(B) \subseteq Member(A)
CRP(p, rw) ==
  LET X == PA(p) Y == PB(p) IN
  IF X.k = "all" \/ Y.k = "empty" THEN "yes"
  ELSE IF X.k = "empty" \/ (Y.k \in {"all", "fp"} /\ X.k # "fp") THEN "no"
  ELSE LET cs == Cands(X, Y, AABB(Y).b)
           outside == {q \in cs : Member(Y, q) /\ ~Member(X, q)}
           edge == {q \in cs : Member(Y, q) /\ OnBd(X, q)}
       IN IF (\E q \in outside : ~OnBd(Y, q)) \/ (\E q \in 1..NQ : rw.mb[q] /\ ~rw.ma[q] /\ ClearR(rw, q)) THEN "no"
          ELSE IF Curved(X) \/ Curved(Y) THEN "unknown"
          ELSE IF outside # {} \/ edge # {} THEN "touch"
          ELSE "yes"

\* A \ B is only judged on a common member of A and B when B is at least as thick as A there:
\* removing a set of lower dimension (or a crossing point of two curves) does not change the
\* closure, which is all a numerical library can represent.
Thick(X, Y) == Dim(Y) > Dim(X) \/ (Dim(Y) = Dim(X) /\ Dim(X) # 1)
JudgedR(p, rw, o, q) == (o = "diff" /\ rw.ma[q] /\ rw.mb[q]) => Thick(PA(p), PB(p))

\* Two volumes with a common face plane only TOUCH there: the boolean mesh operation may leave a
\* zero-thickness sliver, near which the answers of the result are arbitrary (don't-care, like every
\* touching configuration).  Probes within half a unit of a common face plane are not judged.
SharedPlanes(X, Y, c) == IF X.k = "vol" /\ Y.k = "vol" THEN CoordsOf(X, c) \cap CoordsOf(Y, c) ELSE {}
Coplanar(X, Y) == \E c \in 1..3 : SharedPlanes(X, Y, c) # {}
NearSharedPlane(X, Y, pt) == \E c \in 1..3 : \E v \in SharedPlanes(X, Y, c) : Abs(pt[c] - v) <= 4

\* ---------------------------------------------------------------- as-implemented deviations
\* Trigger predicates of the named deviations of the unchanged tree (notes/C16.md).  The ideal
\* semantics above is what is checked; a disagreement whose case satisfies a trigger and whose
\* observable is the one the deviation affects is reported under that key.
PolyFam(X) == IsPlanar(X)                                   \* PolygonalRegion and its subclasses
HasShape(X) == IsPlanar(X) \/ X.k \in {"fp", "pline"}        \* toPolygon(X) is not None
WideSect(X) == X.k = "sect" /\ X.n[6] >= 2                   \* subtended angle > 120 degrees
DropsH(X, Y) == PolyFam(X) /\ ZOf(X) # 0 /\ HasShape(Y) /\ (PolyFam(Y) => ZOf(Y) = ZOf(X))
LineVsRaised(X, Y) == X.k = "pline" /\ PolyFam(Y) /\ ZOf(Y) # 0
OffPlanePoint(Q, X) == \E j \in 1..Len(Q.s) : FootMember(X, Q.s[j]) /\ ~Member(X, Q.s[j])
PsetVsFoot(X, Y) == X.k = "pset" /\ Y.k \in {"poly", "rect"} /\ OffPlanePoint(X, Y)
If(c, key) == IF c THEN {key} ELSE {}
TrigOp(X, Y, o) ==
  If(DropsH(X, Y) \/ (o # "diff" /\ DropsH(Y, X)), "polygon-op-drops-height")
  \cup If(WideSect(X) \/ WideSect(Y), "sector-wide-angle-polygon")
  \cup If((o = "inter" /\ (LineVsRaised(X, Y) \/ LineVsRaised(Y, X))) \/ (o = "diff" /\ LineVsRaised(X, Y)), "polyline-polygon-ignores-height")
  \cup If(o = "union" /\ ((PolyFam(X) /\ Y.k = "pline") \/ (PolyFam(Y) /\ X.k = "pline")), "polygon-union-drops-polyline")
  \cup If(o = "union" /\ ((PolyFam(X) /\ Y.k = "fp") \/ (PolyFam(Y) /\ X.k = "fp")), "footprint-union-flattened")
  \cup If(o = "inter" /\ X.k = "pset" /\ Y.k = "pset", "pointset-intersect-crash")
  \cup If(o = "inter" /\ ((X.k = "pset" /\ Y.k \in {"poly", "pline", "path", "fp"}) \/ (Y.k = "pset" /\ X.k \in {"poly", "pline", "path", "fp"})), "pointset-intersect-crash")
  \cup If(o = "inter" /\ (PsetVsFoot(X, Y) \/ PsetVsFoot(Y, X)), "pointset-footprint-membership")
TrigPair(X, Y) ==
  If(WideSect(X) \/ WideSect(Y), "sector-wide-angle-polygon")
  \cup If(LineVsRaised(X, Y) \/ LineVsRaised(Y, X), "polyline-polygon-ignores-height")
  \cup If(X.k = "circ" /\ Y.k = "circ", "circle-intersects-3d-centres")
  \cup If(PsetVsFoot(X, Y) \/ PsetVsFoot(Y, X), "pointset-footprint-membership")
  \cup If(X.k \in {"fp", "pline"} \/ (X.k = "pset" /\ Y.k = "pset"), "containsregion-crash")
  \* X.containsRegion(Y) of a polygonal X compares footprints only: Y in another plane is "contained"
  \cup If(PolyFam(X) /\ ((PolyFam(Y) /\ ZOf(Y) # ZOf(X)) \/ (Y.k = "pline" /\ ZOf(X) # 0)), "containsregion-ignores-height")
TrigPrim(X) == If(WideSect(X), "sector-wide-angle-polygon")

\* measure (`size`) of a composition when it is decided on the lattice: the intersection of two
\* single cells is the meet box (AABB exact), so its volume / area is the product of its non-flat
\* extents; -1 = not stated
MeasOf(RR) == LET bb == AABB(RR) e1 == bb.b[2] - bb.b[1] e2 == bb.b[4] - bb.b[3] e3 == bb.b[6] - bb.b[5] IN
   IF RR.k = "inter" /\ bb.e /\ bb.x /\ RR.a.k # "all" /\ RR.b.k # "all" /\ e1 > 0 /\ e2 > 0
      /\ bb.b[5] > -INF /\ bb.b[6] < INF
   THEN (IF e3 > 0 THEN e1 * e2 * e3 ELSE e1 * e2) ELSE -1
\* ---------------------------------------------------------------- what the library must answer
PrimRec(r, rw) == [t |-> "prim", r |-> r, bits |-> [q \in 1..NQ |-> Bit(rw.ma[q])],
               bd |-> [q \in 1..NQ |-> Bit(rw.ba[q])],
               h |-> Height(Cat[r]), bb |-> AABB(Cat[r]),
               dist |-> [k \in 1..Len(DistIdx) |-> Dist(Cat[r], Probes[DistIdx[k]])],
               dim |-> Dim(Cat[r]), meas |-> Measure(Cat[r]), trig |-> TrigPrim(Cat[r])]
PairRec(p, rw) == [t |-> "pair", p |-> p, a |-> Pairs[p].a, b |-> Pairs[p].b, cr |-> CRP(p, rw),
               ixgeom |-> Intersects(PA(p), PB(p)), sh |-> SharedProbeR(rw), trig |-> TrigPair(PA(p), PB(p))]
CaseRec(p, o, rw) == LET RR == Comp(o, PA(p), PB(p)) IN
   [t |-> "case", p |-> p, a |-> Pairs[p].a, b |-> Pairs[p].b, op |-> o,
    bits |-> [q \in 1..NQ |-> Bit(ExpectedR(rw, o, q))],
    ok |-> [q \in 1..NQ |-> Bit(ClearR(rw, q) /\ PlaneOKR(rw, q) /\ JudgedR(p, rw, o, q)
                                /\ ~NearSharedPlane(PA(p), PB(p), PR(q, Pairs[p].dz)))],
    coplanar |-> Coplanar(PA(p), PB(p)),
    trig |-> TrigOp(PA(p), PB(p), o),
    h |-> Height(RR), bb |-> AABB(RR), meas |-> MeasOf(RR),
    dist |-> [k \in 1..Len(DistIdx) |-> Dist(RR, PR(DistIdx[k], Pairs[p].dz))],
    smp |-> [k \in 1..Len(SmpP(p, o)) |-> Cell(RR, SmpP(p, o)[k])]]

Init == mode = "start" /\ i \in 0..(Fan - 1) /\ op = "none" /\ out = <<>> /\ rows = <<>>
\* Data.run = "laws": the laws and the expectations (independent of the real code);
\* Data.run = "samples": only the classification of the snapped samples of the real results
PickSmp == /\ mode = "start" /\ Data.run = "samples" /\ mode' = "smp" /\ rows' = <<>>
           /\ \E p \in 1..NP, o \in Ops :
                /\ p % Fan = i /\ i' = p /\ op' = o
                /\ out' = [t |-> "smp", p |-> p, op |-> o,
                           smp |-> [k \in 1..Len(SmpP(p, o)) |-> Cell(Comp(o, PA(p), PB(p)), SmpP(p, o)[k])]]
PickPrim == /\ mode = "start" /\ Data.run = "laws" /\ mode' = "prim" /\ op' = "none"
            /\ \E r \in 1..NC : r % Fan = i /\ i' = r /\ r <= Data.nprim /\ rows' = RowsOf(r, r, 0) /\ out' = PrimRec(r, rows')
PickPair == /\ mode = "start" /\ Data.run = "laws" /\ mode' = "pair" /\ op' = "none"
            /\ \E p \in 1..NP : p % Fan = i /\ i' = p /\ rows' = RowsOf(Pairs[p].a, Pairs[p].b, Pairs[p].dz) /\ out' = PairRec(p, rows')
Compose(o) == /\ mode = "pair" /\ op = "none" /\ op' = o /\ out' = CaseRec(i, o, rows)
              /\ UNCHANGED <<mode, i, rows>>
Next == PickPrim \/ PickPair \/ PickSmp \/ \E o \in Ops : Compose(o)
Spec == Init /\ [][Next]_vars

A == PA(i)
B == PB(i)
ia == Pairs[i].a
ib == Pairs[i].b
R == Comp(op, A, B)
Rrev == Comp(op, B, A)
IsPrim == mode = "prim"
IsPair == mode = "pair" /\ op = "none"
IsCase == mode = "pair" /\ op # "none"
Expected(q) == out.bits[q] = 1

\* the probe q of the current state (translated for pairs with an offset)
Pq(q) == PR(q, IF mode = "pair" THEN Pairs[i].dz ELSE 0)
TypeOK == /\ mode \in {"start", "prim", "pair", "smp"} /\ op \in Ops \cup {"none"}
          /\ (mode = "prim" => i \in 1..NC /\ op = "none") /\ (mode = "pair" => i \in 1..NP)

\* ---------------------------------------------------------------- laws on primitives
\* the generator's catalogue is inside the sub-universe: cells disjoint, probes usable
CatalogueOK == IsPrim =>
  /\ CellsDisjoint(Cat[i])
  /\ Cat[i].k \notin {"all", "empty"} => \E q \in 1..NQ : rows.ma[q] /\ ~rows.ba[q]
  /\ Cat[i].k # "all" => \E q \in 1..NQ : ~rows.ma[q]
\* footprint test and 3-D membership agree in the region's own plane
PlaneAgreement == IsPrim => \A q \in 1..NQ :
  /\ rows.pa[q] => (FootMember(Cat[i], Pq(q)) = rows.ma[q])
  /\ IsPlanar(Cat[i]) /\ rows.ma[q] => Pq(q)[3] = ZOf(Cat[i])
\* distance zero exactly on the members; never below the vertical offset of a flat region
DistZeroIffMember == IsPrim => \A q \in 1..NQ :
  LET d == Dist(Cat[i], Pq(q)) h == out.h IN
  /\ d.x >= 0 => ((d.x = 0) <=> rows.ma[q])
  /\ rows.ma[q] => d.lb = 0
  /\ d.x >= 0 => d.lb <= d.x
  /\ h.t = "z" => d.lb >= Sq(Pq(q)[3] - h.v)
  /\ Len(d.c) = 3 => ((d.c[1] <= Sq(d.c[2]) /\ d.c[3] = 0) <=> rows.ma[q])
\* the bounding box contains every member, the height class is right
BoxSoundPrim == IsPrim => \A q \in 1..NQ : rows.ma[q] =>
  /\ out.bb.e /\ InB(out.bb.b, Pq(q))
  /\ out.h.t # "none" /\ (out.h.t = "z" => Pq(q)[3] = out.h.v)

\* ---------------------------------------------------------------- laws on compositions
\* set semantics with all three coordinates: the printed bitmap is the structural Member
LawMember == IsCase => \A q \in 1..NQ : Member(R, Pq(q)) = Expected(q)
\* the SET denoted by A.intersect(B) is that of B.intersect(A); same for union
LawCommute == (IsCase /\ op \in {"inter", "union"}) =>
  \A q \in 1..NQ : Expected(q) = Member(Rrev, Pq(q))
\* A = (A \ B) + (A & B) disjointly;  A | B = (A \ B) + B disjointly
LawPartition == IsPair => \A q \in 1..NQ :
  LET p == Pq(q) d == Member(Comp("diff", A, B), p) n == Member(Comp("inter", A, B), p) IN
  /\ rows.ma[q] = (d \/ n) /\ ~(d /\ n)
  /\ Member(Comp("union", A, B), p) = (d \/ rows.mb[q]) /\ ~(d /\ rows.mb[q])
\* everywhere / nowhere / idempotence
LawIdentities == IsCase => \A q \in 1..NQ :
  /\ B.k = "all" => Expected(q) = (IF op = "inter" THEN rows.ma[q] ELSE op = "union")
  /\ B.k = "empty" => Expected(q) = (IF op = "inter" THEN FALSE ELSE rows.ma[q])
  /\ ia = ib => Expected(q) = (IF op = "diff" THEN FALSE ELSE rows.ma[q])
\* the footprint reading and the 3-D reading of containsPoint agree where the check compares them
LawPlane == IsCase => \A q \in 1..NQ : out.ok[q] = 1 =>
  Expected(q) = (CASE op = "inter" -> FootMember(A, Pq(q)) /\ FootMember(B, Pq(q))
                   [] op = "union" -> FootMember(A, Pq(q)) \/ FootMember(B, Pq(q))
                   [] op = "diff" -> FootMember(A, Pq(q)) /\ ~FootMember(B, Pq(q)))
\* planar results keep their height; an empty height class means an empty set
HeightSound == IsCase => \A q \in 1..NQ : Expected(q) =>
     /\ out.h.t # "none" /\ (out.h.t = "z" => Pq(q)[3] = out.h.v)
\* the bounding box contains every member (and is empty only for an empty set)
BoxSound == IsCase => \A q \in 1..NQ : Expected(q) => out.bb.e /\ InB(out.bb.b, Pq(q))
\* distance: zero exactly on members, at least the vertical offset of a flat result
DistSound == IsCase => \A k \in 1..Len(DistIdx) :
  LET q == DistIdx[k] d == out.dist[k] h == out.h IN
  /\ d.x >= 0 => ((d.x = 0) <=> Expected(q))
  /\ Expected(q) => d.lb = 0
  /\ d.x >= 0 => d.lb <= d.x
  /\ h.t = "z" => d.lb >= Sq(Pq(q)[3] - h.v)
  /\ h.t = "none" => d.lb > 0
\* intersects is symmetric, "no" leaves no common probe, an empty height class means disjoint
OutIx == IxOf(out.ixgeom, out.sh)
IntersectsSound == IsPair =>
  /\ (ia + ib) % 5 = 0 => out.ixgeom = Intersects(B, A)
  /\ OutIx = "no" => \A q \in 1..NQ : ~(rows.ma[q] /\ rows.mb[q])
  /\ out.sh => OutIx \in {"yes", "unknown"}
  /\ Height(Comp("inter", A, B)).t = "none" => OutIx \in {"no", "touch"}
ContainsSound == IsPair =>
  /\ out.cr = "yes" => \A q \in 1..NQ : rows.mb[q] => rows.ma[q]
  /\ (out.cr = "yes" /\ B.k # "empty") => OutIx \in {"yes", "touch", "unknown"}
\* a classified sample never contradicts the cell's centre
SampleSound == mode = "smp" => \A k \in 1..Len(out.smp) :
  LET q == SmpP(i, op)[k] IN
  /\ out.smp[k] = "in" => Member(R, q)
  /\ out.smp[k] = "out" => ~Member(R, q)

\* a stated measure belongs to a non-empty set whose box is exact; a flat set has an area
MeasSound == IsCase => (out.meas >= 0 =>
   /\ out.bb.x /\ out.h.t # "none" /\ out.meas > 0
   /\ (out.h.t = "z" <=> out.bb.b[5] = out.bb.b[6]))

\* ---------------------------------------------------------------- Reuse: histories
\* The laws above are stated on VALUES: what A.op(B) denotes is a function of the sets A and B
\* alone.  In particular it must not depend on which operations the operand OBJECTS took part in
\* before (regions cache derived data: bounded footprints, meshes, collision data, triangulations,
\* prepared geometry, memoised intersect / containsRegion).  A history is a short sequence of pairs
\* (field hid = history, step = position) that share one operand object in the real code; the
\* expectation of every step is computed exactly as for a fresh pair -- PairRec / CaseRec take no
\* history argument -- and HistoryFree states it: two entries with the same operands and offset get
\* the same expectation whatever their history and position.
SameOperands(p, j) == Pairs[j].a = Pairs[p].a /\ Pairs[j].b = Pairs[p].b /\ Pairs[j].dz = Pairs[p].dz
HistoryFree == IsCase => \A j \in 1..NP : (j # i /\ SameOperands(i, j)) =>
   LET other == CaseRec(j, op, rows) IN
   other.bits = out.bits /\ other.ok = out.ok /\ other.h = out.h /\ other.bb = out.bb /\ other.dist = out.dist

Emit == mode # "start" => PrintT(ToJson(out))
=============================================================================
