----------------------------- MODULE RegionGeom -----------------------------
(* Integer lattice geometry of Scenic regions, shared by RegionAlg (C16) and     *)
(* RegionSampling (C03).  Constant-level operators only.                          *)
(*                                                                              *)
(* All coordinates are real coordinates times 8.  Region parameters are         *)
(* multiples of 2 (quarter units), probes have coordinates = 2*odd in x and y    *)
(* (so they never lie on an edge), snapped samples may be any integer (an odd    *)
(* value stands for the whole open interval between two quarter lines).          *)
(*                                                                              *)
(* The MEANING of every kind is the reference's (docs/reference/region_types,    *)
(* class docstrings):                                                            *)
(*   vol    union of axis-aligned boxes <<x0,x1,y0,y1,z0,z1>> (BoxRegion /       *)
(*          MeshVolumeRegion): the closed solid                                  *)
(*   poly   "one or more polygons (possibly with holes) at a fixed z": union of  *)
(*          interior-disjoint rectangles <<x0,x1,y0,y1>> in the plane z = n[1]   *)
(*   rect   RectangularRegion n = <<cx,cy,z,width,length,h4>>, heading = h4*90   *)
(*          degrees "of the length axis" (heading 0 = +Y)                        *)
(*   circ   disc n = <<cx,cy,z,r>> in the plane z                                *)
(*   sect   sector n = <<cx,cy,z,r,h8,half>>: heading h8*45 degrees (0 = +Y,     *)
(*          counter-clockwise positive), subtended angle 2*half*45 degrees       *)
(*   pline  PolylineRegion: chain of axis-parallel segments through the          *)
(*          vertices s = << <<x,y>> .. >> ; always in the plane z = 0            *)
(*   path   PathRegion: the same in 3-D, vertices <<x,y,z>>                      *)
(*   pset   PointSetRegion: the points s = << <<x,y,z>> .. >>                    *)
(*   fp     PolygonalFootprintRegion: rectangles extruded over all z             *)
(*   all / empty                                                                 *)
(*   inter / union / diff  with fields a, b : the composed SET                   *)
(* A planar region is the set of points of its polygon AT ITS HEIGHT.            *)
EXTENDS Integers, Sequences, FiniteSets

Abs(a) == IF a < 0 THEN -a ELSE a
Min2(a, b) == IF a < b THEN a ELSE b
Max2(a, b) == IF a > b THEN a ELSE b
Sq(a) == a * a
RECURSIVE MinSeq(_), MaxSeq(_), SumSeq(_)
MinSeq(s) == IF Len(s) = 1 THEN s[1] ELSE Min2(s[1], MinSeq(Tail(s)))
MaxSeq(s) == IF Len(s) = 1 THEN s[1] ELSE Max2(s[1], MaxSeq(Tail(s)))
SumSeq(s) == IF s = <<>> THEN 0 ELSE s[1] + SumSeq(Tail(s))

BIG == 1000000          \* "infinite" squared distance / unbounded extent
INF == 4000             \* unbounded coordinate

Prim(k, n, s) == [k |-> k, n |-> n, s |-> s]
Comp(op, A, B) == [k |-> op, a |-> A, b |-> B]
IsComp(R) == R.k \in {"inter", "union", "diff"}

\* ---------------------------------------------------------------- intervals, boxes
Gap(lo, hi, v) == IF v < lo THEN lo - v ELSE IF v > hi THEN v - hi ELSE 0
InRect(r, p) == r[1] <= p[1] /\ p[1] <= r[2] /\ r[3] <= p[2] /\ p[2] <= r[4]
EdgeRect(r, p) == InRect(r, p) /\ (p[1] = r[1] \/ p[1] = r[2] \/ p[2] = r[3] \/ p[2] = r[4])
InBox(b, p) == InRect(b, p) /\ b[5] <= p[3] /\ p[3] <= b[6]
FaceBox(b, p) == InBox(b, p) /\ (EdgeRect(b, p) \/ p[3] = b[5] \/ p[3] = b[6])
RectD2(r, p) == Sq(Gap(r[1], r[2], p[1])) + Sq(Gap(r[3], r[4], p[2]))
BoxD2(b, p) == RectD2(b, p) + Sq(Gap(b[5], b[6], p[3]))

\* RectangularRegion: width across, length along the heading
RectExt(n) == IF n[6] % 2 = 0
              THEN <<n[1] - n[4] \div 2, n[1] + n[4] \div 2, n[2] - n[5] \div 2, n[2] + n[5] \div 2>>
              ELSE <<n[1] - n[5] \div 2, n[1] + n[5] \div 2, n[2] - n[4] \div 2, n[2] + n[4] \div 2>>

IsPlanar(R) == R.k \in {"poly", "rect", "circ", "sect"}
ZOf(R) == IF R.k = "poly" THEN R.n[1] ELSE R.n[3]
RectsOf(R) == IF R.k = "rect" THEN <<RectExt(R.n)>> ELSE R.s        \* poly, fp, rect

\* ---------------------------------------------------------------- discs and sectors
D2xy(n, p) == Sq(p[1] - n[1]) + Sq(p[2] - n[2])
D3(n, p) == Sq(p[1] - n[1]) + Sq(p[2] - n[2]) + Sq(p[3] - n[3])       \* sph: n = <<cx,cy,cz,r>>
\* heading k*45 degrees, 0 = +Y, counter-clockwise
HeadVec == << <<0, 1>>, <<-1, 1>>, <<-1, 0>>, <<-1, -1>>, <<0, -1>>, <<1, -1>>, <<1, 0>>, <<1, 1>> >>
Dot2(v, u) == v[1] * u[1] + v[2] * u[2]
\* angle between v and u at most half*45 degrees (closed); the apex belongs to the cone
InCone(v, u, half) ==
  LET d == Dot2(v, u) n2 == Dot2(v, v) * Dot2(u, u) IN
  IF v = <<0, 0>> THEN TRUE
  ELSE CASE half = 1 -> d >= 0 /\ 2 * d * d >= n2
         [] half = 2 -> d >= 0
         [] half = 3 -> ~(d < 0 /\ 2 * d * d > n2)
         [] half = 4 -> TRUE
ConeEdge(v, u, half) ==
  LET d == Dot2(v, u) n2 == Dot2(v, v) * Dot2(u, u) IN
  IF v = <<0, 0>> THEN TRUE
  ELSE CASE half = 1 -> d >= 0 /\ 2 * d * d = n2
         [] half = 2 -> d = 0
         [] half = 3 -> d <= 0 /\ 2 * d * d = n2
         [] half = 4 -> FALSE
SectV(n, p) == <<p[1] - n[1], p[2] - n[2]>>

\* ---------------------------------------------------------------- segments
Between(a, b, v) == Min2(a, b) <= v /\ v <= Max2(a, b)
\* axis-parallel segment a-b (2 or 3 coordinates used), point p
OnSeg(a, b, p, dims) == /\ \A c \in 1..dims : Between(a[c], b[c], p[c])
                        /\ \A c \in 1..dims : a[c] = b[c] => p[c] = a[c]
RECURSIVE SegD2r(_, _, _, _)
SegD2r(a, b, p, c) == IF c = 0 THEN 0 ELSE Sq(Gap(Min2(a[c], b[c]), Max2(a[c], b[c]), p[c])) + SegD2r(a, b, p, c - 1)
SegD2(a, b, p, dims) == SegD2r(a, b, p, dims)
SegLen(a, b, dims) == SumSeq([c \in 1..dims |-> Abs(a[c] - b[c])])

\* ---------------------------------------------------------------- membership
RECURSIVE Member(_, _)
Member(R, p) ==
  CASE R.k = "all" -> TRUE
    [] R.k = "empty" -> FALSE
    [] R.k = "vol" -> \E i \in 1..Len(R.s) : InBox(R.s[i], p)
    [] R.k \in {"poly", "rect"} -> p[3] = ZOf(R) /\ \E i \in 1..Len(RectsOf(R)) : InRect(RectsOf(R)[i], p)
    [] R.k = "fp" -> \E i \in 1..Len(R.s) : InRect(R.s[i], p)
    [] R.k = "circ" -> p[3] = R.n[3] /\ D2xy(R.n, p) <= Sq(R.n[4])
    [] R.k = "sect" -> /\ p[3] = R.n[3] /\ D2xy(R.n, p) <= Sq(R.n[4])
                       /\ InCone(SectV(R.n, p), HeadVec[R.n[5] + 1], R.n[6])
    [] R.k = "pline" -> p[3] = 0 /\ \E i \in 1..(Len(R.s) - 1) : OnSeg(R.s[i], R.s[i + 1], p, 2)
    [] R.k = "path" -> \E i \in 1..(Len(R.s) - 1) : OnSeg(R.s[i], R.s[i + 1], p, 3)
    [] R.k = "pset" -> \E i \in 1..Len(R.s) : R.s[i] = p
    [] R.k = "sph" -> D3(R.n, p) <= Sq(R.n[4])
    [] R.k = "surf" -> \E i \in 1..Len(R.s) : FaceBox(R.s[i], p)
    [] R.k = "inter" -> Member(R.a, p) /\ Member(R.b, p)
    [] R.k = "union" -> Member(R.a, p) \/ Member(R.b, p)
    [] R.k = "diff" -> Member(R.a, p) /\ ~Member(R.b, p)

\* The "footprint question" (x, y only) that PolygonalRegion.containsPoint is documented
\* to answer; equal to Member in the region's own plane.
FootMember(R, p) == IF IsPlanar(R) THEN Member(R, <<p[1], p[2], ZOf(R)>>) ELSE Member(R, p)

\* relative boundary (conservative: may flag more), used only to exclude probes
RECURSIVE OnBd(_, _)
OnBd(R, p) ==
  CASE R.k \in {"all", "empty", "pset", "surf"} -> FALSE
    [] R.k = "sph" -> D3(R.n, p) = Sq(R.n[4])
    [] R.k = "vol" -> \E i \in 1..Len(R.s) : FaceBox(R.s[i], p)
    [] R.k \in {"poly", "rect", "fp"} -> \E i \in 1..Len(RectsOf(R)) : EdgeRect(RectsOf(R)[i], p)
    [] R.k = "circ" -> D2xy(R.n, p) = Sq(R.n[4])
    [] R.k = "sect" -> \/ D2xy(R.n, p) = Sq(R.n[4])
                       \/ (D2xy(R.n, p) <= Sq(R.n[4]) /\ ConeEdge(SectV(R.n, p), HeadVec[R.n[5] + 1], R.n[6]))
    [] R.k = "pline" -> <<p[1], p[2]>> = R.s[1] \/ <<p[1], p[2]>> = R.s[Len(R.s)]
    [] R.k = "path" -> p = R.s[1] \/ p = R.s[Len(R.s)]
    [] OTHER -> OnBd(R.a, p) \/ OnBd(R.b, p)

\* A snapped sample q stands for a small cell: coordinate c ranges over q[c]-1 .. q[c]+1 when
\* q[c] is odd (open interval between two quarter lines) and is exact when q[c] is even.
\* For the curved kinds the answer must be the same on the whole cell, otherwise "mixed".
Spread(q, c) == IF q[c] % 2 = 0 THEN {0} ELSE {-1, 1}
Corners(q) == {<<q[1] + i, q[2] + j, q[3]>> : i \in Spread(q, 1), j \in Spread(q, 2)}
CurvedCell(R, q) ==    \* "in", "out" or "mixed" for circ / sect on the cell of q
  LET cs == Corners(q) r == R.n[4]
      dmax == MaxSeq([i \in 1..4 |-> D2xy(R.n, <<q[1] + (IF i \in {1, 2} THEN -1 ELSE 1), q[2] + (IF i \in {1, 3} THEN -1 ELSE 1)>>)])
      dmin == MinSeq([i \in 1..4 |-> D2xy(R.n, <<q[1] + (IF i \in {1, 2} THEN -1 ELSE 1), q[2] + (IF i \in {1, 3} THEN -1 ELSE 1)>>)])
  IN IF q[3] # R.n[3] THEN "out"
     ELSE IF dmin > Sq(r + 1) THEN "out"
     ELSE IF R.k = "circ" THEN (IF dmax <= Sq(r - 1) THEN "in" ELSE "mixed")
     ELSE LET u == HeadVec[R.n[5] + 1] h == R.n[6]
              allin == \A c \in cs : InCone(SectV(R.n, c), u, h) /\ ~ConeEdge(SectV(R.n, c), u, h)
              allout == \A c \in cs : ~InCone(SectV(R.n, c), u, h)
          IN IF dmin <= 18 THEN "mixed"          \* the apex is in or next to the cell
             ELSE IF allout THEN "out"
             ELSE IF allin /\ dmax <= Sq(r - 1) THEN "in" ELSE "mixed"

Corners3(q) == {<<q[1] + i, q[2] + j, q[3] + k>> : i \in Spread(q, 1), j \in Spread(q, 2), k \in Spread(q, 3)}
SphCell(R, q) == LET ds == {D3(R.n, x) : x \in Corners3(q)} IN
   IF \A d \in ds : d <= Sq(R.n[4]) THEN "in" ELSE IF \A d \in ds : d > Sq(R.n[4] + 1) THEN "out" ELSE "mixed"
RECURSIVE Cell(_, _)
Cell(R, q) ==
  CASE R.k \in {"circ", "sect"} -> CurvedCell(R, q)
    [] R.k = "sph" -> SphCell(R, q)
    [] R.k = "inter" -> LET x == Cell(R.a, q) y == Cell(R.b, q) IN
                        IF x = "out" \/ y = "out" THEN "out" ELSE IF x = "in" /\ y = "in" THEN "in" ELSE "mixed"
    [] R.k = "union" -> LET x == Cell(R.a, q) y == Cell(R.b, q) IN
                        IF x = "in" \/ y = "in" THEN "in" ELSE IF x = "out" /\ y = "out" THEN "out" ELSE "mixed"
    [] R.k = "diff" -> LET x == Cell(R.a, q) y == Cell(R.b, q) IN
                       IF x = "out" \/ y = "in" THEN "out" ELSE IF x = "in" /\ y = "out" THEN "in" ELSE "mixed"
    [] OTHER -> IF OnBd(R, q) THEN "mixed" ELSE IF Member(R, q) THEN "in" ELSE "out"

\* ---------------------------------------------------------------- height of a region
\* [t |-> "z", v |-> h]   every member has z = h         (planar / flat)
\* [t |-> "vol"]          members at a range of heights
\* [t |-> "none"]         no members at all
Hz(h) == [t |-> "z", v |-> h]
Hvol == [t |-> "vol", v |-> 0]
Hnone == [t |-> "none", v |-> 0]
AllSameZ(s) == \A i \in 1..Len(s) : s[i][3] = s[1][3]
ZRange(R) ==   \* closed range of z over which a primitive has members (<<lo, hi>>)
  CASE R.k = "vol" -> <<MinSeq([i \in 1..Len(R.s) |-> R.s[i][5]]), MaxSeq([i \in 1..Len(R.s) |-> R.s[i][6]])>>
    [] IsPlanar(R) -> <<ZOf(R), ZOf(R)>>
    [] R.k = "pline" -> <<0, 0>>
    [] R.k \in {"path", "pset"} -> <<MinSeq([i \in 1..Len(R.s) |-> R.s[i][3]]), MaxSeq([i \in 1..Len(R.s) |-> R.s[i][3]])>>
    [] OTHER -> <<-INF, INF>>
RECURSIVE Height(_)
Height(R) ==
  CASE R.k = "empty" -> Hnone
    [] R.k \in {"all", "fp", "vol"} -> Hvol
    [] IsPlanar(R) -> Hz(ZOf(R))
    [] R.k = "pline" -> Hz(0)
    [] R.k \in {"path", "pset"} -> IF AllSameZ(R.s) THEN Hz(R.s[1][3]) ELSE Hvol
    [] R.k = "inter" -> LET x == Height(R.a) y == Height(R.b) IN
         IF x.t = "none" \/ y.t = "none" THEN Hnone
         ELSE IF x.t = "z" /\ y.t = "z" THEN (IF x.v = y.v THEN x ELSE Hnone)
         ELSE IF x.t = "z" THEN (IF IsComp(R.b) \/ (ZRange(R.b)[1] <= x.v /\ x.v <= ZRange(R.b)[2]) THEN x ELSE Hnone)
         ELSE IF y.t = "z" THEN (IF IsComp(R.a) \/ (ZRange(R.a)[1] <= y.v /\ y.v <= ZRange(R.a)[2]) THEN y ELSE Hnone)
         ELSE Hvol
    [] R.k = "union" -> LET x == Height(R.a) y == Height(R.b) IN
         IF x.t = "none" THEN y ELSE IF y.t = "none" THEN x
         ELSE IF x.t = "z" /\ y.t = "z" /\ x.v = y.v THEN x ELSE Hvol
    [] R.k = "diff" -> Height(R.a)

\* ---------------------------------------------------------------- bounding boxes
\* [e |-> nonempty, x |-> exact, b |-> <<x0,x1,y0,y1,z0,z1>>]; when x is FALSE b is an outer bound
BB(e, x, b) == [e |-> e, x |-> x, b |-> b]
HullB(b, c) == <<Min2(b[1], c[1]), Max2(b[2], c[2]), Min2(b[3], c[3]), Max2(b[4], c[4]), Min2(b[5], c[5]), Max2(b[6], c[6])>>
MeetB(b, c) == <<Max2(b[1], c[1]), Min2(b[2], c[2]), Max2(b[3], c[3]), Min2(b[4], c[4]), Max2(b[5], c[5]), Min2(b[6], c[6])>>
EmptyB(b) == b[1] > b[2] \/ b[3] > b[4] \/ b[5] > b[6]
\* two thick extents meeting in a single value: the operands only touch (don't-care)
TouchB(b, c, m) == \E a \in 1..3 : m[2 * a - 1] = m[2 * a] /\ b[2 * a - 1] < b[2 * a] /\ c[2 * a - 1] < c[2 * a]
RectsBB(rs, z0, z1) == <<MinSeq([i \in 1..Len(rs) |-> rs[i][1]]), MaxSeq([i \in 1..Len(rs) |-> rs[i][2]]),
                         MinSeq([i \in 1..Len(rs) |-> rs[i][3]]), MaxSeq([i \in 1..Len(rs) |-> rs[i][4]]), z0, z1>>
PtsBB(s, d) == <<MinSeq([i \in 1..Len(s) |-> s[i][1]]), MaxSeq([i \in 1..Len(s) |-> s[i][1]]),
                 MinSeq([i \in 1..Len(s) |-> s[i][2]]), MaxSeq([i \in 1..Len(s) |-> s[i][2]]),
                 IF d = 3 THEN MinSeq([i \in 1..Len(s) |-> s[i][3]]) ELSE 0,
                 IF d = 3 THEN MaxSeq([i \in 1..Len(s) |-> s[i][3]]) ELSE 0>>
UNB == <<-INF, INF, -INF, INF, -INF, INF>>
SingleCell(R) == (R.k = "vol" /\ Len(R.s) = 1) \/ R.k = "rect" \/ (R.k \in {"poly", "fp"} /\ Len(R.s) = 1) \/ R.k = "all"
RECURSIVE AABB(_)
AABB(R) ==
  CASE R.k = "empty" -> BB(FALSE, TRUE, UNB)
    [] R.k = "all" -> BB(TRUE, FALSE, UNB)
    [] R.k = "vol" -> BB(TRUE, TRUE, RectsBB(R.s, ZRange(R)[1], ZRange(R)[2]))
    [] R.k \in {"poly", "rect"} -> BB(TRUE, TRUE, RectsBB(RectsOf(R), ZOf(R), ZOf(R)))
    [] R.k = "fp" -> BB(TRUE, FALSE, RectsBB(R.s, -INF, INF))
    [] R.k = "circ" -> BB(TRUE, TRUE, <<R.n[1] - R.n[4], R.n[1] + R.n[4], R.n[2] - R.n[4], R.n[2] + R.n[4], R.n[3], R.n[3]>>)
    [] R.k = "sect" -> BB(TRUE, FALSE, <<R.n[1] - R.n[4], R.n[1] + R.n[4], R.n[2] - R.n[4], R.n[2] + R.n[4], R.n[3], R.n[3]>>)
    [] R.k = "pline" -> BB(TRUE, TRUE, PtsBB(R.s, 2))
    [] R.k \in {"path", "pset"} -> BB(TRUE, TRUE, PtsBB(R.s, 3))
    [] R.k = "inter" -> LET x == AABB(R.a) y == AABB(R.b) m == MeetB(x.b, y.b) IN
         IF ~x.e \/ ~y.e \/ EmptyB(m) THEN BB(FALSE, TRUE, UNB)
         ELSE BB(TRUE, SingleCell(R.a) /\ SingleCell(R.b) /\ Height(R).t # "none" /\ ~TouchB(x.b, y.b, m), m)
    [] R.k = "union" -> LET x == AABB(R.a) y == AABB(R.b) IN
         IF ~x.e THEN y ELSE IF ~y.e THEN x ELSE BB(TRUE, x.x /\ y.x, HullB(x.b, y.b))
    [] R.k = "diff" -> LET x == AABB(R.a) IN BB(x.e, FALSE, x.b)

InB(b, p) == b[1] <= p[1] /\ p[1] <= b[2] /\ b[3] <= p[2] /\ p[2] <= b[4] /\ b[5] <= p[3] /\ p[3] <= b[6]

\* ---------------------------------------------------------------- distance
\* [x |-> exact squared distance or -1, lb |-> integer lower bound of the squared distance,
\*  c |-> <<D2, r, dz>> for a disc (distance = hypot(max(0, sqrt(D2) - r), dz)) or <<>>]
DD(x, lb, c) == [x |-> x, lb |-> lb, c |-> c]
RECURSIVE Dist(_, _)
Dist(R, p) ==
  CASE R.k = "all" -> DD(0, 0, <<>>)
    [] R.k = "empty" -> DD(BIG, BIG, <<>>)
    [] R.k = "vol" -> LET d == MinSeq([i \in 1..Len(R.s) |-> BoxD2(R.s[i], p)]) IN DD(d, d, <<>>)
    [] R.k \in {"poly", "rect"} ->
         LET d == MinSeq([i \in 1..Len(RectsOf(R)) |-> RectD2(RectsOf(R)[i], p)]) + Sq(p[3] - ZOf(R)) IN DD(d, d, <<>>)
    [] R.k = "fp" -> LET d == MinSeq([i \in 1..Len(R.s) |-> RectD2(R.s[i], p)]) IN DD(d, d, <<>>)
    [] R.k = "circ" -> LET D == D2xy(R.n, p) dz == p[3] - R.n[3] IN
         IF D <= Sq(R.n[4]) THEN DD(Sq(dz), Sq(dz), <<D, R.n[4], dz>>) ELSE DD(-1, Sq(dz), <<D, R.n[4], dz>>)
    [] R.k = "sect" -> DD(IF Member(R, <<p[1], p[2], R.n[3]>>) THEN Sq(p[3] - R.n[3]) ELSE -1, Sq(p[3] - R.n[3]), <<>>)
    [] R.k = "pline" -> LET d == MinSeq([i \in 1..(Len(R.s) - 1) |-> SegD2(R.s[i], R.s[i + 1], p, 2)]) + Sq(p[3]) IN DD(d, d, <<>>)
    [] R.k = "path" -> LET d == MinSeq([i \in 1..(Len(R.s) - 1) |-> SegD2(R.s[i], R.s[i + 1], p, 3)]) IN DD(d, d, <<>>)
    [] R.k = "pset" -> LET d == MinSeq([i \in 1..Len(R.s) |-> Sq(R.s[i][1] - p[1]) + Sq(R.s[i][2] - p[2]) + Sq(R.s[i][3] - p[3])]) IN DD(d, d, <<>>)
    [] R.k = "union" -> LET x == Dist(R.a, p) y == Dist(R.b, p) IN
         DD(IF x.x >= 0 /\ y.x >= 0 THEN Min2(x.x, y.x) ELSE IF Member(R, p) THEN 0 ELSE -1, Min2(x.lb, y.lb), <<>>)
    [] R.k = "inter" -> LET x == Dist(R.a, p) y == Dist(R.b, p) IN
         DD(IF Member(R, p) THEN 0 ELSE -1, Max2(x.lb, y.lb), <<>>)
    [] R.k = "diff" -> LET x == Dist(R.a, p) IN DD(IF Member(R, p) THEN 0 ELSE -1, x.lb, <<>>)

\* ---------------------------------------------------------------- measure
\* [d |-> dimension, v |-> integer measure in lattice units^d, pi |-> coefficient of pi/8 (discs)]
Dim(R) == CASE R.k \in {"vol", "sph"} -> 3 [] R.k = "fp" -> 3 [] R.k = "all" -> 4 [] IsPlanar(R) -> 2 [] R.k = "surf" -> 2
            [] R.k \in {"pline", "path"} -> 1 [] OTHER -> 0
Measure(R) ==
  CASE R.k = "vol" -> SumSeq([i \in 1..Len(R.s) |-> (R.s[i][2] - R.s[i][1]) * (R.s[i][4] - R.s[i][3]) * (R.s[i][6] - R.s[i][5])])
    [] R.k \in {"poly", "rect"} -> SumSeq([i \in 1..Len(RectsOf(R)) |-> (RectsOf(R)[i][2] - RectsOf(R)[i][1]) * (RectsOf(R)[i][4] - RectsOf(R)[i][3])])
    [] R.k = "pline" -> SumSeq([i \in 1..(Len(R.s) - 1) |-> SegLen(R.s[i], R.s[i + 1], 2)])
    [] R.k = "path" -> SumSeq([i \in 1..(Len(R.s) - 1) |-> SegLen(R.s[i], R.s[i + 1], 3)])
    [] R.k = "pset" -> Len(R.s)
    [] R.k = "surf" -> SumSeq([i \in 1..Len(R.s) |-> 2 * ((R.s[i][2] - R.s[i][1]) * (R.s[i][4] - R.s[i][3]) + (R.s[i][2] - R.s[i][1]) * (R.s[i][6] - R.s[i][5])
                                                         + (R.s[i][4] - R.s[i][3]) * (R.s[i][6] - R.s[i][5]))])
    [] OTHER -> -1          \* curved / unbounded: not an integer
\* rectangles (boxes) of a poly / vol must be interior-disjoint for Measure to be the area (volume)
Overlap1(a0, a1, b0, b1) == Max2(a0, b0) < Min2(a1, b1)
CellsDisjoint(R) ==
  CASE R.k = "vol" -> \A i, j \in 1..Len(R.s) : i < j =>
          ~(Overlap1(R.s[i][1], R.s[i][2], R.s[j][1], R.s[j][2]) /\ Overlap1(R.s[i][3], R.s[i][4], R.s[j][3], R.s[j][4])
            /\ Overlap1(R.s[i][5], R.s[i][6], R.s[j][5], R.s[j][6]))
    [] R.k \in {"poly", "fp"} -> \A i, j \in 1..Len(R.s) : i < j =>
          ~(Overlap1(R.s[i][1], R.s[i][2], R.s[j][1], R.s[j][2]) /\ Overlap1(R.s[i][3], R.s[i][4], R.s[j][3], R.s[j][4]))
    [] OTHER -> TRUE

\* ---------------------------------------------------------------- witnesses for intersects
\* coordinates at which the membership of a primitive can change, per axis
CoordsOf(R, c) ==
  CASE R.k = "vol" -> UNION {{R.s[i][2 * c - 1], R.s[i][2 * c]} : i \in 1..Len(R.s)}
    [] R.k \in {"poly", "rect", "fp"} ->
         IF c = 3 THEN (IF R.k = "fp" THEN {} ELSE {ZOf(R)})
         ELSE UNION {{RectsOf(R)[i][2 * c - 1], RectsOf(R)[i][2 * c]} : i \in 1..Len(RectsOf(R))}
    [] R.k \in {"circ", "sect"} -> IF c = 3 THEN {R.n[3]} ELSE {R.n[c] - R.n[4], R.n[c], R.n[c] + R.n[4]}
    [] R.k = "pline" -> IF c = 3 THEN {0} ELSE {R.s[i][c] : i \in 1..Len(R.s)}
    [] R.k \in {"path", "pset"} -> {R.s[i][c] : i \in 1..Len(R.s)}
    [] OTHER -> {}
\* the candidate coordinates of a pair: all change points and the midpoints between neighbours
NextIn(S, a) == CHOOSE b \in S : b > a /\ \A c \in S : c > a => c >= b
WithMids(S) == S \cup {(a + NextIn(S, a)) \div 2 : a \in {x \in S : \E y \in S : y > x}}
\* only coordinates inside the bounding box bx (a member of the set we look for must lie in it)
CandAxis(A, B, c, bx) ==
  LET S == {v \in CoordsOf(A, c) \cup CoordsOf(B, c) : bx[2 * c - 1] <= v /\ v <= bx[2 * c]} IN
  IF S = {} THEN {IF bx[2 * c - 1] <= -INF THEN (IF bx[2 * c] >= INF THEN 0 ELSE bx[2 * c]) ELSE bx[2 * c - 1]}
  ELSE WithMids(S)
Cands(A, B, bx) == {<<x, y, z>> : x \in CandAxis(A, B, 1, bx), y \in CandAxis(A, B, 2, bx), z \in CandAxis(A, B, 3, bx)}
Curved(R) == R.k \in {"circ", "sect"}
\* "yes": a common point in the relative interior of both; "no": the closed sets are disjoint;
\* "touch": only boundary points in common (don't care); "unknown": not decided on the lattice
Intersects(A, B) ==
  IF A.k = "empty" \/ B.k = "empty" THEN "no"
  ELSE IF A.k = "all" \/ B.k = "all" THEN "yes"
  ELSE IF EmptyB(MeetB(AABB(A).b, AABB(B).b)) THEN "no"
  ELSE LET cs == Cands(A, B, MeetB(AABB(A).b, AABB(B).b))
           shared == {q \in cs : Member(A, q) /\ Member(B, q)}
       IN IF \E q \in shared : ~OnBd(A, q) /\ ~OnBd(B, q) THEN "yes"
          ELSE IF shared # {} THEN "touch"
          ELSE IF A.k = "circ" /\ B.k = "circ"
               THEN (IF A.n[3] # B.n[3] THEN "no"
                     ELSE IF D2xy(A.n, B.n) > Sq(A.n[4] + B.n[4]) THEN "no"
                     ELSE IF D2xy(A.n, B.n) < Sq(A.n[4] + B.n[4]) THEN "yes" ELSE "touch")
          ELSE IF A.k = "sect" \/ B.k = "sect" THEN
               (IF Height(Comp("inter", A, B)).t = "none" THEN "no" ELSE "unknown")
          ELSE "no"
=============================================================================
