--------------------------- MODULE RegionSampling ---------------------------
(* C03 -- positions drawn in/on a region lie in it and are uniformly distributed *)
(* with respect to the measure of the COMPOSED set.                              *)
(*                                                                              *)
(* Three layers over the lattice regions of RegionGeom.tla:                      *)
(*  (a) "disc": discrete regions exactly.  A point set (or grid), possibly       *)
(*      intersected with a second region: the sampler picks one element of the   *)
(*      composed set Members (computed from lattice MEMBERSHIP, not from any     *)
(*      sampler) with weight 1/n.                                                *)
(*  (b) the generic samplers of intersection / union / difference as state       *)
(*      machines (one action per random draw of the code):                       *)
(*        union : choose an operand of maximal dimension with probability        *)
(*                size/total, draw a point in it, count the operands containing  *)
(*                it (k), return it with probability 1/k else reject;            *)
(*        inter : for each operand of minimal dimension in turn, draw a point,   *)
(*                return it if every operand contains it; reject at the end;     *)
(*        diff  : draw a point in A, reject if B contains it.                    *)
(*      "abs" cases run them over an abstract universe of atoms with integer     *)
(*      measure: TLC enumerates every behaviour and checks that, conditional on  *)
(*      returning, the result is distributed proportionally to measure on the    *)
(*      composed set, with full support (exact rationals).  "trace" cases run    *)
(*      the SAME actions against the events logged from the real                 *)
(*      UnionRegion / IntersectionRegion / DifferenceRegion.genericSampler on    *)
(*      lattice regions (code -> spec trace validation).                         *)
(*  (c) "prim": snapped samples of primitive regions are classified with all     *)
(*      three coordinates; "tri": the triangulation behind polygon sampling      *)
(*      (cumulative weights = running sum of the triangle areas, the triangles   *)
(*      tile the polygon).                                                       *)
EXTENDS RegionGeom, TLC, Json, IOUtils

Rat == INSTANCE Rat

Data == JsonDeserialize(IOEnv.SAMP)
Cat == Data.cat
Disc == Data.disc        \* [ps |-> catalogue index of a point set, b |-> index of the second operand or 0]
ACases == Data.abs          \* [op, sets |-> << atoms of A, atoms of B >>, meas |-> <<m_1..m_N>>, dims |-> <<dA, dB>>]
Traces == Data.traces    \* [op, regs |-> <<ia, ib>>, ev |-> << events >>]
Prims == Data.prim       \* [r |-> catalogue index, smp |-> << snapped samples >>]
Seqs == Data.seq         \* [ps |-> point set, alts |-> << second operands, equiprobable >>, n |-> number of consecutive samples]
Tris == Data.tri         \* [r |-> index of a poly, tris |-> << <<x1,y1,x2,y2,x3,y3>> .. >>, cum2 |-> << 2*cumulative areas >>]
Fan == 16

VARIABLES mode, c, pc, sel, pt, hist, w, pos
vars == <<mode, c, pc, sel, pt, hist, w, pos>>

InSeq(s, a) == \E j \in 1..Len(s) : s[j] = a
RECURSIVE SumOver(_, _)
SumOver(s, m) == IF s = <<>> THEN 0 ELSE m[s[1]] + SumOver(Tail(s), m)

\* ---------------------------------------------------------------- the two instantiations
IsAbs == mode = "abs"
Case == IF IsAbs THEN ACases[c] ELSE Traces[c]
OpOf == Case.op
\* measure of operand x
Size(x) == IF IsAbs THEN SumOver(ACases[c].sets[x], ACases[c].meas) ELSE Measure(Cat[Traces[c].regs[x]])
DimOp(x) == IF IsAbs THEN ACases[c].dims[x] ELSE Dim(Cat[Traces[c].regs[x]])
\* "in" / "out" / "mixed": does operand x contain the point (atom) a, all three coordinates
Holds(x, a) == IF IsAbs THEN (IF InSeq(ACases[c].sets[x], a) THEN "in" ELSE "out") ELSE Cell(Cat[Traces[c].regs[x]], a)
Composed(a) ==
  LET h1 == Holds(1, a) h2 == Holds(2, a) IN
  CASE OpOf = "union" -> IF h1 = "in" \/ h2 = "in" THEN "in" ELSE IF h1 = "out" /\ h2 = "out" THEN "out" ELSE "mixed"
    [] OpOf = "inter" -> IF h1 = "out" \/ h2 = "out" THEN "out" ELSE IF h1 = "in" /\ h2 = "in" THEN "in" ELSE "mixed"
    [] OpOf = "diff" -> IF h1 = "out" \/ h2 = "in" THEN "out" ELSE IF h1 = "in" /\ h2 = "out" THEN "in" ELSE "mixed"
MaxDim == Max2(DimOp(1), DimOp(2))
MinDim == Min2(DimOp(1), DimOp(2))
Large == SelectSeq(<<1, 2>>, LAMBDA x : DimOp(x) = MaxDim)        \* union: operands that can be chosen
Sampling == SelectSeq(<<1, 2>>, LAMBDA x : DimOp(x) <= MinDim)   \* inter: operands drawn from, in order
TotalLarge == SumOver(Large, [x \in 1..2 |-> Size(x)])
AtomsOf(x) == ACases[c].sets[x]
AtomW(x, a) == Rat!Of(ACases[c].meas[a], Size(x))

\* the next logged event (trace mode)
Ev == Traces[c].ev[pos]
HasEv == ~IsAbs /\ pos <= Len(Traces[c].ev)
Step == pos' = IF IsAbs THEN pos ELSE pos + 1

\* ---------------------------------------------------------------- union
UChoose ==
  /\ pc = "u-choose"
  /\ \E j \in 1..Len(Large) :
       /\ IsAbs \/ (HasEv /\ Ev.e = "choices" /\ Ev.i = j /\ Len(Ev.w) \in {0, Len(Large)}
                    \* the weights must be proportional to the measures of the operands
                    /\ \A g, h \in 1..Len(Ev.w) : Ev.w[g] * Size(Large[h]) = Ev.w[h] * Size(Large[g]))
       /\ sel' = Large[j]
       /\ w' = IF IsAbs THEN Rat!Mul(w, Rat!Of(Size(Large[j]), TotalLarge)) ELSE w
  /\ pc' = "u-draw" /\ Step /\ UNCHANGED <<mode, c, pt, hist>>
UDraw ==
  /\ pc = "u-draw"
  /\ IF IsAbs THEN \E a \in 1..Len(ACases[c].meas) : /\ InSeq(AtomsOf(sel), a) /\ pt' = a
                                                   /\ w' = Rat!Mul(w, AtomW(sel, a))
     ELSE HasEv /\ Ev.e = "draw" /\ Ev.i = sel /\ Holds(sel, Ev.p) # "out" /\ pt' = Ev.p /\ w' = w
  /\ hist' = Append(hist, <<sel, pt'>>)
  /\ pc' = "u-coin" /\ Step /\ UNCHANGED <<mode, c, sel>>
\* number of operands containing the point: certainly (in) / possibly (not out)
KIn == Cardinality({x \in 1..2 : Holds(x, pt) = "in"})
KMay == Cardinality({x \in 1..2 : Holds(x, pt) # "out"})
\* random() is logged as the cell of [0,1) it falls in: 0 = [0,1/2), 1 = [1/2,1); reject iff u < 1 - 1/k
UCoin(acc) ==
  /\ pc = "u-coin"
  /\ IF IsAbs THEN /\ (~acc => KIn > 1)
                   /\ w' = Rat!Mul(w, IF acc THEN Rat!Of(1, KIn) ELSE Rat!Of(KIn - 1, KIn))
                   /\ pos' = pos
     ELSE /\ HasEv /\ Ev.e = "coin" /\ w' = w /\ pos' = pos + 2
          /\ pos + 1 <= Len(Traces[c].ev) /\ Traces[c].ev[pos + 1].e = (IF acc THEN "ret" ELSE "rej")
          /\ \E k \in Max2(KIn, 1)..Max2(KMay, 1) : acc = ~(k = 2 /\ Ev.u = 0)
          /\ acc => (Traces[c].ev[pos + 1].p = pt)
  /\ pc' = IF acc THEN "ret" ELSE "rej"
  /\ UNCHANGED <<mode, c, sel, pt, hist>>

\* ---------------------------------------------------------------- intersection
AllHold(a) == \A x \in 1..2 : Holds(x, a) = "in"
NoneOut(a) == \A x \in 1..2 : Holds(x, a) # "out"
IDraw ==
  /\ pc = "i-draw" /\ Len(hist) < Len(Sampling)
  /\ LET x == Sampling[Len(hist) + 1] IN
     /\ IF IsAbs THEN \E a \in 1..Len(ACases[c].meas) : /\ InSeq(AtomsOf(x), a) /\ pt' = a
                                                      /\ w' = Rat!Mul(w, AtomW(x, a))
        ELSE HasEv /\ Ev.e = "draw" /\ Ev.i = x /\ Holds(x, Ev.p) # "out" /\ pt' = Ev.p /\ w' = w
     /\ sel' = x /\ hist' = Append(hist, <<x, pt'>>)
  /\ pc' = "i-test" /\ Step /\ UNCHANGED <<mode, c>>
ITest ==
  /\ pc = "i-test"
  /\ IF IsAbs THEN pc' = (IF AllHold(pt) THEN "ret" ELSE IF Len(hist) < Len(Sampling) THEN "i-draw" ELSE "rej") /\ pos' = pos
     ELSE \/ /\ HasEv /\ Ev.e = "ret" /\ Ev.p = pt /\ NoneOut(pt) /\ pc' = "ret" /\ pos' = pos + 1
          \/ /\ ~AllHold(pt) /\ Len(hist) < Len(Sampling) /\ HasEv /\ Ev.e = "draw" /\ pc' = "i-draw" /\ pos' = pos
          \/ /\ ~AllHold(pt) /\ Len(hist) = Len(Sampling) /\ HasEv /\ Ev.e = "rej" /\ pc' = "rej" /\ pos' = pos + 1
  /\ UNCHANGED <<mode, c, sel, pt, hist, w>>

\* ---------------------------------------------------------------- difference
DDraw ==
  /\ pc = "d-draw"
  /\ IF IsAbs THEN \E a \in 1..Len(ACases[c].meas) : /\ InSeq(AtomsOf(1), a) /\ pt' = a
                                                   /\ w' = Rat!Mul(w, AtomW(1, a))
     ELSE HasEv /\ Ev.e = "draw" /\ Ev.i = 1 /\ Holds(1, Ev.p) # "out" /\ pt' = Ev.p /\ w' = w
  /\ sel' = 1 /\ hist' = Append(hist, <<1, pt'>>)
  /\ pc' = "d-test" /\ Step /\ UNCHANGED <<mode, c>>
DTest ==
  /\ pc = "d-test"
  /\ IF IsAbs THEN pc' = (IF Holds(2, pt) = "in" THEN "rej" ELSE "ret") /\ pos' = pos
     ELSE \/ /\ HasEv /\ Ev.e = "ret" /\ Ev.p = pt /\ Holds(2, pt) # "in" /\ pc' = "ret" /\ pos' = pos + 1
          \/ /\ HasEv /\ Ev.e = "rej" /\ Holds(2, pt) # "out" /\ pc' = "rej" /\ pos' = pos + 1
  /\ UNCHANGED <<mode, c, sel, pt, hist, w>>

\* ---------------------------------------------------------------- (a) discrete regions
\* the composed set of a discrete case: op = "inter" (point set & B), "diff" (point set \ B) or
\* "union" (point set | point set: the distinct points of both)
RECURSIVE Dedup(_)
Dedup(s) == IF s = <<>> THEN <<>> ELSE IF InSeq(Tail(s), s[1]) THEN Dedup(Tail(s)) ELSE <<s[1]>> \o Dedup(Tail(s))
DiscMembers(d) == LET ps == Cat[Disc[d].ps].s IN
   CASE Disc[d].op = "inter" -> SelectSeq(ps, LAMBDA p : Disc[d].b = 0 \/ Member(Cat[Disc[d].b], p))
     [] Disc[d].op = "diff" -> SelectSeq(ps, LAMBDA p : ~Member(Cat[Disc[d].b], p))
     [] Disc[d].op = "union" -> Dedup(ps \o Cat[Disc[d].b].s)
\* the same point listed twice is two elements of a PointSetRegion (its size is len(points))
Pick ==
  /\ mode = "disc" /\ pc = "pick"
  /\ LET ms == DiscMembers(c) IN
     IF ms = <<>> THEN pc' = "rej" /\ UNCHANGED <<pt, w>>
     ELSE \E j \in 1..Len(ms) : pt' = ms[j] /\ w' = Rat!Of(1, Len(ms)) /\ pc' = "ret"
  /\ UNCHANGED <<mode, c, sel, hist, pos>>

\* ---------------------------------------------------------------- (a') consecutive samples of one region
\* A point set intersected with a RANDOM second operand (one of `alts`, equiprobable, drawn afresh for
\* every sample).  Samples are independent: whatever was drawn before, the next point is uniform on
\* the members for the operand drawn NOW (nothing may be remembered from earlier samples).
SeqMembers(k, j) == LET ps == Cat[Seqs[k].ps].s IN SelectSeq(ps, LAMBDA p : Member(Cat[Seqs[k].alts[j]], p))
SAlt == /\ mode = "seq" /\ pc = "s-alt"
        /\ \E j \in 1..Len(Seqs[c].alts) : sel' = j /\ w' = Rat!Mul(w, Rat!Of(1, Len(Seqs[c].alts)))
        /\ pc' = "s-pt" /\ UNCHANGED <<mode, c, pt, hist, pos>>
SPt == /\ mode = "seq" /\ pc = "s-pt"
       /\ LET ms == SeqMembers(c, sel) IN
          IF ms = <<>> THEN pc' = "rej" /\ UNCHANGED <<pt, hist, w>>
          ELSE \E k \in 1..Len(ms) :
                 /\ pt' = ms[k] /\ w' = Rat!Mul(w, Rat!Of(1, Len(ms))) /\ hist' = Append(hist, <<sel, ms[k]>>)
                 /\ pc' = IF Len(hist') = Seqs[c].n THEN "ret" ELSE "s-alt"
       /\ UNCHANGED <<mode, c, sel, pos>>
RECURSIVE SeqW(_, _)
SeqW(k, h) == IF h = <<>> THEN Rat!One
              ELSE Rat!Mul(Rat!Of(1, Len(Seqs[k].alts) * Len(SeqMembers(k, h[1][1]))), SeqW(k, Tail(h)))
\* every sample of the sequence is a member for ITS operand and the weight is the product of the
\* per-sample laws: no dependence on the earlier samples
SeqIndependent == (mode = "seq" /\ pc = "ret") =>
  /\ \A j \in 1..Len(hist) : InSeq(SeqMembers(c, hist[j][1]), hist[j][2])
  /\ w = SeqW(c, hist)

\* ---------------------------------------------------------------- initial fan-out and picking a case
Start0(o) == IF o = "union" THEN "u-choose" ELSE IF o = "inter" THEN "i-draw" ELSE "d-draw"
Init == mode = "start" /\ c \in 0..(Fan - 1) /\ pc = "start" /\ sel = 0 /\ pt = 0 /\ hist = <<>> /\ w = Rat!One /\ pos = 1
PickCase ==
  /\ mode = "start"
  /\ \/ \E k \in 1..Len(ACases) : k % Fan = c /\ c' = k /\ mode' = "abs" /\ pc' = Start0(ACases[k].op)
     \/ \E k \in 1..Len(Traces) : k % Fan = c /\ c' = k /\ mode' = "trace" /\ pc' = Start0(Traces[k].op)
     \/ \E k \in 1..Len(Disc) : k % Fan = c /\ c' = k /\ mode' = "disc" /\ pc' = "pick"
     \/ \E k \in 1..Len(Seqs) : k % Fan = c /\ c' = k /\ mode' = "seq" /\ pc' = "s-alt"
     \/ \E k \in 1..Len(Prims) : k % Fan = c /\ c' = k /\ mode' = "prim" /\ pc' = "done"
     \/ \E k \in 1..Len(Tris) : k % Fan = c /\ c' = k /\ mode' = "tri" /\ pc' = "done"
  /\ UNCHANGED <<sel, pt, hist, w, pos>>
UAccept == UCoin(TRUE)
UReject == UCoin(FALSE)
Next == PickCase \/ Pick \/ SAlt \/ SPt \/ UChoose \/ UDraw \/ UAccept \/ UReject \/ IDraw \/ ITest \/ DDraw \/ DTest
Spec == Init /\ [][Next]_vars

Terminal == pc \in {"ret", "rej"}

\* ---------------------------------------------------------------- denotation of the abstract cases
\* every complete behaviour of the machine of case k as <<draws, verdict>>, with its weight,
\* computed from the definition of the samplers (not from the actions)
AMeas(k, a) == ACases[k].meas[a]
ASz(k, x) == SumOver(ACases[k].sets[x], ACases[k].meas)
AIn(k, x, a) == InSeq(ACases[k].sets[x], a)
ALarge(k) == SelectSeq(<<1, 2>>, LAMBDA x : ACases[k].dims[x] = Max2(ACases[k].dims[1], ACases[k].dims[2]))
ASampling(k) == SelectSeq(<<1, 2>>, LAMBDA x : ACases[k].dims[x] <= Min2(ACases[k].dims[1], ACases[k].dims[2]))
AComposed(k, a) == CASE ACases[k].op = "union" -> AIn(k, 1, a) \/ AIn(k, 2, a)
                     [] ACases[k].op = "inter" -> AIn(k, 1, a) /\ AIn(k, 2, a)
                     [] ACases[k].op = "diff" -> AIn(k, 1, a) /\ ~AIn(k, 2, a)
Atoms(k) == 1..Len(ACases[k].meas)
KOf(k, a) == Cardinality({x \in 1..2 : AIn(k, x, a)})
\* probability that case k returns atom a
RetW(k, a) ==
  CASE ACases[k].op = "union" ->
         LET L == ALarge(k) T == SumOver(L, [x \in 1..2 |-> ASz(k, x)]) IN
         Rat!SumSeq([j \in 1..Len(L) |-> IF AIn(k, L[j], a)
                                          THEN Rat!Mul(Rat!Of(ASz(k, L[j]), T), Rat!Mul(Rat!Of(AMeas(k, a), ASz(k, L[j])), Rat!Of(1, KOf(k, a))))
                                          ELSE Rat!Zero])
    [] ACases[k].op = "inter" ->
         LET Sg == ASampling(k)
             both == AIn(k, 1, a) /\ AIn(k, 2, a)
             \* probability that the draw from Sg[1] is not in the intersection
             miss1 == Rat!Of(ASz(k, Sg[1]) - SumOver(SelectSeq(ACases[k].sets[Sg[1]], LAMBDA b : AIn(k, 1, b) /\ AIn(k, 2, b)), ACases[k].meas), ASz(k, Sg[1]))
         IN IF ~both THEN Rat!Zero
            ELSE Rat!Add(Rat!Of(AMeas(k, a), ASz(k, Sg[1])),
                         IF Len(Sg) = 2 THEN Rat!Mul(miss1, Rat!Of(AMeas(k, a), ASz(k, Sg[2]))) ELSE Rat!Zero)
    [] ACases[k].op = "diff" -> IF AIn(k, 1, a) /\ ~AIn(k, 2, a) THEN Rat!Of(AMeas(k, a), ASz(k, 1)) ELSE Rat!Zero
\* the natural measure of atom a in the composed set: its measure if the set has the dimension of
\* the operand(s) it was drawn from (generators keep atoms of different dimension apart)
DrawableA(k, a) == \* atoms of the composed set that carry its natural measure (those of the sampled operands)
  CASE ACases[k].op = "union" -> \E j \in 1..Len(ALarge(k)) : AIn(k, ALarge(k)[j], a)
    [] OTHER -> TRUE

RetTotal(k) == Rat!SumSeq([a \in 1..Len(ACases[k].meas) |-> RetW(k, a)])
CompMeasure(k) == SumOver(SelectSeq([a \in 1..Len(ACases[k].meas) |-> a], LAMBDA a : AComposed(k, a) /\ DrawableA(k, a)), ACases[k].meas)
\* ---------------------------------------------------------------- invariants
TypeOK == /\ mode \in {"start", "abs", "trace", "disc", "prim", "tri", "seq"}
          /\ pc \in {"start", "u-choose", "u-draw", "u-coin", "i-draw", "i-test", "d-draw", "d-test", "pick", "ret", "rej", "done", "s-alt", "s-pt"}
\* whatever is returned belongs to the composed set, with all three coordinates
ReturnInSet == (mode \in {"abs", "trace"} /\ pc = "ret") => Composed(pt) # "out"
\* a rejected union draw was contained in more than one operand; a rejected difference draw was in B
RejectSound == (mode \in {"abs", "trace"} /\ pc = "rej") =>
  CASE OpOf = "union" -> KMay >= 2
    [] OpOf = "diff" -> Holds(2, pt) # "out"
    [] OpOf = "inter" -> ~AllHold(pt) /\ Len(hist) = Len(Sampling)
\* the weight of a behaviour is the product of the per-draw probabilities given by the measures
RECURSIVE DrawsW(_, _)
DrawsW(k, h) == IF h = <<>> THEN Rat!One ELSE Rat!Mul(Rat!Of(AMeas(k, h[1][2]), ASz(k, h[1][1])), DrawsW(k, Tail(h)))
ChainRule == (mode = "abs" /\ Terminal) =>
  w = CASE OpOf = "union" -> Rat!Mul(Rat!Mul(Rat!Of(Size(sel), TotalLarge), DrawsW(c, hist)),
                                     IF pc = "ret" THEN Rat!Of(1, KIn) ELSE Rat!Of(KIn - 1, KIn))
        [] OTHER -> DrawsW(c, hist)
\* THE PROPERTY (design level): conditional on returning, the result is distributed proportionally
\* to measure on the composed set, and every part of positive measure can be produced
Proportional == (mode = "abs" /\ pc \in {"u-choose", "i-draw", "d-draw"} /\ hist = <<>>) =>
  LET tot == RetTotal(c) cm == CompMeasure(c) IN
  \A a \in Atoms(c) :
     /\ ~AComposed(c, a) => RetW(c, a) = Rat!Zero
     /\ (AComposed(c, a) /\ DrawableA(c, a)) =>
           /\ Rat!Pos(RetW(c, a))
           /\ Rat!Mul(RetW(c, a), Rat!Of(cm, 1)) = Rat!Mul(tot, Rat!Of(AMeas(c, a), 1))
\* the operational machine realises the denotation: at a returning terminal state the weight of
\* this behaviour is one of the summands of RetW, so it can never exceed it
OperationalBelowDenot == (mode = "abs" /\ pc = "ret") => Rat!Leq(w, RetW(c, pt)) /\ Rat!Pos(w)
\* discrete regions: only members, each with weight 1/n
DiscUniform == (mode = "disc" /\ pc = "ret") =>
  /\ CASE Disc[c].op = "inter" -> InSeq(Cat[Disc[c].ps].s, pt) /\ (Disc[c].b # 0 => Member(Cat[Disc[c].b], pt))
       [] Disc[c].op = "diff" -> Member(Comp("diff", Cat[Disc[c].ps], Cat[Disc[c].b]), pt)
       [] Disc[c].op = "union" -> Member(Comp("union", Cat[Disc[c].ps], Cat[Disc[c].b]), pt)
  /\ w = Rat!Of(1, Len(DiscMembers(c)))
  /\ \A j, h \in 1..Len(DiscMembers(c)) : j # h => DiscMembers(c)[j] # DiscMembers(c)[h]
DiscEmpty == (mode = "disc" /\ pc = "rej") => DiscMembers(c) = <<>>

\* ---------------------------------------------------------------- (c) triangulation
Cross2(t) == (t[3] - t[1]) * (t[6] - t[2]) - (t[5] - t[1]) * (t[4] - t[2])
Area2(t) == Abs(Cross2(t))
RECURSIVE Running(_, _)
Running(ts, j) == IF j = 0 THEN 0 ELSE Running(ts, j - 1) + Area2(ts[j])
\* a point with coordinates scaled by an extra factor f is in the polygon (footprint)
InPolyScaled(R, x, y, f) == \E g \in 1..Len(R.s) : f * R.s[g][1] <= x /\ x <= f * R.s[g][2] /\ f * R.s[g][3] <= y /\ y <= f * R.s[g][4]
TriInside(R, t) == /\ InPolyScaled(R, t[1], t[2], 1) /\ InPolyScaled(R, t[3], t[4], 1) /\ InPolyScaled(R, t[5], t[6], 1)
                   /\ InPolyScaled(R, t[1] + t[3] + t[5], t[2] + t[4] + t[6], 3)          \* centroid
                   /\ InPolyScaled(R, t[1] + t[3], t[2] + t[4], 2) /\ InPolyScaled(R, t[3] + t[5], t[4] + t[6], 2)
                   /\ InPolyScaled(R, t[1] + t[5], t[2] + t[6], 2)                        \* edge midpoints
\* area of a rectilinear planar set (primitive polygon or composition) by counting the quarter
\* cells (2 x 2 lattice units, features lie on even coordinates) whose centre is a member at height h
CellArea(R, h) == LET bb == AABB(R).b IN
  4 * Cardinality({xy \in ((bb[1] \div 2)..((bb[2] \div 2) - 1)) \X ((bb[3] \div 2)..((bb[4] \div 2) - 1)) :
                     Member(R, <<2 * xy[1] + 1, 2 * xy[2] + 1, h>>)})
\* the centroid of a triangle lies in the set: its quarter cell (when it is not on a cell line) is not "out"
CentroidIn(R, h, t) == LET sx == t[1] + t[3] + t[5] sy == t[2] + t[4] + t[6] IN
  (sx % 6 = 0 \/ sy % 6 = 0) \/ Cell(R, <<2 * (sx \div 6) + 1, 2 * (sy \div 6) + 1, h>>) # "out"
\* The triangulation behind PolygonalRegion.uniformPointInner, for a primitive polygon or for the
\* PolygonalRegion a composition returned (T.r may be a composite record): the cumulative weights
\* handed to random.choices are the running sum of the triangle areas over the WHOLE list of
\* triangles (all connected components), hence strictly increasing, and their last entry is the
\* measure of the set; every triangle has positive area and lies in the set.
TriFacts(k) == LET T == Tris[k] R == Cat[T.r] n == Len(T.tris) h == Height(R) IN
  [len |-> Len(T.cum2) = n /\ n > 0,
   running |-> Len(T.cum2) = n /\ \A j \in 1..n : T.cum2[j] = Running(T.tris, j),
   monotone |-> Len(T.cum2) = n /\ n > 0 /\ T.cum2[1] > 0 /\ \A j \in 2..n : T.cum2[j] > T.cum2[j - 1],
   positive |-> \A j \in 1..n : Area2(T.tris[j]) > 0,
   total |-> h.t = "z" /\ Running(T.tris, n) = 2 * CellArea(R, h.v)
             /\ (R.k = "poly" => Running(T.tris, n) = 2 * Measure(R))
             /\ (Len(T.cum2) = n /\ n > 0 => T.cum2[n] = 2 * CellArea(R, h.v)),
   inside |-> h.t = "z" /\ \A j \in 1..n : CentroidIn(R, h.v, T.tris[j]) /\ (R.k = "poly" => TriInside(R, T.tris[j]))]
TriOK(k) == LET f == TriFacts(k) IN f.len /\ f.running /\ f.monotone /\ f.positive /\ f.total /\ f.inside
\* the law with which a triangle must be selected: area / total (as <<2*area, 2*total>>)
TriLaw(k) == [j \in 1..Len(Tris[k].tris) |-> <<Area2(Tris[k].tris[j]), Running(Tris[k].tris, Len(Tris[k].tris))>>]
\* spec-level lemma: the running sums of positive areas select triangle j with probability area/total
\* (differences of consecutive cumulative weights over the last one)
TriLawSound == mode = "tri" => \A j \in 1..Len(Tris[c].tris) :
  (Running(Tris[c].tris, j) - Running(Tris[c].tris, j - 1)) * TriLaw(c)[j][2] = TriLaw(c)[j][1] * Running(Tris[c].tris, Len(Tris[c].tris))

\* ---------------------------------------------------------------- printed results
Emit ==
  /\ (mode = "trace" /\ Terminal /\ pos = Len(Traces[c].ev) + 1) => PrintT(ToJson([t |-> "trace", k |-> c, pc |-> pc]))
  /\ (mode = "disc" /\ pc = "pick") =>
        PrintT(ToJson([t |-> "disc", k |-> c, members |-> DiscMembers(c),
                       trig |-> IF Disc[c].op # "inter" THEN {} ELSE
                                (IF Disc[c].b # 0 /\ Cat[Disc[c].b].k = "sect" THEN {"sector-circumcircle"} ELSE {})
                                \cup (IF Disc[c].b # 0 /\ Cat[Disc[c].b].k \in {"poly", "pline", "path", "fp", "pset"} THEN {"pointset-intersect-crash"} ELSE {})
                                \cup (IF Disc[c].b # 0 /\ Cat[Disc[c].b].k \in {"poly", "rect"}
                                         /\ \E j \in 1..Len(Cat[Disc[c].ps].s) : FootMember(Cat[Disc[c].b], Cat[Disc[c].ps].s[j]) /\ ~Member(Cat[Disc[c].b], Cat[Disc[c].ps].s[j])
                                      THEN {"pointset-footprint-membership"} ELSE {})]))
  /\ (mode = "seq" /\ pc = "ret") => PrintT(ToJson([t |-> "seq", k |-> c, draws |-> hist, w |-> w]))
  /\ (mode = "prim") => PrintT(ToJson([t |-> "prim", k |-> c, cls |-> [j \in 1..Len(Prims[c].smp) |-> Cell(Cat[Prims[c].r], Prims[c].smp[j])]]))
  /\ (mode = "tri") => PrintT(ToJson([t |-> "tri", k |-> c, ok |-> TriOK(c), facts |-> TriFacts(c), law |-> TriLaw(c)]))
  /\ (mode = "abs" /\ pc \in {"u-choose", "i-draw", "d-draw"} /\ hist = <<>>) =>
        (c % 97 # 0 \/ PrintT(ToJson([t |-> "abs", k |-> c, law |-> [a \in 1..Len(ACases[c].meas) |-> RetW(c, a)], total |-> RetTotal(c)])))
=============================================================================
