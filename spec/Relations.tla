----------------------------- MODULE Relations -----------------------------
(* C08, part 1: bound extraction from the syntax of requirements               *)
(* (scenic.syntax.relations).  Function specification, enumerated by TLC.      *)
(*                                                                            *)
(* A requirement shape compares a quantity Q -- `distance to X` (dist) or     *)
(* `relative heading of X` (rh) -- with constants.  Its MEANING is the Python *)
(* meaning of the comparison (chains are conjunctions, abs is the absolute    *)
(* value): Sat(shape, LT, EQ) decides it for an abstract Q given only the      *)
(* two primitives LT(k) == "Q < k" and EQ(k) == "Q = k" for integer k.  The    *)
(* same operator is instantiated on a grid of values here (TrueSet) and on     *)
(* exact lattice geometry in Pruning.tla.                                      *)
(*                                                                            *)
(* A relation recorded for pruning is a closed interval [lo, hi] that the     *)
(* quantity must lie in.  The property is SOUNDNESS: the interval must        *)
(* contain TrueSet \cap Range(Q).  Rule(shape) is the specification's own      *)
(* extraction rule (what each operator implies, conjunctions intersect, abs   *)
(* unfolds to a two-sided bound, `!=` and lower bounds on abs imply nothing);  *)
(* TLC checks that it is sound on every enumerated shape and tight where that *)
(* is meaningful, and prints it.  AsImpl(shape) is the named as-implemented   *)
(* deviation NeAsLe (any operator other than <, <=, == after the >/>= flip is *)
(* read as <=), with trigger HasNe; TLC checks that this deviation is the     *)
(* only modelled source of unsoundness.                                        *)
(*                                                                            *)
(* A case (JSON):                                                              *)
(*   [id, q |-> "dist"|"rh", form, ops |-> <<op..>>, cs |-> <<ints>>]          *)
(*   forms   Qc      Q op c            cQ       c op Q                         *)
(*           cQc     c1 op1 Q op2 c2   (cs = <<c1, c2>>)                       *)
(*           absQ_c  abs(Q) op c       c_absQ   c op abs(Q)                    *)
(*           absQpk_c abs(Q + k) op c  absQmk_c abs(Q - k) op c                *)
(*           abskpQ_c abs(k + Q) op c  abskmQ_c abs(k - Q) op c  (cs=<<c,k>>)   *)
(*           c_absQpk c_absQmk c_abskpQ c_abskmQ : constant on the left         *)
(*           negQ_c  -Q op c           Qpk_c    Q + k op c   (outside the      *)
(*                                              matcher's grammar)             *)
(*   ops in lt le gt ge eq ne.                                                 *)
(* Units: one integer step is one Scenic unit (dist) or 60 degrees (rh); the  *)
(* value grid is in HALF steps, so strict and non-strict bounds differ on it.  *)
EXTENDS Integers, Sequences, FiniteSets, TLC, Json, IOUtils

INF == 9999                       \* sentinel for an unbounded end (same type as bounds)

Flip(op) == CASE op = "lt" -> "gt" [] op = "le" -> "ge" [] op = "gt" -> "lt"
              [] op = "ge" -> "le" [] OTHER -> op

(* ---- normal form: a conjunction of  [abs] (s*Q + k)  op  c                  *)
(* constL remembers that the constant was written on the left (only the       *)
(* as-implemented deviation looks at it).                                      *)
Conj(ab, s, k, op, c, constL, gram) ==
  [ab |-> ab, s |-> s, k |-> k, op |-> op, c |-> c, constL |-> constL, gram |-> gram]

Conjuncts(cs) ==
  LET f == cs.form  o == cs.ops  c == cs.cs IN
  CASE f = "Qc"       -> <<Conj(FALSE, 1, 0, o[1], c[1], FALSE, TRUE)>>
    [] f = "cQ"       -> <<Conj(FALSE, 1, 0, Flip(o[1]), c[1], TRUE, TRUE)>>
    [] f = "cQc"      -> <<Conj(FALSE, 1, 0, Flip(o[1]), c[1], TRUE, TRUE),
                           Conj(FALSE, 1, 0, o[2], c[2], FALSE, TRUE)>>
    [] f = "absQ_c"   -> <<Conj(TRUE, 1, 0, o[1], c[1], FALSE, TRUE)>>
    [] f = "c_absQ"   -> <<Conj(TRUE, 1, 0, Flip(o[1]), c[1], TRUE, TRUE)>>
    [] f = "absQpk_c" -> <<Conj(TRUE, 1, c[2], o[1], c[1], FALSE, TRUE)>>
    [] f = "absQmk_c" -> <<Conj(TRUE, 1, -c[2], o[1], c[1], FALSE, TRUE)>>
    [] f = "abskpQ_c" -> <<Conj(TRUE, 1, c[2], o[1], c[1], FALSE, TRUE)>>
    [] f = "abskmQ_c" -> <<Conj(TRUE, -1, c[2], o[1], c[1], FALSE, TRUE)>>
    [] f = "c_absQpk" -> <<Conj(TRUE, 1, c[2], Flip(o[1]), c[1], TRUE, TRUE)>>
    [] f = "c_absQmk" -> <<Conj(TRUE, 1, -c[2], Flip(o[1]), c[1], TRUE, TRUE)>>
    [] f = "c_abskpQ" -> <<Conj(TRUE, 1, c[2], Flip(o[1]), c[1], TRUE, TRUE)>>
    [] f = "c_abskmQ" -> <<Conj(TRUE, -1, c[2], Flip(o[1]), c[1], TRUE, TRUE)>>
    [] f = "negQ_c"   -> <<Conj(FALSE, -1, 0, o[1], c[1], FALSE, FALSE)>>
    [] f = "Qpk_c"    -> <<Conj(FALSE, 1, c[2], o[1], c[1], FALSE, FALSE)>>

(* ---- meaning.  T = s*Q + k.  TLt(c) == T < c, TEq(c) == T = c, from LT/EQ on Q *)
TLt(j, c, LT(_), EQ(_)) == IF j.s = 1 THEN LT(c - j.k)
                           ELSE ~LT(j.k - c) /\ ~EQ(j.k - c)      \* -Q < c-k  <=>  Q > k-c
TEq(j, c, LT(_), EQ(_)) == IF j.s = 1 THEN EQ(c - j.k) ELSE EQ(j.k - c)
TGt(j, c, LT(_), EQ(_)) == ~TLt(j, c, LT, EQ) /\ ~TEq(j, c, LT, EQ)
\* X = T or abs(T)
XLt(j, c, LT(_), EQ(_)) == IF j.ab THEN TLt(j, c, LT, EQ) /\ TGt(j, -c, LT, EQ)
                           ELSE TLt(j, c, LT, EQ)
XEq(j, c, LT(_), EQ(_)) == IF j.ab THEN c >= 0 /\ (TEq(j, c, LT, EQ) \/ TEq(j, -c, LT, EQ))
                           ELSE TEq(j, c, LT, EQ)
SatConj(j, LT(_), EQ(_)) ==
  LET lt == XLt(j, j.c, LT, EQ)  eq == XEq(j, j.c, LT, EQ) IN
  CASE j.op = "lt" -> lt
    [] j.op = "le" -> lt \/ eq
    [] j.op = "gt" -> ~lt /\ ~eq
    [] j.op = "ge" -> ~lt
    [] j.op = "eq" -> eq
    [] j.op = "ne" -> ~eq
SatShape(cs, LT(_), EQ(_)) ==
  LET js == Conjuncts(cs) IN \A i \in 1..Len(js) : SatConj(js[i], LT, EQ)

(* ---- intervals <<lo, hi>> with -INF / INF, the empty one is <<1, 0>>          *)
Empty == <<1, 0>>
IsEmpty(iv) == iv[1] > iv[2]
Full == <<-INF, INF>>
Max2(a, b) == IF a > b THEN a ELSE b
Min2(a, b) == IF a < b THEN a ELSE b
Meet(a, b) == IF IsEmpty(a) \/ IsEmpty(b) THEN Empty
              ELSE LET r == <<Max2(a[1], b[1]), Min2(a[2], b[2])>> IN IF IsEmpty(r) THEN Empty ELSE r
Shift(iv, d) == <<IF iv[1] = -INF THEN -INF ELSE iv[1] + d, IF iv[2] = INF THEN INF ELSE iv[2] + d>>
Neg(iv) == IF IsEmpty(iv) THEN Empty
           ELSE <<IF iv[2] = INF THEN -INF ELSE -iv[2], IF iv[1] = -INF THEN INF ELSE -iv[1]>>

RangeOf(q) == IF q = "dist" THEN <<0, INF>> ELSE <<-3, 3>>     \* rh: [-180, 180] degrees

\* what  X op c  implies for X
BoundX(op, c) == CASE op \in {"lt", "le"} -> <<-INF, c>>
                   [] op \in {"gt", "ge"} -> <<c, INF>>
                   [] op = "eq" -> <<c, c>>
                   [] OTHER -> Full
\* X = T: T in iv  <=>  Q in s*(iv - k)
OfT(j, iv) == IF IsEmpty(iv) THEN Empty
              ELSE IF j.s = 1 THEN Shift(iv, -j.k) ELSE Neg(Shift(iv, -j.k))
RuleConj(j) ==
  IF ~j.ab THEN OfT(j, BoundX(j.op, j.c))
  ELSE IF j.op \in {"lt", "le", "eq"}
       THEN (IF j.c < 0 THEN Empty ELSE OfT(j, <<-j.c, j.c>>))
       ELSE Full                     \* lower bounds on |T| and != bound nothing
RECURSIVE MeetSeq(_)
MeetSeq(ivs) == IF ivs = <<>> THEN Full ELSE Meet(Head(ivs), MeetSeq(Tail(ivs)))
\* rng is the range of the quantity in the caller's units
RuleU(cs, rng) == LET js == Conjuncts(cs) IN
                  Meet(MeetSeq([i \in 1..Len(js) |-> RuleConj(js[i])]), rng)
Rule(cs) == RuleU(cs, RangeOf(cs.q))

(* ---- as-implemented deviation NeAsLe (matchBoundsInner / matchAbsBounds)      *)
\* after the >/>= flip the code knows Lt, LtE, Eq; every other operator falls into
\* the "not Eq" branch: constant on the left -> lower bound, on the right -> upper.
AsImplConj(j) ==
  IF ~j.gram THEN Full
  ELSE IF ~j.ab THEN
       (IF j.op = "eq" THEN <<j.c, j.c>>
        ELSE IF (j.op \in {"lt", "le"}) \/ (j.op = "ne" /\ ~j.constL) THEN <<-INF, j.c>>
        ELSE <<j.c, INF>>)
  ELSE IF (j.op \in {"lt", "le"}) \/ (j.op = "ne" /\ ~j.constL) \/ j.op = "eq"
       THEN OfT(j, <<-j.c, j.c>>)     \* the negative case raises, see AsImplRaises
       ELSE Full
AsImplRaises(cs) == \E i \in 1..Len(Conjuncts(cs)) : LET j == Conjuncts(cs)[i] IN
    j.gram /\ j.ab /\ j.c < 0 /\ ((j.op \in {"lt", "le", "eq"}) \/ (j.op = "ne" /\ ~j.constL))
\* trivial bounds are dropped by inferDistanceRelations / inferRelativeHeadingRelations;
\* a dropped relation is the full range
\* intersection as the code does it (no emptiness check: lo > hi is possible)
MeetRaw(a, b) == <<Max2(a[1], b[1]), Min2(a[2], b[2])>>
RECURSIVE MeetRawSeq(_)
MeetRawSeq(ivs) == IF ivs = <<>> THEN Full ELSE MeetRaw(Head(ivs), MeetRawSeq(Tail(ivs)))
AsImplU(cs, rng) == LET js == Conjuncts(cs) IN
                    MeetRaw(MeetRawSeq([i \in 1..Len(js) |-> AsImplConj(js[i])]), rng)
AsImpl(cs) == AsImplU(cs, RangeOf(cs.q))
HasNe(cs) == \E i \in 1..Len(Conjuncts(cs)) : Conjuncts(cs)[i].op = "ne"

(* ---- the value grid (half steps)                                             *)
GRID == 16
Grid == -GRID..GRID
InRange(q, v) == IF q = "dist" THEN v >= 0 ELSE v >= -6 /\ v <= 6
TrueSet(cs) == {v \in Grid : InRange(cs.q, v) /\ SatShape(cs, LAMBDA k : v < 2 * k, LAMBDA k : v = 2 * k)}
InIv(v, iv) == ~IsEmpty(iv) /\ (iv[1] = -INF \/ 2 * iv[1] <= v) /\ (iv[2] = INF \/ v <= 2 * iv[2])
\* hull of the true set in half steps; an end on the edge of the grid is unbounded
\* (all constants are at most 5 in absolute value, the grid reaches 8)
MinS(S) == CHOOSE x \in S : \A y \in S : x <= y
MaxS(S) == CHOOSE x \in S : \A y \in S : x >= y
Hull(cs) == LET S == TrueSet(cs) IN
            IF S = {} THEN Empty
            ELSE <<IF MinS(S) = -GRID THEN -INF ELSE MinS(S),
                   IF MaxS(S) = GRID THEN INF ELSE MaxS(S)>>

(* ---- machine: one case per behaviour                                         *)
\* the batch is read once, in Init; afterwards the case lives in the state
VARIABLES cs, pc, res
vars == <<cs, pc, res>>

NoRes == [rule |-> Empty, asimpl |-> Empty, hull |-> Empty, raises |-> FALSE, ne |-> FALSE,
          unsat |-> FALSE, asimplUnsound |-> FALSE]

InIvAll(S, iv) == \A v \in S : InIv(v, iv)

Init == /\ LET C == JsonDeserialize(IOEnv.CASES) IN cs \in {C[i] : i \in 1..Len(C)}
        /\ pc = "case" /\ res = NoRes
Extract == /\ pc = "case"
           /\ pc' = "done"
           /\ res' = LET S == TrueSet(cs) a == AsImpl(cs) r == AsImplRaises(cs) IN
                     [rule |-> Rule(cs), asimpl |-> a, hull |-> Hull(cs), raises |-> r,
                      ne |-> HasNe(cs), unsat |-> (S = {}), asimplUnsound |-> ~InIvAll(S, a)]
           /\ UNCHANGED cs
Next == Extract
Spec == Init /\ [][Next]_vars

TS == TrueSet(cs)
Done == pc = "done"

TypeOK == pc \in {"case", "done"} /\ cs.q \in {"dist", "rh"}
\* soundness of the specification's own rule
RuleSound == Done => \A v \in TS : InIv(v, res.rule)
\* the rule never claims emptiness of a satisfiable comparison
RuleEmptyOnlyIfUnsat == Done => (IsEmpty(res.rule) => TS = {})
\* tightness: a finite end of the rule is within half a step of a true value.  Stated for
\* single comparisons that are plain (no abs) or upper bounds on an abs: a lower bound on
\* |T| or an abs-equality is deliberately not unfolded by the rule (sound, not tight)
NoAbsEq == LET j == Conjuncts(cs)[1] IN ~j.ab \/ j.op \in {"lt", "le"}
RuleTight == (Done /\ TS # {} /\ NoAbsEq /\ Len(Conjuncts(cs)) = 1) =>
    /\ (res.rule[1] # -INF => MinS(TS) <= 2 * res.rule[1] + 1)
    /\ (res.rule[2] # INF => MaxS(TS) >= 2 * res.rule[2] - 1)
\* the converse relation recorded on the other object is the mirror image: for rh the
\* other object sees -Q, for dist the same Q
Mirror(q, iv) == IF q = "rh" THEN Neg(iv) ELSE iv
MirrorSound == Done => \A v \in TS : InIv(IF cs.q = "rh" THEN -v ELSE v, Mirror(cs.q, res.rule))
\* the named deviation is the only modelled source of unsoundness, and of refusing a
\* satisfiable requirement
DeviationIsNe == Done => ((res.asimplUnsound \/ (res.raises /\ ~res.unsat)) => res.ne)
EmitCase == Done => PrintT(ToJson([id |-> cs.id] @@ res))
=============================================================================
