------------------------------- MODULE Replay -------------------------------
(* C18, simulation half: recording the random values drawn DURING a simulation,   *)
(* replaying them, and the divergence check.                                      *)
(*                                                                              *)
(* Meaning (Simulator.simulate docstring: replay, enableDivergenceCheck,          *)
(* divergenceTolerance, continueAfterDivergence; Simulation.valuesHaveDiverged):  *)
(*   * a replay reproduces the recorded simulation: the run-time random values    *)
(*     are taken from the recording, in order, instead of being drawn;            *)
(*   * if the replay is allowed more steps than were recorded, "once the replay   *)
(*     is exhausted the simulation will continue to run in the usual randomized   *)
(*     manner";                                                                   *)
(*   * with divergence data, after every update of the objects every dynamic      *)
(*     property is compared with the recording: diverged iff "the distance        *)
(*     between the actual and expected values is greater than" the tolerance      *)
(*     (scalars and vectors; the sign of the difference is irrelevant);           *)
(*     then DivergenceError, or with continueAfterDivergence "it is as if the     *)
(*     replay data ran out at the moment of the divergence".                      *)
(* Grain (Simulation.__init__ / _run / updateObjects / Distribution.__new__):      *)
(*   update objects at time 0; then per step: time-limit test, the agent's        *)
(*   behaviour draws one value (read from the recording while replayCanContinue,   *)
(*   drawn otherwise, recorded either way) and may terminate the simulation on it, *)
(*   the action is executed, time advances, the objects are updated (divergence    *)
(*   data written, and read + compared while replayCanContinue).                   *)
(*                                                                              *)
(* A case (JSON): T, T2 = step limits of the recording and of the replay, D =     *)
(* number of values a draw can take, stop = the draw value on which the behaviour *)
(* terminates (-1: never), chk = recorded with divergence data, tol4 = the         *)
(* tolerance in abstract units (a unit is 1/4, or 1e-9 when nano = 1), cont =      *)
(* continueAfterDivergence, pert = <<s, kind, d>>: at update s the simulator of    *)
(* the replay reports one dynamic property off by d units (kind "scalar": d =      *)
(* <<n, u, 0>> = n units + u ulps, "vector": d = the difference vector, "none"),   *)
(* base = the recorded value of that property (whole real units; opaque here),    *)
(* sub = <<f, v>>: recorded field f (a draw) is replaced by the value v of its     *)
(* domain before the replay (f = 0: not),                                         *)
(* rec = recorded draws fixed by the case (<<>>: every sequence), cut = number of  *)
(* recorded fields handed to the replay (-1: all; only without divergence data).  *)
(* Draws are indices 0..D-1; all run-time randomness is nondeterminism here.      *)
EXTENDS Integers, Sequences, FiniteSets, TLC, Json, IOUtils

Cases == JsonDeserialize(IOEnv.CASES)
NC == Len(Cases)

VARIABLES cid, sem, run, pc, t, stream, rp, replaying, acts, term, recActs, recTerm, fresh, diverged, checks
vars == <<cid, sem, run, pc, t, stream, rp, replaying, acts, term, recActs, recTerm, fresh, diverged, checks>>

C == Cases[cid]
Limit == IF run = "rec" THEN C.T ELSE C.T2

\* ------------------------------------------------------------------ divergence verdicts
\* Tolerance and difference are in ABSTRACT units (the harness realises a unit as 1/4 or as
\* 1e-9).  A scalar difference is d = <<n, u, 0>>: n units plus u in {-1, 0, 1} "ulps", an
\* amount smaller than every unit (the neighbouring floating-point number).  The recorded
\* value itself (c.base, in whole real units: 0, +-1, +-1000, +-10^6) is a parameter of the case
\* that the criterion must NOT depend on (BaseIndependent below).
Abs(x) == IF x < 0 THEN -x ELSE x
Norm2(d) == d[1] * d[1] + d[2] * d[2] + d[3] * d[3]
Sgn(n, u) == IF n > 0 THEN 1 ELSE IF n < 0 THEN -1 ELSE IF u > 0 THEN 1 ELSE IF u < 0 THEN -1 ELSE 0
MagGt(n, u, tol) == LET s == Sgn(n, u) IN s # 0 /\ (s * n > tol \/ (s * n = tol /\ s * u > 0))
SignedGt(n, u, tol) == n > tol \/ (n = tol /\ u > 0)
\* the documented criterion: distance greater than the tolerance, either direction, whatever the value
Diverged(kind, d, tol4) ==
  CASE kind = "scalar" -> MagGt(d[1], d[2], tol4)
    [] kind = "vector" -> Norm2(d) > tol4 * tol4
    [] OTHER -> FALSE
\* AS IMPLEMENTED before the fix (Simulation.valuesHaveDiverged): diff = actual - expected; diff > tol
DivergedAsImplemented(kind, d, tol4) ==
  CASE kind = "scalar" -> SignedGt(d[1], d[2], tol4)
    [] kind = "vector" -> Norm2(d) > tol4 * tol4
    [] OTHER -> FALSE
\* a NON-conforming criterion kept for contrast (math.isclose with its default relative
\* tolerance 1e-9): with nano units the threshold becomes max(tol, |base|) units
DivergedRelative(kind, d, tol4, base) ==
  CASE kind = "scalar" -> MagGt(d[1], d[2], IF Abs(base) > tol4 THEN Abs(base) ELSE tol4)
    [] kind = "vector" -> Norm2(d) > tol4 * tol4
    [] OTHER -> FALSE
\* trigger predicate of the (now fixed) known finding "divergence-negative"
NegativeTrigger(c) == c.pert[2] = "scalar" /\ Sgn(c.pert[3][1], c.pert[3][2]) < 0
                      /\ MagGt(c.pert[3][1], c.pert[3][2], c.tol4) /\ c.chk = 1
CaseVerdict(c) == Diverged(c.pert[2], c.pert[3], c.tol4)
Verdict(c, s) == IF s = "ideal" THEN CaseVerdict(c)
                 ELSE DivergedAsImplemented(c.pert[2], c.pert[3], c.tol4)
Bases == {0, 1, -1, 1000, -1000, 1000000, -1000000}

\* ------------------------------------------------------------------ the machine
Init == /\ cid \in 1..NC
        /\ sem \in (IF NegativeTrigger(Cases[cid]) THEN {"ideal", "impl"} ELSE {"ideal"})
        /\ run = "rec" /\ pc = "update" /\ t = 0
        /\ stream = <<>> /\ rp = 1 /\ replaying = FALSE
        /\ acts = <<>> /\ term = "" /\ recActs = <<>> /\ recTerm = ""
        /\ fresh = <<>> /\ diverged = FALSE /\ checks = 0

\* Serializer.atEnd / replayCanContinue
CanContinue == replaying /\ rp <= Len(stream)

\* Simulation.updateObjects at time t (also once before the first step)
Update ==
  /\ pc = "update"
  /\ IF run = "rec"
     THEN /\ stream' = IF C.chk = 1 THEN Append(stream, <<"div", t>>) ELSE stream
          /\ UNCHANGED <<rp, replaying, diverged, checks>> /\ pc' = "loop"
     ELSE IF CanContinue /\ C.chk = 1
          THEN \* the recorded values of this update are read and compared
               /\ stream[rp][1] = "div" /\ stream[rp][2] = t
               /\ rp' = rp + 1 /\ checks' = checks + 1
               /\ IF C.pert[1] = t /\ Verdict(C, sem)
                  THEN IF C.cont = 1
                       THEN replaying' = FALSE /\ diverged' = diverged /\ pc' = "loop"
                       ELSE replaying' = replaying /\ diverged' = TRUE /\ pc' = "done"
                  ELSE UNCHANGED <<replaying, diverged>> /\ pc' = "loop"
               /\ UNCHANGED stream
          ELSE UNCHANGED <<stream, rp, replaying, diverged, checks>> /\ pc' = "loop"
  /\ IF pc' = "done" THEN term' = "DivergenceError" ELSE UNCHANGED term
  /\ UNCHANGED <<cid, sem, run, t, acts, recActs, recTerm, fresh>>

\* top of Simulation._run's loop: the time limit
TimeLimit ==
  /\ pc = "loop" /\ t >= Limit
  /\ term' = "timeLimit" /\ pc' = "done"
  /\ UNCHANGED <<cid, sem, run, t, stream, rp, replaying, acts, recActs, recTerm, fresh, diverged, checks>>

\* the behaviour's draw: Distribution.__new__ during a simulation
Act(v, isFresh) ==
  /\ IF v = C.stop THEN term' = "behavior" /\ pc' = "done" /\ UNCHANGED <<acts, t>>
     ELSE acts' = Append(acts, v) /\ t' = t + 1 /\ pc' = "update" /\ UNCHANGED term
  /\ fresh' = IF isFresh THEN Append(fresh, v) ELSE fresh
DrawRecorded ==     \* recording: a fresh value, appended to the recording
  /\ pc = "loop" /\ t < Limit /\ run = "rec"
  /\ \E v \in 0..(C.D - 1) :
       /\ (C.rec # <<>> => v = C.rec[Len(acts) + 1])
       /\ stream' = Append(stream, <<"draw", v>>)
       /\ Act(v, FALSE)
  /\ UNCHANGED <<cid, sem, run, rp, replaying, recActs, recTerm, diverged, checks>>
DrawReplayed ==     \* replaying: the next recorded value
  /\ pc = "loop" /\ t < Limit /\ run = "rep" /\ CanContinue
  /\ stream[rp][1] = "draw"
  /\ rp' = rp + 1 /\ Act(stream[rp][2], FALSE)
  /\ UNCHANGED <<cid, sem, run, stream, replaying, recActs, recTerm, diverged, checks>>
DrawFresh ==        \* replay exhausted (or abandoned after a divergence): the usual randomized manner
  /\ pc = "loop" /\ t < Limit /\ run = "rep" /\ ~CanContinue
  /\ replaying' = FALSE
  /\ \E v \in 0..(C.D - 1) : Act(v, TRUE)
  /\ UNCHANGED <<cid, sem, run, stream, rp, recActs, recTerm, diverged, checks>>

\* simulationToBytes ... simulationFromBytes: start the replay from the (possibly cut) recording
StartReplay ==
  /\ pc = "done" /\ run = "rec"
  /\ run' = "rep" /\ pc' = "update" /\ t' = 0
  /\ stream' = LET c == IF C.cut >= 0 /\ C.cut < Len(stream) THEN SubSeq(stream, 1, C.cut) ELSE stream
                     f == C.sub[1]
                 IN \* a corrupted recording: recorded draw f replaced by another value of its domain
                    IF f >= 1 /\ f <= Len(c) /\ c[f][1] = "draw" THEN [c EXCEPT ![f] = <<"draw", C.sub[2]>>] ELSE c
  /\ rp' = 1 /\ replaying' = TRUE
  /\ recActs' = acts /\ recTerm' = term /\ acts' = <<>> /\ term' = ""
  /\ UNCHANGED <<cid, sem, fresh, diverged, checks>>

Next == Update \/ TimeLimit \/ DrawRecorded \/ DrawReplayed \/ DrawFresh \/ StartReplay
Spec == Init /\ [][Next]_vars

\* ------------------------------------------------------------------ properties
Finished == run = "rep" /\ pc = "done"
IsPrefix(a, b) == Len(a) <= Len(b) /\ \A i \in 1..Len(a) : a[i] = b[i]
NDraws(s) == Cardinality({i \in 1..Len(s) : s[i][1] = "draw"})
Uncut == C.cut < 0 /\ C.sub[1] = 0
Perturbed == C.pert[2] # "none" /\ C.chk = 1 /\ C.pert[1] <= Len(recActs) /\ Uncut
ShouldDiverge == Perturbed /\ CaseVerdict(C)

TypeOK == /\ run \in {"rec", "rep"} /\ pc \in {"update", "loop", "done"}
          /\ t \in 0..(C.T2 + 1) /\ rp \in 1..(Len(stream) + 1)
          /\ term \in {"", "timeLimit", "behavior", "DivergenceError"}

\* same actions and termination, including the run-time random choices, whenever the
\* simulators agree within the tolerance and the replay gets the same number of steps
ReplayEqual ==
  (Finished /\ sem = "ideal" /\ ~ShouldDiverge /\ Uncut) =>
     /\ IsPrefix(recActs, acts)
     /\ (C.T2 = C.T \/ recTerm = "behavior") => (acts = recActs /\ term = recTerm /\ fresh = <<>>)
\* a longer replay continues: recorded values first, fresh ones afterwards, no recorded value skipped
LongerReplayContinues ==
  (Finished /\ sem = "ideal" /\ ~ShouldDiverge /\ recTerm = "timeLimit" /\ C.T2 > C.T /\ Uncut) =>
     /\ IsPrefix(recActs, acts)
     /\ Len(fresh) >= 1
     /\ (term = "timeLimit" => Len(acts) = C.T2 /\ Len(fresh) = C.T2 - C.T)
\* a cut recording is a shorter recording
CutReplay ==
  (Finished /\ C.cut >= 0 /\ C.sub[1] = 0) =>
     /\ \A i \in 1..Len(acts) : i <= NDraws(stream) => acts[i] = recActs[i]
     /\ term # "DivergenceError"
\* a recording in which a recorded value was replaced by another value of the same domain is a
\* recording of another run: the replay follows it, value by value (no other failure)
SubstitutedReplay ==
  (Finished /\ C.sub[1] > 0 /\ C.chk = 0) =>
     /\ term \in {"timeLimit", "behavior"}
     /\ \A i \in 1..Len(acts) : i <= NDraws(stream) => acts[i] = stream[i][2]
\* Diverged <=> |actual - expected| > tolerance, in BOTH directions; reported at the update
\* where it happens, by DivergenceError or (continueAfterDivergence) by abandoning the recording
DivergenceDetectedBothSigns ==
  (Finished /\ sem = "ideal") =>
     /\ (term = "DivergenceError") <=> (ShouldDiverge /\ C.cont = 0)
     /\ (ShouldDiverge /\ C.cont = 1) =>
           /\ IsPrefix(SubSeq(recActs, 1, C.pert[1]), acts)
           /\ (Len(acts) > C.pert[1] => Len(fresh) >= 1)
     /\ diverged => Len(acts) = C.pert[1]
\* the as-implemented criterion differs from the documented one exactly on the trigger
AtStart == run = "rec" /\ pc = "update" /\ t = 0 /\ stream = <<>>     \* each case once
DeviationExplained ==
  AtStart => LET k == C IN
     (Diverged(k.pert[2], k.pert[3], k.tol4) # DivergedAsImplemented(k.pert[2], k.pert[3], k.tol4))
        <=> (k.pert[2] = "scalar" /\ Sgn(k.pert[3][1], k.pert[3][2]) < 0 /\ MagGt(k.pert[3][1], k.pert[3][2], k.tol4))
\* LEMMA: the verdict of a case depends on (kind, difference, tolerance) only -- replacing the
\* recorded value by any other base value never changes it
BaseIndependent ==
  AtStart => \A b \in Bases : CaseVerdict([C EXCEPT !.base = b]) = CaseVerdict(C)
\* ... and the batch of cases is able to tell: it contains, for a nonzero base, differences
\* above the tolerance that a magnitude-relative criterion would swallow, of both signs
\* (evaluated only when the batch has cases in nano units: nano = 1)
Discriminating ==
  (AtStart /\ cid = 1 /\ \E c \in 1..NC : Cases[c].nano = 1) =>
     \A sg \in {-1, 1} : \E c \in 1..NC : LET k == Cases[c] IN
        /\ k.nano = 1 /\ k.pert[2] = "scalar" /\ k.base # 0 /\ Sgn(k.pert[3][1], k.pert[3][2]) = sg
        /\ CaseVerdict(k) /\ ~DivergedRelative(k.pert[2], k.pert[3], k.tol4, k.base)
\* recording and replay stay in step: when nothing diverges every recorded field is consumed
StreamConsumed ==
  (Finished /\ sem = "ideal" /\ ~ShouldDiverge /\ C.T2 >= C.T /\ term # "DivergenceError" /\ C.sub[1] = 0) =>
     rp = Len(stream) + 1

\* the reader always finds the kind of field it expects (recording and replay in lockstep)
InStep ==
  (run = "rep" /\ CanContinue) =>
     /\ (pc = "update" /\ C.chk = 1) => stream[rp] = <<"div", t>>
     /\ (pc = "loop" /\ t < Limit) => stream[rp][1] = "draw"

EmitRun ==
  Finished =>
     PrintT(ToJson([cid |-> cid, sem |-> sem, rec |-> recActs, recTerm |-> recTerm,
                    acts |-> acts, term |-> term, fresh |-> fresh, checks |-> checks,
                    shouldDiverge |-> ShouldDiverge, nfields |-> Len(stream)]))
=============================================================================
