------------------------------ MODULE RoadNet ------------------------------
(* C20, first half: a road network is internally consistent.                      *)
(*                                                                                *)
(* Binding mode M3 (state audit).  The harness (harness/roadnet_export.py) exports *)
(* every real scenic.domains.driving.roads.Network as a finite structure:          *)
(*   n          number of network elements; element ids are 1..n; id 0 = "no link"  *)
(*              (None); id n+1 = a link value that is NOT an element of the network *)
(*              (every array has n+1 entries so that the spec stays total);         *)
(*   cls[i]     "road" (ordinary) | "croad" (connecting) | "group" | "lane" |       *)
(*              "lsec" | "rsec" | "inter" | "sidewalk" | "shoulder" | "crossing"     *)
(*   roads, croads, allroads, groups, lanes, lsecs, rsecs, inters, sidewalks,       *)
(*   shoulders, crossings : the Network's own tuples (as id sequences)              *)
(*   F.<link>[i]  single-valued links, S.<link>[i] sequence-valued links            *)
(*   mans[k]    maneuvers [start, conn, end, inter, conf, confx, rev, reverr, ..]    *)
(*   pts[q]     sample points with FACTS measured on the real network: the sets of  *)
(*              elements containing the point exactly (inn), within the network's   *)
(*              tolerance (near), too close to one of the two thresholds to call     *)
(*              (fz0: 0 < d <= 1e-7, fz1: |d - tol| <= 1e-6), what each lookup of    *)
(*              the real Network returned, the reported traffic direction(s) and the *)
(*              tangent(s) of the centreline of each lane at the point (centi-deg).   *)
(*                                                                                *)
(* The meaning of every link is taken from the attribute documentation in          *)
(* roads.py; the demands are those of the repository's own single-map tests         *)
(* (tests/domains/driving/test_network.py: test_linkage, test_orientation_           *)
(* consistency, test_element_tolerance, test_shoulder, test_sidewalk), generalised   *)
(* to every map, and weakened wherever the documentation leaves a choice             *)
(* (overlapping siblings: any container may be reported; successor/predecessor are   *)
(* single-valued, so at a branch or merge only one neighbour can be named).          *)
(*                                                                                *)
(* Each conjunct of WellFormed is an operator Bad_<Name>(g) returning the set of    *)
(* witnesses (element ids / maneuver indices / point indices) that violate it.       *)
(* The machine: Init picks a network of the batch; one Audit action per conjunct     *)
(* group stores the violated conjuncts (name, least witness, number of witnesses)    *)
(* in `verdict`; one invariant per conjunct (I_<Name>) says it holds once audited,   *)
(* unless a *named as-implemented deviation* applies (trigger predicates below) or   *)
(* the network is a harness-made mutant that is EXPECTED to violate it; EmitVerdict   *)
(* prints the per-network verdict record.                                            *)
EXTENDS Integers, Sequences, FiniteSets, TLC, Json, IOUtils, SequencesExt

Nets == JsonDeserialize(IOEnv.NETS)
NM == Len(Nets)
Eps == 200                     \* direction tolerance: 2 degrees, in centi-degrees

VARIABLES m, step, audited, verdict
vars == <<m, step, audited, verdict>>

\* ------------------------------------------------------------------ helpers
Rng(s) == {s[i] : i \in DOMAIN s}
MinOf(S) == CHOOSE x \in S : \A y \in S : x <= y
Ids(g) == 1..g.n
D(g) == g.n + 1                                   \* the "not an element" sentinel
Fv(g, f, i) == IF i \in 1..(g.n + 1) THEN g.F[f][i] ELSE 0
Sv(g, s, i) == IF i \in 1..(g.n + 1) THEN g.S[s][i] ELSE <<>>
Cl(g, i) == IF i \in 1..(g.n + 1) THEN g.cls[i] ELSE "none"
OfClass(g, c) == {i \in Ids(g) : g.cls[i] = c}
NonZero(s) == SelectSeq(s, LAMBDA x : x # 0)
Mn(g) == 1..Len(g.mans)
Man(g, k) == g.mans[k]
Pn(g) == 1..Len(g.pts)

FNames == {"succ", "pred", "road", "group", "lane", "left", "right", "faster", "slower",
           "opposite", "sidewalk", "shoulder", "bike", "fwd", "bwd", "parent", "swa", "swb"}
SNames == {"lanes", "sections", "groups", "adj", "iroads", "incoming", "outgoing",
           "sidewalks", "crossings", "flanes", "blanes"}

\* ================================================================== group 1: links
\* every link value is None or an element of this network
DanglingF(g, i) == {f \in FNames : g.F[f][i] = D(g)}
Bad_LinksAreElements(g) ==
  {i \in Ids(g) : \/ DanglingF(g, i) # {}
                  \/ \E s \in SNames : \E j \in DOMAIN g.S[s][i] : g.S[s][i][j] = D(g)}
\* AS-IMPLEMENTED deviation "raw-opendrive-id": toScenicRoad stores the raw OpenDRIVE lane
\* id in LaneSection._successor/_predecessor "to correct inter-road links later"; when no
\* road-level link covers that end of the road the integer is never replaced.
\* Trigger: the only non-element link values are successor/predecessor of lane sections.
Dev_RawOpenDriveId(g) ==
  /\ Bad_LinksAreElements(g) # {}
  /\ \A i \in Bad_LinksAreElements(g) :
        /\ g.cls[i] = "lsec" /\ DanglingF(g, i) \subseteq {"succ", "pred"}
        /\ \A s \in SNames : \A j \in DOMAIN g.S[s][i] : g.S[s][i][j] # D(g)

Bad_ManeuverLinksAreElements(g) ==
  {k \in Mn(g) : LET r == Man(g, k) IN
      \/ D(g) \in {r.start, r.conn, r.end, r.inter}
      \/ \E j \in DOMAIN r.conf : r.conf[j] < 1
      \/ \E j \in DOMAIN r.rev : r.rev[j] < 1}

ChainCls == {"lane", "lsec", "rsec"}
\* successor/predecessor are single-valued ("only set when unique"): x.succ = y demands
\* y.pred = x unless y names nobody or several elements flow into y; x.pred = y demands
\* y.succ = x unless y branches into several elements.
\* (g.S.succof[y] / g.S.predof[y]: the same-class elements x with x.succ = y / x.pred = y -- an
\* inverse index supplied by the harness only to avoid a quadratic scan; I_InverseIndexExact
\* checks that it IS the inverse of F.succ / F.pred, so nothing is taken on trust)
Bad_SuccPredAgree(g) ==
  {x \in Ids(g) : /\ g.cls[x] \in ChainCls
                  /\ LET y == g.F.succ[x] IN
                       /\ y \in Ids(g) /\ g.cls[y] = g.cls[x]
                       /\ ~(\/ g.F.pred[y] = x \/ g.F.pred[y] = 0
                            \/ \E z \in Rng(g.S.succof[y]) : z # x)}
Bad_PredSuccAgree(g) ==
  {x \in Ids(g) : /\ g.cls[x] \in ChainCls
                  /\ LET y == g.F.pred[x] IN
                       /\ y \in Ids(g) /\ g.cls[y] = g.cls[x]
                       /\ ~(\/ g.F.succ[y] = x
                            \/ \E z \in Rng(g.S.predof[y]) : z # x)}
InverseIndexExact(g) ==
  \A x \in Ids(g) :
     /\ \A z \in Rng(g.S.succof[x]) : z \in Ids(g) /\ g.cls[z] = g.cls[x] /\ g.F.succ[z] = x
     /\ \A z \in Rng(g.S.predof[x]) : z \in Ids(g) /\ g.cls[z] = g.cls[x] /\ g.F.pred[z] = x
     /\ LET y == g.F.succ[x] IN (y \in Ids(g) /\ g.cls[y] = g.cls[x]) => x \in Rng(g.S.succof[y])
     /\ LET y == g.F.pred[x] IN (y \in Ids(g) /\ g.cls[y] = g.cls[x]) => x \in Rng(g.S.predof[y])
\* two ordinary roads linked at either end name each other
Bad_RoadLinksTwoWay(g) ==
  {r \in OfClass(g, "road") :
      \E y \in {g.F.succ[r], g.F.pred[r]} :
          Cl(g, y) = "road" /\ r \notin {g.F.succ[y], g.F.pred[y]}}
\* Road.sections: "ordered from start to end"; a new section "will be the successor of the
\* current one"
Bad_SectionChain(g) ==
  {r \in Rng(g.allroads) : LET ss == g.S.sections[r] IN
      \/ Len(ss) = 0
      \/ \E k \in 1..(Len(ss) - 1) : Fv(g, "succ", ss[k]) # ss[k + 1] \/ Fv(g, "pred", ss[k + 1]) # ss[k]}
\* test_linkage: laneToLeft / laneToRight
Bad_LeftRightReciprocal(g) ==
  {s \in OfClass(g, "lsec") :
     LET l == g.F.left[s] r == g.F.right[s] fs == <<g.F.faster[s], g.F.slower[s]>> IN
       \/ /\ l # 0
          /\ ~(/\ Cl(g, l) = "lsec" /\ l # r
               /\ IF Fv(g, "isfwd", l) = g.F.isfwd[s]
                  THEN Fv(g, "right", l) = s /\ Cardinality({j \in 1..2 : fs[j] = l}) = 1
                  ELSE Fv(g, "left", l) = s)
       \/ /\ r # 0
          /\ ~(/\ Cl(g, r) = "lsec" /\ r # l
               /\ IF Fv(g, "isfwd", r) = g.F.isfwd[s]
                  THEN Fv(g, "left", r) = s /\ Cardinality({j \in 1..2 : fs[j] = r}) = 1
                  ELSE Fv(g, "right", r) = s)}
Bad_FasterSlower(g) ==
  {s \in OfClass(g, "lsec") :
     LET lr == {g.F.left[s], g.F.right[s]} IN
       \/ (g.F.faster[s] # 0 /\ g.F.faster[s] \notin lr)
       \/ (g.F.slower[s] # 0 /\ g.F.slower[s] \notin lr)}
\* adjacentLanes: "adjacent lanes of same type, if any" -- symmetric; for a lane section
\* exactly its left/right neighbours
Bad_AdjacentSymmetric(g) ==
  {x \in Ids(g) : /\ g.cls[x] \in {"lane", "lsec"}
                  /\ \/ \E a \in Rng(g.S.adj[x]) : Cl(g, a) # g.cls[x] \/ x \notin Rng(Sv(g, "adj", a))
                     \/ /\ g.cls[x] = "lsec"
                        /\ Rng(g.S.adj[x]) # ({g.F.left[x], g.F.right[x]} \ {0})}
\* test_linkage: forwardLanes._opposite is backwardLanes and conversely
Bad_OppositeReciprocal(g) ==
  {r \in Rng(g.allroads) : LET f == g.F.fwd[r] b == g.F.bwd[r] IN
      \/ (f # 0 /\ Fv(g, "opposite", f) # b)
      \/ (b # 0 /\ Fv(g, "opposite", b) # f)}

\* ================================================================== group 2: ownership
Bad_RoadGroups(g) ==
  {r \in Rng(g.allroads) : LET f == g.F.fwd[r] b == g.F.bwd[r] IN
      \/ (f = 0 /\ b = 0)
      \/ g.S.groups[r] # NonZero(<<f, b>>)            \* "with forwardLanes being first if it exists"
      \/ \E x \in Rng(g.S.groups[r]) : Cl(g, x) # "group" \/ Fv(g, "road", x) # r}
Bad_GroupLanes(g) ==
  {r \in Rng(g.allroads) :
     LET fl == Sv(g, "lanes", g.F.fwd[r]) bl == Sv(g, "lanes", g.F.bwd[r]) IN
       \/ \E gr \in Rng(g.S.groups[r]) : \E l \in Rng(Sv(g, "lanes", gr)) :
             Cl(g, l) # "lane" \/ Fv(g, "group", l) # gr \/ Fv(g, "road", l) # r
       \/ Cardinality(Rng(fl) \cup Rng(bl)) # Len(fl) + Len(bl)     \* no lane in two groups / twice
       \/ Rng(g.S.lanes[r]) # Rng(fl) \cup Rng(bl)}
Bad_LaneSections(g) ==
  {l \in OfClass(g, "lane") : LET ss == g.S.sections[l] IN
      \/ Len(ss) = 0
      \/ \E s \in Rng(ss) :
            \/ Cl(g, s) # "lsec" \/ Fv(g, "lane", s) # l
            \/ Fv(g, "group", s) # g.F.group[l] \/ Fv(g, "road", s) # g.F.road[l]
            \/ (Fv(g, "isfwd", s) = 1) # (g.F.group[l] = Fv(g, "fwd", g.F.road[l]))}
\* converse direction: every element is listed by the parent it names
\* (ls.lane.group.road = ls.road is the chain of the property text)
Bad_OwnershipConverse(g) ==
  {x \in Ids(g) :
     \/ /\ g.cls[x] = "lsec"
        /\ \/ x \notin Rng(Sv(g, "sections", g.F.lane[x]))
           \/ Fv(g, "road", Fv(g, "group", g.F.lane[x])) # g.F.road[x]
     \/ (g.cls[x] = "lane" /\ x \notin Rng(Sv(g, "lanes", g.F.group[x])))
     \/ (g.cls[x] = "group" /\ x \notin Rng(Sv(g, "groups", g.F.road[x])))
     \/ (g.cls[x] = "rsec" /\ x \notin Rng(Sv(g, "sections", g.F.road[x])))}
Bad_RoadSectionLanes(g) ==
  {r \in Rng(g.allroads) : \E rs \in Rng(g.S.sections[r]) :
      \/ Cl(g, rs) # "rsec" \/ Fv(g, "road", rs) # r
      \/ Sv(g, "lanes", rs) # Sv(g, "flanes", rs) \o Sv(g, "blanes", rs)
      \/ Len(Sv(g, "lanes", rs)) = 0
      \/ \E s \in Rng(Sv(g, "flanes", rs)) : Cl(g, s) # "lsec" \/ Fv(g, "isfwd", s) # 1 \/ Fv(g, "road", s) # r
      \/ \E s \in Rng(Sv(g, "blanes", rs)) : Cl(g, s) # "lsec" \/ Fv(g, "isfwd", s) # 0 \/ Fv(g, "road", s) # r}
\* test_linkage checkGroup: sidewalk / shoulder / bikeLane of a group belong to its road
Bad_SidewalkShoulder(g) ==
  {gr \in OfClass(g, "group") :
     LET r == g.F.road[gr] sw == g.F.sidewalk[gr] sh == g.F.shoulder[gr] bk == g.F.bike[gr] IN
       \/ /\ sw # 0
          /\ \/ Cl(g, sw) # "sidewalk" \/ Fv(g, "road", sw) # r \/ sw \notin Rng(g.sidewalks)
             \/ \E c \in Rng(Sv(g, "crossings", sw)) :
                   Fv(g, "parent", c) # r \/ sw \notin {Fv(g, "swa", c), Fv(g, "swb", c)}
       \/ (sh # 0 /\ (Cl(g, sh) # "shoulder" \/ Fv(g, "road", sh) # r \/ sh \notin Rng(g.shoulders)))
       \/ (bk # 0 /\ (Cl(g, bk) # "lane" \/ Fv(g, "road", bk) # r))}
  \cup
  {r \in Rng(g.allroads) :      \* Road.sidewalks: "with the one adjacent to forwardLanes being first"
     g.S.sidewalks[r] # NonZero(<<Fv(g, "sidewalk", g.F.fwd[r]), Fv(g, "sidewalk", g.F.bwd[r])>>)}
\* the Network's tuples are what their documentation says (witness = number of the clause)
Bad_NetworkIndex(g) ==
  {k \in 1..12 :
     ~ CASE k = 1 -> Rng(g.roads) = OfClass(g, "road")
         [] k = 2 -> Rng(g.croads) = OfClass(g, "croad")
         [] k = 3 -> g.allroads = g.roads \o g.croads
         [] k = 4 -> Rng(g.groups) = OfClass(g, "group")
         [] k = 5 -> Rng(g.lanes) = OfClass(g, "lane")
         [] k = 6 -> Rng(g.lsecs) = OfClass(g, "lsec")
         [] k = 7 -> Rng(g.rsecs) = {x \in OfClass(g, "rsec") : Cl(g, g.F.road[x]) = "road"}
         [] k = 8 -> Rng(g.inters) = OfClass(g, "inter")
         [] k = 9 -> Rng(g.sidewalks) = OfClass(g, "sidewalk")
         [] k = 10 -> Rng(g.shoulders) = OfClass(g, "shoulder")
         [] k = 11 -> Rng(g.crossings) = OfClass(g, "crossing")
         [] k = 12 -> /\ Len(g.lanes) = Cardinality(Rng(g.lanes))
                      /\ Len(g.allroads) = Cardinality(Rng(g.allroads))
                      /\ Len(g.lsecs) = Cardinality(Rng(g.lsecs))}

\* ================================================================== group 3: maneuvers
ConnOf(g, i) == {Man(g, k).conn : k \in Rng(Sv(g, "mans", i))}      \* allConnecting of test_linkage
\* "possible maneuvers upon reaching the end of this lane"
Bad_LaneManeuvers(g) ==
  {l \in OfClass(g, "lane") : \E k \in Rng(g.S.mans[l]) : k \notin Mn(g) \/ Man(g, k).start # l}
\* every maneuver of an intersection goes through it: it has a connecting lane, names the
\* intersection, starts on an incoming and ends on an outgoing lane of roads of the intersection
Bad_IntersectionManeuvers(g) ==
  UNION {{k \in Rng(g.S.mans[i]) :
            \/ k \notin Mn(g)
            \/ LET r == Man(g, k) IN
                 ~(/\ r.conn # 0 /\ r.inter = i
                   /\ k \in Rng(Sv(g, "mans", r.start))
                   /\ r.start \in Rng(g.S.incoming[i]) /\ r.end \in Rng(g.S.outgoing[i])
                   /\ Fv(g, "road", r.start) \in Rng(g.S.iroads[i])
                   /\ Fv(g, "road", r.end) \in Rng(g.S.iroads[i]))} : i \in Rng(g.inters)}
  \cup
  {k \in Mn(g) : LET r == Man(g, k) IN
      r.inter \in Ids(g) /\ (Cl(g, r.inter) # "inter" \/ k \notin Rng(Sv(g, "mans", r.inter)))}
\* incoming / outgoing lanes are lanes of the intersection's roads; a maneuver of an incoming
\* lane that goes through an intersection goes through this one
Bad_IncomingOutgoing(g) ==
  {i \in Rng(g.inters) :
     \/ \E l \in Rng(g.S.incoming[i]) :
          \/ Cl(g, l) # "lane" \/ Fv(g, "road", l) \notin Rng(g.S.iroads[i])
          \/ \E k \in Rng(Sv(g, "mans", l)) : k \in Mn(g) /\ Man(g, k).conn # 0 /\ k \notin Rng(g.S.mans[i])
     \/ \E l \in Rng(g.S.outgoing[i]) : Cl(g, l) # "lane" \/ Fv(g, "road", l) \notin Rng(g.S.iroads[i])
     \/ \E r \in Rng(g.S.iroads[i]) : Cl(g, r) \notin {"road", "croad"}}
\* head to tail: through an intersection start -> connecting -> end, the connecting lane being a
\* lane of a connecting road; a lane merger (no connecting lane: "None for lane mergers", type
\* STRAIGHT) has no intersection and start.successor = end
Bad_ManeuverChain(g) ==
  {k \in Mn(g) : LET r == Man(g, k) IN
     IF r.conn # 0
     THEN ~(/\ Cl(g, r.conn) = "lane" /\ Cl(g, r.start) = "lane" /\ Cl(g, r.end) = "lane"
            /\ Fv(g, "succ", r.conn) = r.end
            /\ \/ Fv(g, "pred", r.conn) = r.start
               \/ \E k2 \in Mn(g) : Man(g, k2).conn = r.conn /\ Fv(g, "pred", r.conn) = Man(g, k2).start
            /\ Cl(g, Fv(g, "road", r.conn)) = "croad"
            /\ r.inter # 0)
     ELSE ~(/\ r.inter = 0 /\ r.straight = 1
            /\ Cl(g, r.start) = "lane" /\ Cl(g, r.end) = "lane"
            /\ Fv(g, "succ", r.start) = r.end)}
\* conflictingManeuvers: other maneuvers of the same intersection, from another start lane, whose
\* connecting lanes really intersect (confx measured by the harness); symmetric
Bad_Conflicts(g) ==
  {k \in Mn(g) : LET r == Man(g, k) IN
     \E j \in DOMAIN r.conf : LET c == r.conf[j] IN
        c \in Mn(g) /\ ~(/\ c # k /\ r.confx[j] = 1
                         /\ Man(g, c).inter = r.inter /\ Man(g, c).start # r.start
                         /\ k \in Rng(Man(g, c).conf))}
\* reverseManeuvers: "maneuvers whose start and end roads are the reverse of this one's"; reciprocal
Bad_Reverses(g) ==
  {k \in Mn(g) : LET r == Man(g, k) IN
     \E j \in DOMAIN r.rev : LET c == r.rev[j] IN
        c \in Mn(g) /\ ~(/\ Man(g, c).inter = r.inter
                         /\ Fv(g, "road", Man(g, c).start) = Fv(g, "road", r.end)
                         /\ Fv(g, "road", Man(g, c).end) = Fv(g, "road", r.start)
                         /\ k \in Rng(Man(g, c).rev))}
\* the two derived link sets can be read on every maneuver
Bad_ManeuverSetsDefined(g) == {k \in Mn(g) : Man(g, k).reverr # 0}
\* AS-IMPLEMENTED deviation "reverse-maneuvers-of-merger": Maneuver.reverseManeuvers iterates
\* self.intersection.maneuvers, and self.intersection is None for lane mergers -> AttributeError.
\* Trigger: only lane mergers fail, and only reverseManeuvers (reverr = 1).
Dev_ReverseOfMerger(g) ==
  /\ Bad_ManeuverSetsDefined(g) # {}
  /\ \A k \in Bad_ManeuverSetsDefined(g) : Man(g, k).reverr = 1 /\ Man(g, k).conn = 0 /\ Man(g, k).inter = 0

\* diagnostic only (NOT part of WellFormed): the maintainers' stronger reading on their map --
\* every incoming lane's successor is a connecting lane of a maneuver of the intersection and all
\* its maneuvers have a connecting lane.  The documentation allows mergers ("None for lane
\* mergers"), and maps whose connecting lanes lack a successor produce them (misc/Issue189.xodr).
Diag_IncomingThroughIntersection(g) ==
  UNION {{l \in Rng(g.S.incoming[i]) :
            \/ Fv(g, "succ", l) \notin ConnOf(g, i)
            \/ \E k \in Rng(Sv(g, "mans", l)) : k \in Mn(g) /\ Man(g, k).conn = 0} : i \in Rng(g.inters)}

\* ================================================================== group 4: lookups
Exact(p) == Rng(p.inn)
ExactF(p) == Rng(p.inn) \cup Rng(p.fz0)
Surely(p) == Rng(p.inn) \cup Rng(p.fz0) \cup Rng(p.near)
Within(p) == Rng(p.inn) \cup Rng(p.fz0) \cup Rng(p.near) \cup Rng(p.fz1)
TopCls == {"inter", "road", "shoulder", "sidewalk"}          \* Network._topLevelElements
Rank(c) == CASE c = "inter" -> 1 [] c = "road" -> 2 [] c = "shoulder" -> 3 [] c = "sidewalk" -> 4 [] OTHER -> 9
\* the lookups that are one findPointIn over a class of elements: <<result, candidate classes>>
Direct(p) == {<<p.elementAt, TopCls>>, <<p.roadAt, {"road", "croad"}>>, <<p.laneAt, {"lane"}>>,
              <<p.intersectionAt, {"inter"}>>, <<p.sidewalkAt, {"sidewalk"}>>,
              <<p.shoulderAt, {"shoulder"}>>}
\* no lookup raised
Bad_LookupsTotal(g) == {q \in Pn(g) : g.pts[q].err # ""}
\* what a lookup reports is an element of the right kind containing the point within tolerance
Bad_LookupSound(g) ==
  {q \in Pn(g) : LET p == g.pts[q] IN
     \/ \E lk \in Direct(p) : lk[1] # 0 /\ ~(Cl(g, lk[1]) \in lk[2] /\ lk[1] \in Within(p))
     \/ (p.laneSectionAt # 0 /\ ~(Cl(g, p.laneSectionAt) = "lsec" /\ p.laneSectionAt \in Within(p)))
     \/ (p.laneGroupAt # 0 /\ ~(Cl(g, p.laneGroupAt) = "group" /\ p.laneGroupAt \in Within(p)))
     \/ (p.crossingAt # 0 /\ ~(Cl(g, p.crossingAt) = "crossing" /\ p.crossingAt \in Within(p)))}
\* findPointIn: "elements which actually contain the point have priority"
Bad_LookupExactFirst(g) ==
  {q \in Pn(g) : LET p == g.pts[q] IN
     \E lk \in Direct(p) : (\E e \in Exact(p) : Cl(g, e) \in lk[2]) /\ lk[1] \notin ExactF(p)}
\* ... "if none contain the point, then we search again allowing an error of up to tolerance":
\* something is reported whenever an element of the kind is (surely) within tolerance
Bad_LookupComplete(g) ==
  {q \in Pn(g) : LET p == g.pts[q] IN
     \E lk \in Direct(p) : (\E e \in Surely(p) : Cl(g, e) \in lk[2]) /\ lk[1] = 0}
\* laneSectionAt(p).lane = laneAt(p)
Bad_SectionLaneAgree(g) ==
  {q \in Pn(g) : LET p == g.pts[q] ls == p.laneSectionAt la == p.laneAt IN
     \/ (ls # 0 /\ Fv(g, "lane", ls) # la)
     \/ (la = 0 /\ ls # 0)
     \/ (la # 0 /\ ls = 0 /\ \E s \in Rng(Sv(g, "sections", la)) : s \in Surely(p))
     \/ ls # p.lane_sectionAt}
\* laneGroupAt(p).road = roadAt(p)
Bad_GroupRoadAgree(g) ==
  {q \in Pn(g) : LET p == g.pts[q] gr == p.laneGroupAt r == p.roadAt IN
     \/ (gr # 0 /\ Fv(g, "road", gr) # r)
     \/ (r = 0 /\ gr # 0)
     \/ gr # p.road_laneGroupAt}
\* elementAt: "within tolerance ... first match using this priority order:
\* Intersection -> Road -> Shoulder -> Sidewalk" (only decidable when nothing is borderline)
Bad_ElementPriority(g) ==
  {q \in Pn(g) : LET p == g.pts[q] e == p.elementAt IN
     /\ e \in Ids(g)
     /\ ~\E x \in ExactF(p) \cup Rng(p.fz1) : Cl(g, x) \in TopCls
     /\ \E x \in Rng(p.near) : Cl(g, x) \in TopCls /\ Rank(Cl(g, x)) < Rank(Cl(g, e))}
\* test_orientation_consistency: the road's own lookups agree with the network's, where only
\* one road is near the point (overlapping roads: either may be reported -- don't-care)
OneRoad(g, p) == Cardinality({x \in Within(p) : Cl(g, x) \in {"road", "croad"}}) = 1
Bad_RelativeLookupsAgree(g) ==
  {q \in Pn(g) : LET p == g.pts[q] IN
     /\ OneRoad(g, p) /\ p.roadAt # 0
     /\ ~(/\ p.road_laneAt = p.laneAt
          /\ p.road_laneSectionAt = p.laneSectionAt
          /\ (p.laneAt # 0 => Fv(g, "road", p.laneAt) = p.roadAt)
          /\ (p.road_sectionAt # 0 => Cl(g, p.road_sectionAt) = "rsec" /\ Fv(g, "road", p.road_sectionAt) = p.roadAt
                                       /\ p.road_sectionAt \in Within(p)))}
\* children lie inside their parents (within the tolerance)
Bad_ChildrenInsideParents(g) ==
  {q \in Pn(g) : LET p == g.pts[q] IN
     \E e \in Exact(p) :
        \/ (Cl(g, e) = "lsec" /\ ({Fv(g, "lane", e), Fv(g, "road", e)} \ Within(p)) # {})
        \/ (Cl(g, e) = "lane" /\ Fv(g, "group", e) \notin Within(p))
        \/ (Cl(g, e) \in {"group", "rsec"} /\ Fv(g, "road", e) \notin Within(p))}
\* the drivable area is covered by what the lookups return
Bad_DrivableCovered(g) ==
  {q \in Pn(g) : LET p == g.pts[q] IN
     /\ p.kind \in {"lsec", "inter", "drivable"}
     /\ (p.elementAt = 0 \/ (p.roadAt = 0 /\ p.intersectionAt = 0))}
\* reject=True rejects exactly when the plain lookup finds nothing
Bad_RejectConsistent(g) ==
  {q \in Pn(g) : LET p == g.pts[q] IN ~((p.rejects = 1 /\ p.elementAt = 0) \/ (p.rejects = 0 /\ p.elementAt # 0))}
\* test_linkage (`lane.sectionAt(pt) is section`, `group.laneAt(pt) is lane` for points of a section):
\* looked up in the section's own lane / the lane's own group, a point of a section is found in one
\* of their children containing it -- exactly if one of them contains it exactly (overlapping
\* siblings: any of them; the lane polygon and its sections' polygons may differ by the tolerance)
FoundAmong(p, r, cands) ==
  /\ r \in cands \cap Within(p)
  /\ (cands \cap Exact(p) # {} => r \in ExactF(p))
Bad_SourceLookups(g) ==
  {q \in Pn(g) : LET p == g.pts[q] IN
     /\ p.kind = "lsec" /\ p.src \in Exact(p)
     /\ ~(/\ FoundAmong(p, p.src_lane_sectionAt, Rng(Sv(g, "sections", Fv(g, "lane", p.src))))
          /\ FoundAmong(p, p.src_group_laneAt, Rng(Sv(g, "lanes", Fv(g, "group", p.src)))))}

\* ================================================================== group 5: directions
AngDiff(a, b) == LET d == (a - b) % 36000 IN IF d > 18000 THEN 36000 - d ELSE d
\* tangent headings (centi-degrees) of lane l's centreline at the point: p.tans = <<<<l, <<t..>>>>..>>
\* (several when the nearest point of the centreline is a vertex or a section joint: either
\* adjacent segment is a legitimate "nearest segment")
Tans(p, l) == UNION {Rng(p.tans[j][2]) : j \in {j \in DOMAIN p.tans : p.tans[j][1] = l}}
Tangent(p, dir, L) == \E l \in L : \E t \in Tans(p, l) : AngDiff(dir, t) <= Eps
RoadLanesAt(g, p) == {l \in Exact(p) : Cl(g, l) = "lane" /\ Fv(g, "road", l) = p.elementAt}
ConnLanesAt(g, p) == {l \in Exact(p) : l \in ConnOf(g, p.elementAt) /\ l # 0}
HasDir(p) == p.rd >= 0
\* on an ordinary road the reported traffic direction is tangent to (one of) the lane(s) of
\* that road containing the point
Bad_RoadDirectionTangent(g) ==
  {q \in Pn(g) : LET p == g.pts[q] IN
     /\ Cl(g, p.elementAt) = "road" /\ RoadLanesAt(g, p) # {}
     /\ ~(HasDir(p) /\ Tangent(p, p.rd, RoadLanesAt(g, p)))}
\* in an intersection it is tangent to a connecting lane (of a maneuver) containing the point
Bad_IntersectionDirectionTangent(g) ==
  {q \in Pn(g) : LET p == g.pts[q] IN
     /\ Cl(g, p.elementAt) = "inter" /\ ConnLanesAt(g, p) # {}
     /\ ~(HasDir(p) /\ Tangent(p, p.rd, ConnLanesAt(g, p)))}
\* nominalDirectionsAt: one direction on a road or shoulder; in an intersection at least one, and
\* one for every connecting lane containing the point
Bad_NominalDirections(g) ==
  {q \in Pn(g) : LET p == g.pts[q] c == Cl(g, p.elementAt) IN
     \/ (c \in {"road", "shoulder"} /\ Len(p.noms) # 1)
     \/ (c = "road" /\ RoadLanesAt(g, p) # {} /\ Len(p.noms) = 1 /\ ~Tangent(p, p.noms[1], RoadLanesAt(g, p)))
     \/ /\ c = "inter"
        /\ \/ Len(p.noms) < 1
           \/ \E l \in ConnLanesAt(g, p) : ~\E j \in DOMAIN p.noms : Tangent(p, p.noms[j], {l})}
\* test_shoulder: on a shoulder the road direction is the shoulder's own direction
Bad_ShoulderDirection(g) ==
  {q \in Pn(g) : LET p == g.pts[q] IN
     /\ Cl(g, p.elementAt) = "shoulder" /\ Tans(p, p.elementAt) # {}
     /\ ~(HasDir(p) /\ Tangent(p, p.rd, {p.elementAt}))}

\* ================================================================== the audit machine
Group1 == <<"LinksAreElements", "ManeuverLinksAreElements", "SuccPredAgree", "PredSuccAgree",
            "RoadLinksTwoWay", "SectionChain", "LeftRightReciprocal", "FasterSlower",
            "AdjacentSymmetric", "OppositeReciprocal">>
Group2 == <<"RoadGroups", "GroupLanes", "LaneSections", "OwnershipConverse", "RoadSectionLanes",
            "SidewalkShoulder", "NetworkIndex">>
Group3 == <<"LaneManeuvers", "IntersectionManeuvers", "IncomingOutgoing", "ManeuverChain",
            "Conflicts", "Reverses", "ManeuverSetsDefined">>
Group4 == <<"LookupsTotal", "LookupSound", "LookupExactFirst", "LookupComplete", "SectionLaneAgree",
            "GroupRoadAgree", "ElementPriority", "RelativeLookupsAgree", "ChildrenInsideParents",
            "DrivableCovered", "RejectConsistent", "SourceLookups">>
Group5 == <<"RoadDirectionTangent", "IntersectionDirectionTangent", "NominalDirections",
            "ShoulderDirection">>
Groups == <<Group1, Group2, Group3, Group4, Group5>>
Conjuncts == Group1 \o Group2 \o Group3 \o Group4 \o Group5

Bad(c, g) ==
  CASE c = "LinksAreElements" -> Bad_LinksAreElements(g)
    [] c = "ManeuverLinksAreElements" -> Bad_ManeuverLinksAreElements(g)
    [] c = "SuccPredAgree" -> Bad_SuccPredAgree(g)
    [] c = "PredSuccAgree" -> Bad_PredSuccAgree(g)
    [] c = "RoadLinksTwoWay" -> Bad_RoadLinksTwoWay(g)
    [] c = "SectionChain" -> Bad_SectionChain(g)
    [] c = "LeftRightReciprocal" -> Bad_LeftRightReciprocal(g)
    [] c = "FasterSlower" -> Bad_FasterSlower(g)
    [] c = "AdjacentSymmetric" -> Bad_AdjacentSymmetric(g)
    [] c = "OppositeReciprocal" -> Bad_OppositeReciprocal(g)
    [] c = "RoadGroups" -> Bad_RoadGroups(g)
    [] c = "GroupLanes" -> Bad_GroupLanes(g)
    [] c = "LaneSections" -> Bad_LaneSections(g)
    [] c = "OwnershipConverse" -> Bad_OwnershipConverse(g)
    [] c = "RoadSectionLanes" -> Bad_RoadSectionLanes(g)
    [] c = "SidewalkShoulder" -> Bad_SidewalkShoulder(g)
    [] c = "NetworkIndex" -> Bad_NetworkIndex(g)
    [] c = "LaneManeuvers" -> Bad_LaneManeuvers(g)
    [] c = "IntersectionManeuvers" -> Bad_IntersectionManeuvers(g)
    [] c = "IncomingOutgoing" -> Bad_IncomingOutgoing(g)
    [] c = "ManeuverChain" -> Bad_ManeuverChain(g)
    [] c = "Conflicts" -> Bad_Conflicts(g)
    [] c = "Reverses" -> Bad_Reverses(g)
    [] c = "ManeuverSetsDefined" -> Bad_ManeuverSetsDefined(g)
    [] c = "LookupsTotal" -> Bad_LookupsTotal(g)
    [] c = "LookupSound" -> Bad_LookupSound(g)
    [] c = "LookupExactFirst" -> Bad_LookupExactFirst(g)
    [] c = "LookupComplete" -> Bad_LookupComplete(g)
    [] c = "SectionLaneAgree" -> Bad_SectionLaneAgree(g)
    [] c = "GroupRoadAgree" -> Bad_GroupRoadAgree(g)
    [] c = "ElementPriority" -> Bad_ElementPriority(g)
    [] c = "RelativeLookupsAgree" -> Bad_RelativeLookupsAgree(g)
    [] c = "ChildrenInsideParents" -> Bad_ChildrenInsideParents(g)
    [] c = "DrivableCovered" -> Bad_DrivableCovered(g)
    [] c = "RejectConsistent" -> Bad_RejectConsistent(g)
    [] c = "SourceLookups" -> Bad_SourceLookups(g)
    [] c = "RoadDirectionTangent" -> Bad_RoadDirectionTangent(g)
    [] c = "IntersectionDirectionTangent" -> Bad_IntersectionDirectionTangent(g)
    [] c = "NominalDirections" -> Bad_NominalDirections(g)
    [] c = "ShoulderDirection" -> Bad_ShoulderDirection(g)

\* the property: the conjunction of all conjuncts
WellFormed(g) == \A j \in DOMAIN Conjuncts : Bad(Conjuncts[j], g) = {}

\* named as-implemented deviations: <<conjunct they excuse, key, trigger predicate>>
Deviations(g) ==
  {d \in {<<"LinksAreElements", "raw-opendrive-id", Dev_RawOpenDriveId(g)>>,
          <<"ManeuverSetsDefined", "reverse-maneuvers-of-merger", Dev_ReverseOfMerger(g)>>} : d[3]}
DevT == [q \in 1..NM |-> {<<d[1], d[2]>> : d \in Deviations(Nets[q])}]

Net == Nets[m]
Entry(c, bad) == [c |-> c, w |-> MinOf(bad), n |-> Cardinality(bad)]
Record(grp) ==
  /\ step' = grp
  /\ audited' = audited \cup Rng(Groups[grp])
  /\ verdict' = verdict \cup {Entry(x[1], x[2]) :
                                 x \in {x \in {<<c, Bad(c, Net)>> : c \in Rng(Groups[grp])} : x[2] # {}}}
  /\ UNCHANGED m

\* one action per conjunct group, in a fixed order (action coverage shows each was exercised)
AuditLinks      == step = 0 /\ Record(1)
AuditOwnership  == step = 1 /\ Record(2)
AuditManeuvers  == step = 2 /\ Record(3)
AuditLookups    == step = 3 /\ Record(4)
AuditDirections == step = 4 /\ Record(5)

Init == m \in 1..NM /\ step = 0 /\ audited = {} /\ verdict = {}
Next == AuditLinks \/ AuditOwnership \/ AuditManeuvers \/ AuditLookups \/ AuditDirections
Spec == Init /\ [][Next]_vars

Done == step = Len(Groups)
Violated == {v.c : v \in verdict}
IsMutant == Net.mut # ""
Excused(c) == IsMutant \/ \E d \in DevT[m] : d[1] = c
Holds(c) == (c \in audited) => (c \notin Violated \/ Excused(c))

TypeOK == /\ m \in 1..NM /\ step \in 0..Len(Groups) /\ audited \subseteq Rng(Conjuncts)
          /\ Violated \subseteq audited
\* one invariant per conjunct, so that TLC names the first violated conjunct
I_LinksAreElements == Holds("LinksAreElements")
I_ManeuverLinksAreElements == Holds("ManeuverLinksAreElements")
I_SuccPredAgree == Holds("SuccPredAgree")
I_PredSuccAgree == Holds("PredSuccAgree")
I_RoadLinksTwoWay == Holds("RoadLinksTwoWay")
I_SectionChain == Holds("SectionChain")
I_LeftRightReciprocal == Holds("LeftRightReciprocal")
I_FasterSlower == Holds("FasterSlower")
I_AdjacentSymmetric == Holds("AdjacentSymmetric")
I_OppositeReciprocal == Holds("OppositeReciprocal")
I_RoadGroups == Holds("RoadGroups")
I_GroupLanes == Holds("GroupLanes")
I_LaneSections == Holds("LaneSections")
I_OwnershipConverse == Holds("OwnershipConverse")
I_RoadSectionLanes == Holds("RoadSectionLanes")
I_SidewalkShoulder == Holds("SidewalkShoulder")
I_NetworkIndex == Holds("NetworkIndex")
I_LaneManeuvers == Holds("LaneManeuvers")
I_IntersectionManeuvers == Holds("IntersectionManeuvers")
I_IncomingOutgoing == Holds("IncomingOutgoing")
I_ManeuverChain == Holds("ManeuverChain")
I_Conflicts == Holds("Conflicts")
I_Reverses == Holds("Reverses")
I_ManeuverSetsDefined == Holds("ManeuverSetsDefined")
I_LookupsTotal == Holds("LookupsTotal")
I_LookupSound == Holds("LookupSound")
I_LookupExactFirst == Holds("LookupExactFirst")
I_LookupComplete == Holds("LookupComplete")
I_SectionLaneAgree == Holds("SectionLaneAgree")
I_GroupRoadAgree == Holds("GroupRoadAgree")
I_ElementPriority == Holds("ElementPriority")
I_RelativeLookupsAgree == Holds("RelativeLookupsAgree")
I_ChildrenInsideParents == Holds("ChildrenInsideParents")
I_DrivableCovered == Holds("DrivableCovered")
I_RejectConsistent == Holds("RejectConsistent")
I_SourceLookups == Holds("SourceLookups")
I_RoadDirectionTangent == Holds("RoadDirectionTangent")
I_IntersectionDirectionTangent == Holds("IntersectionDirectionTangent")
I_NominalDirections == Holds("NominalDirections")
I_ShoulderDirection == Holds("ShoulderDirection")

\* machinery: the inverse index used by Succ/PredSuccAgree is exact (a violation is a harness bug)
I_InverseIndexExact == (step = 0) => InverseIndexExact(Net)
\* sensitivity, checked by TLC itself: a harness-made mutant must be flagged on every conjunct the
\* harness predicted (Net.expect)
I_MutantsCaught == (Done /\ IsMutant) => Rng(Net.expect) \subseteq Violated
\* the verdict is the property: at the end, verdict = {} exactly when WellFormed holds
\* (evaluated only for small networks: it recomputes every conjunct)
I_VerdictIsWellFormed == (Done /\ Net.n <= 80) => ((verdict = {}) <=> WellFormed(Net))

\* one line per network: the verdict record
EmitVerdict ==
  Done => PrintT(ToJson([map |-> Net.name, idx |-> m, mut |-> Net.mut,
                         wellformed |-> verdict = {},
                         violated |-> SetToSeq(verdict),
                         deviations |-> SetToSeq({<<d[1], d[2]>> : d \in DevT[m]}),
                         diag_incoming_not_through |-> Cardinality(Diag_IncomingThroughIntersection(Net)),
                         conjuncts |-> Len(Conjuncts)]))
=============================================================================
