------------------------------ MODULE Sampler ------------------------------
(* C01 (and the sampling half of C02/C15/C18): rejection sampling of a Scenic   *)
(* program of the finite-discrete fragment.                                      *)
(*                                                                              *)
(* Operational machine: one action per critical section of                      *)
(*   Scenario._generateInner / Samplable.sampleAll / Samplable.sample           *)
(* (activation of user requirements once, before the loop; per attempt a        *)
(* depth-first, memoised traversal of Scenario.dependencies; a multiplexer      *)
(* samples its index and ALL of its options; requirement check; accept/reject;  *)
(* exhaustion at maxIterations).                                                 *)
(*                                                                              *)
(* Denotational meaning (from the language reference): every distribution       *)
(* expression is one independent random variable, a name referenced several     *)
(* times is the same variable, resample = a fresh variable sharing the          *)
(* parameters, the scene distribution is the prior conditioned on the           *)
(* requirements, each soft requirement being enforced independently with its    *)
(* probability.  EmitDenot prints, per program, every consistent assignment     *)
(* with its prior weight; the invariants tie the machine to it.                 *)
(*                                                                              *)
(* A program (JSON, one per entry of Progs):                                     *)
(*   nodes : sequence, creation order = topological order; node i is a record   *)
(*           [k |-> kind, a |-> <<node ids>>, c |-> <<integers>>]                *)
(*     const  c=<<v>>            drange a=<<lo,hi>>   (random.randint(lo,hi))    *)
(*     wsel   c=weights          (random.choices(range(n), cum_weights))         *)
(*     mux    a=<<idx,o1..on>>   (Options / Discrete / Uniform)                  *)
(*     add sub mul min max       a=<<x,y>>     neg abs  a=<<x>>                   *)
(*     ite    a=<<c,x,y>>        (x if c else y -- lifted call)                  *)
(*     sel2   a=<<iu,i,elements>> c=<<m>>  (indexing a Uniform over containers)  *)
(*     pick   a=<<x,others>>     (attribute of a random vector)                  *)
(*   roots : node ids in the order of Scenario.dependencies                      *)
(*   outs  : node ids whose values make up the scene (params, object properties) *)
(*   reqs  : sequence of [c |-> condition tree, p |-> <<num,den>>]               *)
(*           tree = <<"lt"|"le"|"eq"|"ne", n1, n2>> | <<"and"|"or", t1, t2>>      *)
(*                | <<"not", t>>                                                  *)
(*   maxIter                                                                     *)
(* Everything that depends only on the program is a constant-level table        *)
(* indexed by the program number, so TLC evaluates it once.                      *)
EXTENDS Integers, Sequences, FiniteSets, TLC, Json, IOUtils, Functions, SequencesExt, FiniteSetsExt

Rat == INSTANCE Rat

Progs == JsonDeserialize(IOEnv.PROGS)
NP == Len(Progs)

VARIABLES pid, pc, k, active, iter, j, val, done, ws, hist
vars == <<pid, pc, k, active, iter, j, val, done, ws, hist>>

NN(q) == Len(Progs[q].nodes)
Node(q, n) == Progs[q].nodes[n]
Kind(q, n) == Progs[q].nodes[n].k
Args(q, n) == Progs[q].nodes[n].a
IsConst(q, n) == Kind(q, n) = "const"
Primitive(q, n) == Kind(q, n) \in {"drange", "drange2", "wsel"}

\* dependencies that are themselves samplable, in the order the code visits them
Deps(q, n) == SelectSeq(Args(q, n), LAMBDA m : ~IsConst(q, m))

(* The traversal of Samplable.sampleAll: for each root not yet sampled, sample   *)
(* its dependencies depth first (each only once), then the node itself.          *)
RECURSIVE Visit(_, _, _), VisitAll(_, _, _)
Visit(q, seq, n) == IF IsConst(q, n) \/ \E i \in 1..Len(seq) : seq[i] = n THEN seq
                    ELSE Append(VisitAll(q, seq, Deps(q, n)), n)
VisitAll(q, seq, ns) == IF ns = <<>> THEN seq ELSE VisitAll(q, Visit(q, seq, Head(ns)), Tail(ns))

OrderT == [q \in 1..NP |-> VisitAll(q, <<>>, Progs[q].roots)]
ConstValT == [q \in 1..NP |-> [n \in 1..NN(q) |-> IF IsConst(q, n) THEN Node(q, n).c[1] ELSE 0]]
ConstSetT == [q \in 1..NP |-> {n \in 1..NN(q) : IsConst(q, n)}]
PrimsT == [q \in 1..NP |-> {n \in 1..NN(q) : Primitive(q, n) /\ \E i \in 1..Len(OrderT[q]) : OrderT[q][i] = n}]
PrimSeqT == [q \in 1..NP |-> SetToSortSeq(PrimsT[q], <)]    \* creation order = a topological order

Min2(a, b) == IF a < b THEN a ELSE b
Max2(a, b) == IF a > b THEN a ELSE b
Abs(a) == IF a < 0 THEN -a ELSE a

\* value of a deterministic node given the values v of its arguments
Det(q, n, v) ==
  LET a == Args(q, n) kd == Kind(q, n) IN
  CASE kd = "mux" -> v[a[v[a[1]] + 2]]
    [] kd = "add" -> v[a[1]] + v[a[2]]
    [] kd = "sub" -> v[a[1]] - v[a[2]]
    [] kd = "mul" -> v[a[1]] * v[a[2]]
    [] kd = "min" -> Min2(v[a[1]], v[a[2]])
    [] kd = "max" -> Max2(v[a[1]], v[a[2]])
    [] kd = "neg" -> -v[a[1]]
    [] kd = "abs" -> Abs(v[a[1]])
    [] kd = "ite" -> IF v[a[1]] # 0 THEN v[a[2]] ELSE v[a[3]]
    \* u[i] for u = Uniform(row_1, .., row_n) over tuples / lists of length m = c[1]: a = <<index of u, i, the
    \* n*m elements row by row>>; Python indexing (a negative i counts from the end).  Every element is an
    \* argument, so all of them are sampled whichever is selected (a multiplexer samples all its options)
    [] kd = "sel2" -> LET m == Node(q, n).c[1]
                          jj == IF v[a[2]] < 0 THEN v[a[2]] + m ELSE v[a[2]]
                      IN v[a[2 + m * v[a[1]] + jj + 1]]
    \* an attribute (coordinate) of a random vector: the value of the first argument; the other coordinates
    \* are arguments too, because the attribute depends on the whole vector
    [] kd = "pick" -> v[a[1]]

RECURSIVE Holds(_, _)
Holds(t, v) ==
  CASE t[1] = "lt" -> v[t[2]] < v[t[3]]
    [] t[1] = "le" -> v[t[2]] <= v[t[3]]
    [] t[1] = "eq" -> v[t[2]] = v[t[3]]
    [] t[1] = "ne" -> v[t[2]] # v[t[3]]
    [] t[1] = "and" -> Holds(t[2], v) /\ Holds(t[3], v)
    [] t[1] = "or" -> Holds(t[2], v) \/ Holds(t[3], v)
    [] t[1] = "not" -> ~Holds(t[2], v)

\* ---- distribution of a primitive node given the values of its parameters
RECURSIVE SumInts(_)
SumInts(s) == IF s = <<>> THEN 0 ELSE Head(s) + SumInts(Tail(s))
\* bounds of a DiscreteRange: the integers between the (possibly fractional) end points.
\* "drange2" has constant bounds given in half units: ceil(lo2/2) .. floor(hi2/2)
Lo(q, n, v) == IF Kind(q, n) = "drange2" THEN -((-Node(q, n).c[1]) \div 2) ELSE v[Args(q, n)[1]]
Hi(q, n, v) == IF Kind(q, n) = "drange2" THEN Node(q, n).c[2] \div 2 ELSE v[Args(q, n)[2]]
Support(q, n, v) == IF Kind(q, n) \in {"drange", "drange2"} THEN Lo(q, n, v)..Hi(q, n, v)
                    ELSE 0..(Len(Node(q, n).c) - 1)
Prob(q, n, x, v) == IF Kind(q, n) \in {"drange", "drange2"}
                    THEN Rat!Of(1, Hi(q, n, v) - Lo(q, n, v) + 1)
                    ELSE Rat!Of(Node(q, n).c[x + 1], SumInts(Node(q, n).c))
RECURSIVE Cum(_, _)
Cum(c, i) == IF i = 0 THEN <<>>
             ELSE LET r == Cum(c, i - 1) IN Append(r, (IF i = 1 THEN 0 ELSE r[i - 1]) + c[i])
\* what the code must ask the random module for
RngCall(q, n, v) == IF Kind(q, n) \in {"drange", "drange2"}
                    THEN [fn |-> "randint", args |-> <<Lo(q, n, v), Hi(q, n, v)>>]
                    ELSE [fn |-> "choices", args |-> Cum(Node(q, n).c, Len(Node(q, n).c))]

Outcome(q, v) == [i \in 1..Len(Progs[q].outs) |-> v[Progs[q].outs[i]]]

\* ------------------------------------------------------------------ machine
Reqs == Progs[pid].reqs
NR == Len(Reqs)
Order == OrderT[pid]

Init == /\ pid \in 1..NP
        /\ pc = "activate" /\ k = 1 /\ active = {} /\ iter = 0 /\ j = 0
        /\ val = ConstValT[pid] /\ done = {}
        /\ ws = <<Rat!One>> /\ hist = <<>>

\* one random.random() per user requirement, hard ones included (prob 1)
Activate(b) ==
  /\ pc = "activate" /\ k <= NR
  /\ LET p == Reqs[k].p IN
       /\ (b => Rat!Pos(p)) /\ (~b => Rat!Lt(p, Rat!One))
       /\ ws' = <<Rat!Mul(ws[1], IF b THEN p ELSE Rat!Sub(Rat!One, p))>>
  /\ active' = IF b THEN active \cup {k} ELSE active
  /\ k' = k + 1
  /\ hist' = Append(hist, [fn |-> "random", args |-> Reqs[k].p, res |-> IF b THEN 1 ELSE 0])
  /\ UNCHANGED <<pid, pc, iter, j, val, done>>

ActivationDone ==
  /\ pc = "activate" /\ k > NR
  /\ pc' = "loop"
  /\ UNCHANGED <<pid, k, active, iter, j, val, done, ws, hist>>

BeginAttempt ==
  /\ pc = "loop"
  /\ IF iter >= Progs[pid].maxIter
     THEN pc' = "exhausted" /\ UNCHANGED <<iter, j, val, done, ws>>
     ELSE /\ iter' = iter + 1 /\ j' = 1 /\ val' = ConstValT[pid]
          /\ done' = ConstSetT[pid]
          /\ ws' = Append(ws, Rat!One) /\ pc' = "sampling"
  /\ UNCHANGED <<pid, k, active, hist>>

Cur == Order[j]
Ready(n) == \A i \in 1..Len(Args(pid, n)) : Args(pid, n)[i] \in done

Draw ==
  /\ pc = "sampling" /\ j <= Len(Order) /\ Primitive(pid, Cur) /\ Cur \notin done /\ Ready(Cur)
  /\ Support(pid, Cur, val) # {}
  /\ \E x \in Support(pid, Cur, val) :
       /\ val' = [val EXCEPT ![Cur] = x] /\ done' = done \cup {Cur}
       /\ ws' = [ws EXCEPT ![Len(ws)] = Rat!Mul(@, Prob(pid, Cur, x, val))]
       /\ hist' = Append(hist, [fn |-> RngCall(pid, Cur, val).fn, args |-> RngCall(pid, Cur, val).args, res |-> x])
  /\ j' = j + 1
  /\ UNCHANGED <<pid, pc, k, active, iter>>

\* DiscreteRange with high < low rejects the attempt (RejectionException in sampleGiven)
EmptyRange ==
  /\ pc = "sampling" /\ j <= Len(Order) /\ Primitive(pid, Cur) /\ Ready(Cur)
  /\ Support(pid, Cur, val) = {}
  /\ pc' = "loop"
  /\ hist' = Append(hist, [fn |-> "empty", args |-> <<Lo(pid, Cur, val), Hi(pid, Cur, val)>>, res |-> 0])
  /\ UNCHANGED <<pid, k, active, iter, j, val, done, ws>>

Compute ==
  /\ pc = "sampling" /\ j <= Len(Order) /\ ~Primitive(pid, Cur) /\ Cur \notin done /\ Ready(Cur)
  /\ val' = [val EXCEPT ![Cur] = Det(pid, Cur, val)] /\ done' = done \cup {Cur}
  /\ j' = j + 1
  /\ UNCHANGED <<pid, pc, k, active, iter, ws, hist>>

AllHold == \A r \in active : Holds(Reqs[r].c, val)

CheckRequirements ==
  /\ pc = "sampling" /\ j > Len(Order)
  /\ pc' = IF AllHold THEN "accepted" ELSE "loop"
  /\ UNCHANGED <<pid, k, active, iter, j, val, done, ws, hist>>

Terminal == pc \in {"accepted", "exhausted"}

Next == \/ \E b \in BOOLEAN : Activate(b)
        \/ ActivationDone \/ BeginAttempt
        \/ Draw \/ EmptyRange \/ Compute \/ CheckRequirements

Spec == Init /\ [][Next]_vars

\* ------------------------------------------------------------------ denotation
RECURSIVE EvalAll(_, _, _)
\* denotational evaluation: values of nodes 1..m under a (partial) assignment asg of the
\* primitive nodes, in creation order; unassigned primitives read as 0 and are never used
\* by the callers before they are assigned
EvalAll(q, m, asg) ==
  IF m = 0 THEN ConstValT[q]
  ELSE LET v == EvalAll(q, m - 1, asg) IN
       IF IsConst(q, m) THEN v
       ELSE IF Primitive(q, m) THEN (IF m \in DOMAIN asg THEN [v EXCEPT ![m] = asg[m]] ELSE v)
       ELSE [v EXCEPT ![m] = Det(q, m, v)]

\* all complete consistent assignments, built primitive by primitive: each value must lie
\* in the support given the earlier ones (an empty support kills the assignment: such a
\* scene does not exist, so it belongs to the rejected mass whatever the sampling order)
RECURSIVE Asgs(_, _)
Asgs(q, i) == IF i = 0 THEN {<<>>}
              ELSE LET n == PrimSeqT[q][i] IN
                   UNION {{a @@ (n :> x) : x \in Support(q, n, EvalAll(q, n - 1, a))} : a \in Asgs(q, i - 1)}
PriorWeight(q, asg) == LET v == EvalAll(q, NN(q), asg) ps == PrimSeqT[q] IN
   Rat!ProdSeq([i \in 1..Len(ps) |-> Prob(q, ps[i], asg[ps[i]], v)])

\* ------------------------------------------------------------------ invariants
TypeOK == /\ pc \in {"activate", "loop", "sampling", "accepted", "exhausted"}
          /\ iter \in 0..Progs[pid].maxIter /\ active \subseteq 1..NR

\* a sampled node keeps its value for the rest of the attempt (once per scene)
DrawnOnce == [][(pc = "sampling" /\ pc' = "sampling") =>
                   \A n \in done : n \in done' /\ val'[n] = val[n]]_vars

\* the denotational values under the primitives drawn so far
DrawnAsg == [n \in PrimsT[pid] \cap done |-> val[n]]
DenVal == EvalAll(pid, NN(pid), DrawnAsg)

\* the operational weight of the current attempt is the product over the drawn primitives
\* of their conditional probability evaluated *denotationally*, and every computed node
\* carries its denotational value
ChainRule ==
  (pc \in {"sampling", "accepted"}) =>
     LET ds == SetToSeq(PrimsT[pid] \cap done) dv == DenVal IN
        /\ ws[Len(ws)] = Rat!ProdSeq([i \in 1..Len(ds) |-> Prob(pid, ds[i], val[ds[i]], dv)])
        /\ \A n \in done : val[n] = dv[n]

ActivationWeight ==
  (pc # "activate") =>
     ws[1] = Rat!ProdSeq([r \in 1..NR |-> IF r \in active THEN Reqs[r].p ELSE Rat!Sub(Rat!One, Reqs[r].p)])

\* accepted exactly on complete assignments satisfying every active requirement
VerdictExact == (pc = "accepted") =>
   /\ \A i \in 1..Len(Order) : Order[i] \in done
   /\ PrimsT[pid] \subseteq done
   /\ LET dv == DenVal IN \A r \in active : Holds(Reqs[r].c, dv)
RejectSound == [][(pc = "sampling" /\ pc' = "loop") =>
                    \/ \E r \in active : ~Holds(Reqs[r].c, DenVal)
                    \/ \E n \in PrimsT[pid] : Ready(n) /\ Support(pid, n, val) = {}]_vars
IterExact == /\ Len(ws) = iter + 1
             /\ (pc = "exhausted") => iter = Progs[pid].maxIter
             /\ iter <= Progs[pid].maxIter
HardAlwaysActive == (pc # "activate") => \A r \in 1..NR : Reqs[r].p = Rat!One => r \in active
\* activation happens once, before the rejection loop
ActivateOnce == [][active' # active => pc = "activate" /\ iter = 0]_vars

\* printed at every terminal state: the behaviour's summary (weights as factor lists)
EmitTerminal ==
  Terminal => PrintT(ToJson([t |-> "term", pid |-> pid,
                              out |-> IF pc = "accepted" THEN Outcome(pid, val) ELSE <<>>,
                              pc |-> pc, iter |-> iter, ws |-> ws, active |-> SetToSeq(active),
                              hist |-> IF IOEnv.PRINT_HIST = "1" THEN hist ELSE <<>>]))

\* printed once per program (at its initial state): the traversal order and the
\* denotational table: every consistent assignment with its prior weight, the scene it
\* denotes and which requirements hold on it
EmitDenot ==
  (pc = "activate" /\ k = 1) =>
     PrintT(ToJson([t |-> "denot", pid |-> pid, order |-> Order,
                    table |-> SetToSeq({LET v == EvalAll(pid, NN(pid), asg) IN
                                        [w |-> PriorWeight(pid, asg), out |-> Outcome(pid, v),
                                         asg |-> [i \in 1..Len(PrimSeqT[pid]) |-> asg[PrimSeqT[pid][i]]],
                                         holds |-> [r \in 1..NR |-> Holds(Reqs[r].c, v)]]
                                        : asg \in Asgs(pid, Len(PrimSeqT[pid]))})]))
=============================================================================
