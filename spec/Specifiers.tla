----------------------------- MODULE Specifiers -----------------------------
(* C06: specifier resolution follows the documented priorities, whatever the    *)
(* order in which the specifiers are written.                                   *)
(*                                                                              *)
(* Two definitions of resolution over an abstract universe:                     *)
(*                                                                              *)
(*   Decl*      the declarative five-step procedure of the language reference   *)
(*              (docs/reference/specifiers.rst, "Specifier Resolution"): a      *)
(*              function of the BAG of specifiers, written with set             *)
(*              quantifiers only;                                               *)
(*   the machine (Start, Normal, Modify, Defaults, Sort, Eval): the algorithm   *)
(*              of Constructible._resolveSpecifiers, one action per loop        *)
(*              iteration of the code, consuming the specifiers IN WRITTEN      *)
(*              ORDER (duplicate-name check; pass over the normal specifiers;   *)
(*              pass over the modifying specifiers; defaults; depth-first       *)
(*              topological sort with _dfs_state; evaluation loop writing the   *)
(*              context).                                                       *)
(*                                                                              *)
(* The universe is data (JSON, IOEnv.UNIVERSE), transcribed by the harness      *)
(* from the DOCUMENTED specifier table (DESIGN.md Appendix E), never from the   *)
(* code:                                                                        *)
(*   specs   : sequence of specifier symbols                                    *)
(*             [id, name, pri: <<[p, n]>>, deps: <<props>> (sorted), ismod,     *)
(*              mod: <<props it may modify>>, novec (on <vector>: cannot act    *)
(*              as a modifier)]                                                 *)
(*   classes : sequence of [id, minlen, maxlen, alphabet: <<symbol indices>>,   *)
(*              rewrite: <<<<from, to>>>> (2D: with heading -> facing),         *)
(*              levels: <<[name, defs: <<[p, deps, additive, final]>>]>>        *)
(*                      most derived first,                                     *)
(*              proporder: <<props>> (order of the class's default table;       *)
(*                      grain only: fixes the DFS root order of the machine)]   *)
(* TLC enumerates, per class, EVERY word (sequence with repetition, so every    *)
(* sub-bag and every permutation of it) of length minlen..maxlen over the        *)
(* alphabet.                                                                    *)
(* A source of a property is an integer: the position (1..N) of a specifier in  *)
(* the written order, or 0 for the class default.  Graph nodes are <<i, "">>    *)
(* for the specifier at position i and <<0, p>> for the default of p.           *)
EXTENDS Integers, Sequences, FiniteSets, TLC, Json, IOUtils, SequencesExt

U == JsonDeserialize(IOEnv.UNIVERSE)
Rng(s) == {s[i] : i \in DOMAIN s}
NS == Len(U.specs)
NC == Len(U.classes)
None == -1

\* ------------------------------------------------------------ constant tables
PriT == [s \in 1..NS |->
           LET l == U.specs[s].pri IN
           [p \in {l[x].p : x \in DOMAIN l} |-> l[CHOOSE x \in DOMAIN l : l[x].p = p].n]]
DepSeqT == [s \in 1..NS |-> U.specs[s].deps]
DepsT == [s \in 1..NS |-> Rng(U.specs[s].deps)]
IsModT == [s \in 1..NS |-> U.specs[s].ismod]
ModT == [s \in 1..NS |-> Rng(U.specs[s].mod)]
NoVecT == [s \in 1..NS |-> U.specs[s].novec]
NameT == [s \in 1..NS |-> U.specs[s].name]

Lv(c) == U.classes[c].levels
HasDef(c, l, p) == \E x \in DOMAIN Lv(c)[l].defs : Lv(c)[l].defs[x].p = p
Entry(c, l, p) == Lv(c)[l].defs[CHOOSE x \in DOMAIN Lv(c)[l].defs : Lv(c)[l].defs[x].p = p]
ClassPropsT == [c \in 1..NC |-> UNION {{Lv(c)[l].defs[x].p : x \in DOMAIN Lv(c)[l].defs} : l \in DOMAIN Lv(c)}]
DefLevels(c, p) == {l \in DOMAIN Lv(c) : HasDef(c, l, p)}
\* the default of the most derived class wins (reference: "default values from
\* subclasses overriding those in superclasses")
PrimaryT == [c \in 1..NC |-> [p \in ClassPropsT[c] |-> CHOOSE l \in DefLevels(c, p) : \A m \in DefLevels(c, p) : l <= m]]
AdditiveT == [c \in 1..NC |-> [p \in ClassPropsT[c] |-> Entry(c, PrimaryT[c][p], p).additive]]
FinalsT == [c \in 1..NC |-> {p \in ClassPropsT[c] : Entry(c, PrimaryT[c][p], p).final}]
RECURSIVE CatDeps(_, _, _)
CatDeps(c, p, l) == IF l > Len(Lv(c)) THEN <<>>
                    ELSE (IF HasDef(c, l, p) THEN Entry(c, l, p).deps ELSE <<>>) \o CatDeps(c, p, l + 1)
\* an additive default is the tuple of the defaults of all levels, so it depends on all of them
DefDepSeqT == [c \in 1..NC |-> [p \in ClassPropsT[c] |->
                 IF AdditiveT[c][p] THEN CatDeps(c, p, 1) ELSE Entry(c, PrimaryT[c][p], p).deps]]
RewriteT == [c \in 1..NC |-> [s \in 1..NS |->
               LET rw == U.classes[c].rewrite IN
               IF \E x \in DOMAIN rw : rw[x][1] = s THEN rw[CHOOSE x \in DOMAIN rw : rw[x][1] = s][2] ELSE s]]
AlphabetT == [c \in 1..NC |-> Rng(U.classes[c].alphabet)]
WordsT == [c \in 1..NC |-> UNION {[1..n -> AlphabetT[c]] : n \in U.classes[c].minlen..U.classes[c].maxlen}]

VARIABLES cls, seq, pc, j, props, prio, modi, err, order, k, ctx, decl
vars == <<cls, seq, pc, j, props, prio, modi, err, order, k, ctx, decl>>

\* the specifiers after Constructible._prepareSpecifiers (identity except in 2D mode)
Prep(c, w) == [i \in DOMAIN w |-> RewriteT[c][w[i]]]
Eseq == Prep(cls, seq)
N == Len(seq)

UNode(i) == <<i, "">>
DNode(p) == <<0, p>>
SrcNode(s, p) == IF s = 0 THEN DNode(p) ELSE UNode(s)
NodeDepSeq(c, es, x) == IF x[1] > 0 THEN DepSeqT[es[x[1]]] ELSE DefDepSeqT[c][x[2]]

\* ===================================================================== Decl
\* The reference's procedure, as a function of the class c and the bag of
\* specifiers es (positions are only names; nothing below looks at their order).
SpecProps(es) == UNION {DOMAIN PriT[es[i]] : i \in DOMAIN es}
AllProps(c, es) == ClassPropsT[c] \cup SpecProps(es)                       \* step 2
Cands(es, p) == {i \in DOMAIN es : p \in DOMAIN PriT[es[i]]}
MayModify(es, i, p) == IsModT[es[i]] /\ p \in ModT[es[i]]
\* step 1: the same property at the same priority by two specifiers is an ambiguity,
\* unless one of them is a modifying specifier that may modify the property
Tie(es, a, b, p) == /\ a # b /\ p \in DOMAIN PriT[es[a]] /\ p \in DOMAIN PriT[es[b]]
                    /\ PriT[es[a]][p] = PriT[es[b]][p]
                    /\ ~(MayModify(es, a, p) \/ MayModify(es, b, p))
DeclTie(es) == \E p \in SpecProps(es) : \E a, b \in DOMAIN es : Tie(es, a, b, p)
\* the same specifier used twice (e.g. `left of A, left of B`) is a special case of step 1
\* (or of "modified twice") for every built-in specifier (lemma DupIsTie below)
DeclDup(es) == \E a, b \in DOMAIN es : a # b /\ NameT[es[a]] = NameT[es[b]]

NormalCands(es, p) == {i \in Cands(es, p) : ~MayModify(es, i, p)}
ModCands(es, p) == {i \in Cands(es, p) : MayModify(es, i, p)}
Better(es, p, i, S) == \A x \in S : PriT[es[i]][p] < PriT[es[x]][p]
\* a modifying specifier specifies the property itself only when nothing else does, or when its
\* priority is strictly higher than that of every ordinary specifier of the property ("If
\* position is not already specified with priority 1 ..."); otherwise it modifies
SpecifyingCands(es, p) == NormalCands(es, p) \cup
                          {m \in ModCands(es, p) : Better(es, p, m, NormalCands(es, p))}
\* step 3: the unique highest-priority specifier, else the default (0)
DWin(es, p) == LET sc == SpecifyingCands(es, p) IN
               IF sc = {} THEN 0
               ELSE CHOOSE i \in sc : \A x \in sc : PriT[es[i]][p] <= PriT[es[x]][p]
Modifiers(es, p) == ModCands(es, p) \ {DWin(es, p)}
\* "no property can be modified twice"; two modifying specifiers competing to specify
\* a property at the same priority are left to step 1 as well (not reachable with `on`)
DeclModTwice(es) == \E p \in SpecProps(es) :
                       \/ Cardinality(Modifiers(es, p)) > 1
                       \/ \E a, b \in SpecifyingCands(es, p) : a # b /\ PriT[es[a]][p] = PriT[es[b]][p]
DMod(es, p) == IF Modifiers(es, p) = {} THEN None ELSE CHOOSE m \in Modifiers(es, p) : TRUE
DeclFinal(c, es) == \E i \in DOMAIN es : DOMAIN PriT[es[i]] \cap FinalsT[c] # {}
DeclConflict(es) == DeclTie(es) \/ DeclModTwice(es)

\* step 4: the dependency graph.  The provider of a property is its modifier if it has one
\* (dependants must see the FINAL value), else the specifier that specifies it.  W and M are
\* the winner / modifier maps of step 3 over the property set P.
Provider(W, M, d) == IF M[d] # None THEN UNode(M[d]) ELSE SrcNode(W[d], d)
Preds(c, es, W, M, P, x) ==
   {Provider(W, M, d) : d \in Rng(NodeDepSeq(c, es, x)) \cap P} \cup
   (IF x[1] > 0 THEN {SrcNode(W[p], p) : p \in {q \in P : M[q] = x[1]}} ELSE {})
RECURSIVE Strip(_, _)
Strip(pr, R) == LET free == {x \in R : pr[x] \cap R = {}} IN
                IF free = {} THEN R ELSE Strip(pr, R \ free)

\* The whole declarative outcome of a bag, computed once per case:
\*   errs  : the kinds of error the reference allows (several defects may coexist: which one is
\*           reported is not specified, so this is a set; empty = the object is well defined)
\*   win   : property -> <<specifying source, modifying source or None>>      (step 3)
\*   edges : <<y, x>> = y must be evaluated before x                          (steps 4-5)
DeclRec(c, es) ==
  LET P == AllProps(c, es)
      fin == IF DeclFinal(c, es) THEN {"final"} ELSE {} IN
  IF DeclConflict(es) THEN [errs |-> {"conflict"} \cup fin, win |-> <<>>, edges |-> {}]
  ELSE LET W == [p \in P |-> DWin(es, p)]
           M == [p \in P |-> DMod(es, p)]
           nodes == {UNode(i) : i \in DOMAIN es} \cup {DNode(p) : p \in {q \in ClassPropsT[c] : W[q] = 0}}
           pr == [x \in nodes |-> Preds(c, es, W, M, P, x)]
           missing == \E x \in nodes : ~(Rng(NodeDepSeq(c, es, x)) \subseteq P)
           cyclic == Strip(pr, nodes) # {}
           \* `on <vector>` cannot be used as a modifier (reference, section on)
           onvec == \E p \in P : M[p] # None /\ NoVecT[es[M[p]]]
           errs == fin \cup (IF missing THEN {"missing"} ELSE {}) \cup (IF cyclic THEN {"cyclic"} ELSE {})
                       \cup (IF onvec THEN {"onvector"} ELSE {}) IN
       [errs |-> errs,
        win |-> IF errs # {} THEN <<>> ELSE [p \in P |-> <<W[p], M[p]>>],
        edges |-> IF errs # {} THEN {} ELSE UNION {{<<y, x>> : y \in pr[x]} : x \in nodes}]

\* the outcome with sources named by SYMBOL (for order-independence statements)
Sym(es, i) == IF i <= 0 THEN i ELSE es[i]
SymOutcome(d, es) ==
   [errs |-> d.errs, win |-> [p \in DOMAIN d.win |-> <<Sym(es, d.win[p][1]), Sym(es, d.win[p][2])>>]]

\* the known deviation's trigger: two specifiers tie on a property at a priority that a
\* third one beats
TieBelowWinner(es) == \E p \in SpecProps(es) : \E a, b, w \in DOMAIN es :
                         /\ Tie(es, a, b, p) /\ w # a /\ w # b
                         /\ p \in DOMAIN PriT[es[w]] /\ PriT[es[w]][p] < PriT[es[a]][p]

\* ===================================================================== machine
Init == /\ cls \in 1..NC /\ seq \in WordsT[cls]
        /\ pc = "start" /\ j = 0 /\ props = <<>> /\ prio = <<>> /\ modi = <<>>
        /\ err = "" /\ order = <<>> /\ k = 0 /\ ctx = <<>>
        /\ decl = [errs |-> {}, win |-> <<>>, edges |-> {}]

Pri(i) == PriT[Eseq[i]]
IsMod(i) == IsModT[Eseq[i]]

\* collections.Counter over the names: "Cannot use X specifier to modify itself"
Start ==
  /\ pc = "start"
  /\ IF \E a, b \in 1..N : a # b /\ NameT[Eseq[a]] = NameT[Eseq[b]]
     THEN err' = "conflict" /\ pc' = "error" /\ j' = j
     ELSE err' = err /\ pc' = "normal" /\ j' = 1
  \* the reference's outcome for this bag: a function of the case only, computed once here
  \* (not in Init: TLC computes initial states on a single thread)
  /\ decl' = DeclRec(cls, Eseq)
  /\ UNCHANGED <<cls, seq, props, prio, modi, order, k, ctx>>

\* one iteration of `for spec in normal_specifiers` (a modifying specifier is skipped)
Normal ==
  /\ pc = "normal"
  /\ IF j > N THEN pc' = "modify" /\ j' = 1 /\ UNCHANGED <<props, prio, err>>
     ELSE IF IsMod(j) THEN j' = j + 1 /\ UNCHANGED <<pc, props, prio, err>>
     ELSE LET ps == DOMAIN Pri(j) IN
          IF ps \cap FinalsT[cls] # {}
          THEN err' = "final" /\ pc' = "error" /\ UNCHANGED <<j, props, prio>>
          ELSE IF \E p \in ps : p \in DOMAIN props /\ Pri(j)[p] = prio[p]
          THEN err' = "conflict" /\ pc' = "error" /\ UNCHANGED <<j, props, prio>>
          ELSE LET take == {p \in ps : p \notin DOMAIN props \/ Pri(j)[p] < prio[p]} IN
               /\ props' = [p \in DOMAIN props \cup take |-> IF p \in take THEN j ELSE props[p]]
               /\ prio' = [p \in DOMAIN prio \cup take |-> IF p \in take THEN Pri(j)[p] ELSE prio[p]]
               /\ j' = j + 1 /\ UNCHANGED <<pc, err>>
  /\ UNCHANGED <<cls, seq, modi, order, k, ctx, decl>>

\* one iteration of `for spec in modifying_specifiers`
Modify ==
  /\ pc = "modify"
  /\ IF j > N THEN pc' = "defaults" /\ UNCHANGED <<j, props, prio, modi, err>>
     ELSE IF ~IsMod(j) THEN j' = j + 1 /\ UNCHANGED <<pc, props, prio, modi, err>>
     ELSE LET ps == DOMAIN Pri(j)
              take == {p \in ps : p \notin DOMAIN props \/ Pri(j)[p] < prio[p]}
              md == {p \in ps \ take : p \in ModT[Eseq[j]]} IN
          IF md \cap DOMAIN modi # {}
          THEN err' = "conflict" /\ pc' = "error" /\ UNCHANGED <<j, props, prio, modi>>
          ELSE /\ props' = [p \in DOMAIN props \cup take |-> IF p \in take THEN j ELSE props[p]]
               /\ prio' = [p \in DOMAIN prio \cup take |-> IF p \in take THEN Pri(j)[p] ELSE prio[p]]
               /\ modi' = [p \in DOMAIN modi \cup md |-> IF p \in md THEN j ELSE modi[p]]
               /\ j' = j + 1 /\ UNCHANGED <<pc, err>>
  /\ UNCHANGED <<cls, seq, order, k, ctx, decl>>

\* `for prop, default_spec in defaults.items(): if prop not in priorities: ...`
Defaults ==
  /\ pc = "defaults"
  /\ props' = [p \in DOMAIN props \cup ClassPropsT[cls] |-> IF p \in DOMAIN prio THEN props[p] ELSE 0]
  /\ pc' = "sort"
  /\ UNCHANGED <<cls, seq, j, prio, modi, err, order, k, ctx, decl>>

\* the depth-first topological sort (dfs with _dfs_state 0/1/2)
Roots == [i \in 1..N |-> UNode(i)] \o
         SelectSeq([x \in DOMAIN U.classes[cls].proporder |-> DNode(U.classes[cls].proporder[x])],
                   LAMBDA x : x[2] \in DOMAIN props /\ props[x[2]] = 0)
Child(d) == IF d \in DOMAIN modi THEN UNode(modi[d])
            ELSE IF d \in DOMAIN props THEN SrcNode(props[d], d)
            ELSE <<None, "">>
RECURSIVE Dfs(_, _), DfsDeps(_, _)
Dfs(x, S) ==
  IF S.err # "" \/ x \in S.done THEN S
  ELSE IF x \in S.open THEN [S EXCEPT !.err = "cyclic"]
  ELSE LET S1 == DfsDeps(NodeDepSeq(cls, Eseq, x), [S EXCEPT !.open = @ \cup {x}])
           mp == IF x[1] > 0 THEN {p \in DOMAIN modi : modi[p] = x[1]} ELSE {}
           S2 == IF S1.err = "" /\ mp # {}
                 THEN Dfs(SrcNode(props[CHOOSE p \in mp : TRUE], CHOOSE p \in mp : TRUE), S1)
                 ELSE S1 IN
       IF S2.err # "" THEN S2
       ELSE [S2 EXCEPT !.done = @ \cup {x}, !.order = Append(@, x)]
DfsDeps(ds, S) ==
  IF ds = <<>> \/ S.err # "" THEN S
  ELSE LET ch == Child(Head(ds)) IN
       IF ch[1] = None THEN [S EXCEPT !.err = "missing"]
       ELSE DfsDeps(Tail(ds), Dfs(ch, S))
RECURSIVE DfsAll(_, _)
DfsAll(rs, S) == IF rs = <<>> THEN S ELSE DfsAll(Tail(rs), Dfs(Head(rs), S))

Sort ==
  /\ pc = "sort"
  /\ LET r == DfsAll(Roots, [open |-> {}, done |-> {}, order |-> <<>>, err |-> ""]) IN
     IF r.err # "" THEN err' = r.err /\ pc' = "error" /\ UNCHANGED <<order, k>>
     ELSE order' = r.order /\ pc' = "eval" /\ k' = 1 /\ err' = err
  /\ UNCHANGED <<cls, seq, j, props, prio, modi, ctx, decl>>

\* one iteration of `for spec in order`: the specifier is evaluated in the current context
\* and the properties it actually specifies / modifies are written.
\* ctx[p] = <<source that specified p, source that modified p or None>>
Eval ==
  /\ pc = "eval"
  /\ IF k > Len(order) THEN pc' = "done" /\ UNCHANGED <<k, ctx, err>>
     ELSE LET x == order[k]
              sp == {p \in DOMAIN props : SrcNode(props[p], p) = x}
              mp == IF x[1] > 0 THEN {p \in DOMAIN modi : modi[p] = x[1]} ELSE {} IN
          IF x[1] > 0 /\ mp # {} /\ NoVecT[Eseq[x[1]]]
          THEN err' = "onvector" /\ pc' = "error" /\ UNCHANGED <<k, ctx>>
          ELSE /\ ctx' = [p \in DOMAIN ctx \cup sp \cup mp |->
                            IF p \in sp THEN <<props[p], None>>
                            ELSE IF p \in mp THEN <<(IF p \in DOMAIN ctx THEN ctx[p][1] ELSE -2), x[1]>>
                            ELSE ctx[p]]
               /\ k' = k + 1 /\ UNCHANGED <<pc, err>>
  /\ UNCHANGED <<cls, seq, j, props, prio, modi, order, decl>>

Terminal == pc \in {"done", "error"}
Next == Start \/ Normal \/ Modify \/ Defaults \/ Sort \/ Eval
Spec == Init /\ [][Next]_vars

\* ===================================================================== lemmas
TypeOK == /\ pc \in {"start", "normal", "modify", "defaults", "sort", "eval", "done", "error"}
          /\ (pc = "error") = (err # "")
          /\ DOMAIN prio \subseteq DOMAIN props /\ DOMAIN modi \subseteq DOMAIN props

Final(p) == <<props[p], IF p \in DOMAIN modi THEN modi[p] ELSE None>>
\* every specifier is evaluated only after all properties it depends on are FINAL, and a
\* modifier only after the value it modifies exists
EvalSeesFinal ==
  (pc = "eval" /\ k <= Len(order)) =>
     LET x == order[k] IN
     /\ \A d \in Rng(NodeDepSeq(cls, Eseq, x)) : d \in DOMAIN ctx /\ ctx[d] = Final(d)
     /\ x[1] > 0 => \A p \in DOMAIN modi : modi[p] = x[1] => (p \in DOMAIN ctx /\ ctx[p] = <<props[p], None>>)
\* a property is written once, then modified at most once
WrittenOnce == [][\A p \in DOMAIN ctx : /\ p \in DOMAIN ctx'
                                        /\ \/ ctx'[p] = ctx[p]
                                           \/ (ctx[p][2] = None /\ ctx'[p][1] = ctx[p][1])]_vars
Pos(s, x) == CHOOSE i \in DOMAIN s : s[i] = x
\* each property ends with exactly one specifying specifier (plus at most one modifier), every
\* specifier (given or default) is evaluated exactly once
ExactlyOne ==
  (pc = "done") =>
     /\ DOMAIN ctx = AllProps(cls, Eseq)
     /\ \A p \in DOMAIN ctx : ctx[p] = Final(p) /\ ctx[p][1] \in 0..N /\ ctx[p][2] \in {None} \cup 1..N
     /\ Len(order) = N + Cardinality({p \in DOMAIN props : props[p] = 0})
     /\ \A a, b \in DOMAIN order : a # b => order[a] # order[b]

\* the machine agrees with the declarative procedure
Conforms ==
  IF pc = "error" THEN err \in decl.errs
  ELSE /\ decl.errs = {}
       /\ \A p \in AllProps(cls, Eseq) : ctx[p] = decl.win[p]
       /\ \A e \in decl.edges : Pos(order, e[1]) < Pos(order, e[2])
\* ... except for the named as-implemented deviation: the tie check of the normal pass only
\* fires when the tie is seen before a higher-priority specifier of the same property
DiffExplained == (Terminal /\ ~Conforms) => TieBelowWinner(Eseq)
\* the declarative outcome does not depend on the written order (checked once per case, on
\* the canonical sorted permutation; sources named by symbol)
SortedSeq == SortSeq(Eseq, <)
DeclOrderIndependent ==
  Terminal => SymOutcome(decl, Eseq) = SymOutcome(DeclRec(cls, SortedSeq), SortedSeq)
\* a specifier used twice always conflicts with itself: it ties on everything it specifies, and
\* two `on` would compete to specify/modify position (so the duplicate check adds no new error)
DupIsTie == Terminal => (DeclDup(Eseq) => DeclConflict(Eseq))
\* the outcome of the reference is total: an error set or a winner for every property
DeclTotal == (pc # "start") => ((decl.errs = {}) = (DOMAIN decl.win = AllProps(cls, Eseq)))

\* ===================================================================== output
Flat(e) == <<e[1][1], e[1][2], e[2][1], e[2][2]>>
Emit ==
  Terminal =>
    LET es == Eseq
        de == decl.errs
        conf == Conforms
        full == IOEnv.C06_FULL = "1" \/ N = 0 IN
    PrintT(ToJson(
      [c |-> cls, w |-> seq,
       de |-> SetToSeq(de),
       dw |-> IF de # {} THEN <<>> ELSE SetToSeq({<<p, decl.win[p][1], decl.win[p][2]>> : p \in SpecProps(es)}),
       ed |-> SetToSeq({Flat(e) : e \in {f \in decl.edges : full \/ f[1][1] > 0 \/ f[2][1] > 0}}),
       ie |-> err,
       diff |-> ~conf,
       trig |-> TieBelowWinner(es),
       iw |-> IF conf \/ pc = "error" THEN <<>> ELSE SetToSeq({<<p, ctx[p][1], ctx[p][2]>> : p \in SpecProps(es)}),
       io |-> IF conf \/ pc = "error" THEN <<>> ELSE order]))
=============================================================================
