------------------------------ MODULE Temporal ------------------------------
(* C11: temporal requirements accept exactly the traces satisfying the formula.   *)
(*                                                                                *)
(* Meaning (docs/reference/operators.rst "Temporal Operators", statements.rst     *)
(* "require LTL formula", and the property text): a requirement is a formula over *)
(* atomic conditions; a run of its scenario gives a finite trace of valuations,   *)
(* one per time step from the step the statement takes effect to the last step of *)
(* the scenario; the run is accepted iff Sat(f, trace, 1) under the finite-trace  *)
(* semantics with STRONG next and STRONG until; it may be rejected earlier only   *)
(* when Doomed (no continuation of the prefix satisfies f), and must be rejected  *)
(* at once for `always g`, g non-temporal, in the first step where g is false.    *)
(*                                                                                *)
(* Sat is the textbook definition.  Mon is a transcription of the incremental     *)
(* four-valued monitor Scenic uses (third-party rv_ltl: B4 lattice, UntilMonitor  *)
(* with its index arithmetic) with a switch: impl = TRUE transcribes the code as  *)
(* it is, impl = FALSE is the same algorithm with the until scan corrected.  TLC   *)
(* checks the lemmas tying them together and computes where the as-implemented    *)
(* monitor departs from the semantics (trigger predicate UntilAtOffset).           *)
(*                                                                                *)
(* Grain (from the code): scene generation evaluates a top-level requirement once *)
(* on the initial state and rejects the scene iff the verdict is FALSE; then each *)
(* time step feeds one valuation (the initial state again in step 0) and rejects  *)
(* iff FALSE; when the scenario stops the run is rejected iff the last verdict is *)
(* falsy.  A requirement in the setup block of a sub-scenario started at run time *)
(* has no generation check.  A `require` executed inside a compose block takes     *)
(* effect in the step in which it is executed: if the compose block has taken `off` *)
(* steps before (off `wait`s), the steps 1..off of the scenario are not observed   *)
(* at all and the trace the requirement sees runs from step off+1 to the last step  *)
(* of its scenario; `off` is a parameter of every case (0 for a requirement of the  *)
(* scenario's definition or setup block), and Sat / Doomed / Mon only ever see that *)
(* window `tr`.                                                                    *)
(*                                                                                *)
(* The module also prints every formula as Scenic text (Show(f, FALSE): fewest    *)
(* parentheses under the grammar's precedence; Show(f, TRUE): every composite     *)
(* operand parenthesised); the harness compiles both and the tree Scenic builds   *)
(* must be the formula.                                                            *)
(*                                                                                *)
(* Input (JSON, env BATCH): [forms |-> <<formula,...>>, maxlen |-> n, extra |-> h,  *)
(*   lemmas |-> 0/1, offsets |-> <<0, ...>>, maxlenoff |-> m]                       *)
(*   (windows of up to n steps for offset 0, up to m steps for the other offsets)   *)
(*   formula = <<"atom","a"|"b">> | <<"not"|"next"|"always"|"eventually", f>>       *)
(*           | <<"and"|"or"|"implies"|"until", f, g>>                               *)
EXTENDS Integers, Sequences, FiniteSets, TLC, Json, IOUtils

Batch == JsonDeserialize(IOEnv.BATCH)
Forms == Batch.forms
NF == Len(Forms)
MaxLen == Batch.maxlen
Extra == Batch.extra          \* Doomed looks Depth(f) + Extra steps ahead
Lemmas == Batch.lemmas = 1    \* also evaluate the expensive lemmas
Offsets == {Batch.offsets[i] : i \in 1..Len(Batch.offsets)}   \* steps before the statement takes effect
MaxLenAt(k) == IF k = 0 THEN MaxLen ELSE Batch.maxlenoff

Atoms == {"a", "b"}
Vals == [Atoms -> BOOLEAN]
Code(v) == (IF v["a"] THEN 1 ELSE 0) + (IF v["b"] THEN 2 ELSE 0)

Unary == {"not", "next", "always", "eventually"}
Binary == {"and", "or", "implies", "until"}
Prefix == {"next", "always", "eventually"}

Min2(x, y) == IF x < y THEN x ELSE y
Max2(x, y) == IF x > y THEN x ELSE y
MinOf(S) == CHOOSE k \in S : \A m \in S : k <= m

RECURSIVE WellFormed(_), Depth(_), NonTemporal(_)
WellFormed(f) == CASE f[1] = "atom" -> Len(f) = 2 /\ f[2] \in Atoms
                   [] f[1] \in Unary -> Len(f) = 2 /\ WellFormed(f[2])
                   [] f[1] \in Binary -> Len(f) = 3 /\ WellFormed(f[2]) /\ WellFormed(f[3])
                   [] OTHER -> FALSE
Depth(f) == CASE f[1] = "atom" -> 0
              [] f[1] \in Unary -> 1 + Depth(f[2])
              [] OTHER -> 1 + Max2(Depth(f[2]), Depth(f[3]))
NonTemporal(f) == CASE f[1] = "atom" -> TRUE
                    [] f[1] = "not" -> NonTemporal(f[2])
                    [] f[1] \in {"and", "or", "implies"} -> NonTemporal(f[2]) /\ NonTemporal(f[3])
                    [] OTHER -> FALSE

ASSUME \A q \in 1..NF : WellFormed(Forms[q])
ASSUME 0 \in Offsets /\ \A k \in Offsets : k \in 0..8 /\ MaxLenAt(k) <= MaxLen

\* ------------------------------------------------------------------ semantics
(* Strong finite-trace semantics.  tr is a non-empty sequence of valuations,      *)
(* 1 <= i <= Len(tr).                                                              *)
RECURSIVE Sat(_, _, _)
Sat(f, tr, i) ==
  CASE f[1] = "atom"       -> tr[i][f[2]]
    [] f[1] = "not"        -> ~Sat(f[2], tr, i)
    [] f[1] = "and"        -> Sat(f[2], tr, i) /\ Sat(f[3], tr, i)
    [] f[1] = "or"         -> Sat(f[2], tr, i) \/ Sat(f[3], tr, i)
    [] f[1] = "implies"    -> Sat(f[2], tr, i) => Sat(f[3], tr, i)
    [] f[1] = "next"       -> i + 1 <= Len(tr) /\ Sat(f[2], tr, i + 1)
    [] f[1] = "always"     -> \A k \in i..Len(tr) : Sat(f[2], tr, k)
    [] f[1] = "eventually" -> \E k \in i..Len(tr) : Sat(f[2], tr, k)
    [] f[1] = "until"      -> \E k \in i..Len(tr) : /\ Sat(f[3], tr, k)
                                                    /\ \A j \in i..(k - 1) : Sat(f[2], tr, j)

\* no continuation of at most h further steps (the empty one included) satisfies f
DoomedH(f, pre, h) == \A n \in 0..h : \A c \in [1..n -> Vals] : ~Sat(f, pre \o c, 1)
Doomed(f, pre) == DoomedH(f, pre, Depth(f) + Extra)
\* every such continuation satisfies f
Assured(f, pre) == Doomed(<<"not", f>>, pre)

\* the one shape for which immediate rejection is demanded
DemandShape(f) == f[1] = "always" /\ NonTemporal(f[2])

\* ------------------------------------------------------------------ the monitor
(* B4 as integers: 4 TRUE, 3 PRESUMABLY_TRUE, 2 PRESUMABLY_FALSE, 1 FALSE;        *)
(* not = 5 - v, and = min, or = max (rv_ltl/b4.py).                               *)
Truthy(v) == v >= 3
Falsy(v) == v <= 2

(* rv_ltl UntilMonitor._evaluate_at(i), indices shifted to 1-based (last = Len):   *)
(*   for k in range(i, last+1): v = rhs(k); if not truthy: continue                *)
(*       result = v; for j in range(i, min(i + k, last)): result &= lhs(j)         *)
(*       return result                                                             *)
(*   return PRESUMABLY_FALSE                                                       *)
(* 0-based range(i, min(i+k, last)) is 1-based i..(Min(i+k-1, last) - 1); the     *)
(* scan that the semantics asks for is i..k-1.  lv, rv: values of the operands at  *)
(* every index i..last.                                                            *)
UntilVal(lv, rv, i, last, impl) ==
  LET ks == {k \in i..last : Truthy(rv[k])} IN
  IF ks = {} THEN 2
  ELSE LET k == MinOf(ks)
           hi == IF impl THEN Min2(i + k - 1, last) - 1 ELSE k - 1
           js == {lv[j] : j \in i..hi}
       IN IF js = {} THEN rv[k] ELSE Min2(rv[k], MinOf(js))

RECURSIVE Mon(_, _, _, _)
Mon(f, tr, i, impl) ==
  LET last == Len(tr) IN
  CASE f[1] = "atom"       -> IF tr[i][f[2]] THEN 4 ELSE 1
    [] f[1] = "not"        -> 5 - Mon(f[2], tr, i, impl)
    [] f[1] = "and"        -> Min2(Mon(f[2], tr, i, impl), Mon(f[3], tr, i, impl))
    [] f[1] = "or"         -> Max2(Mon(f[2], tr, i, impl), Mon(f[3], tr, i, impl))
    \* ImpliesMonitor = Or(Not lhs, rhs)
    [] f[1] = "implies"    -> Max2(5 - Mon(f[2], tr, i, impl), Mon(f[3], tr, i, impl))
    \* NextMonitor: the future is PRESUMABLY_FALSE
    [] f[1] = "next"       -> IF i + 1 > last THEN 2 ELSE Mon(f[2], tr, i + 1, impl)
    [] f[1] = "until"      -> UntilVal([j \in i..last |-> Mon(f[2], tr, j, impl)],
                                       [k \in i..last |-> Mon(f[3], tr, k, impl)], i, last, impl)
    \* EventuallyMonitor = Until(TRUE, op)
    [] f[1] = "eventually" -> UntilVal([j \in i..last |-> 4],
                                       [k \in i..last |-> Mon(f[2], tr, k, impl)], i, last, impl)
    \* AlwaysMonitor = Not(Eventually(Not(op)))
    [] f[1] = "always"     -> 5 - UntilVal([j \in i..last |-> 4],
                                           [k \in i..last |-> 5 - Mon(f[2], tr, k, impl)], i, last, impl)

(* Trigger of the known finding: an `until` that is evaluated at an offset > 0,    *)
(* i.e. one that lies under next / always / eventually / until.                    *)
RECURSIVE UAO(_, _)
UAO(f, under) ==
  CASE f[1] = "atom"    -> FALSE
    [] f[1] = "until"   -> under \/ UAO(f[2], TRUE) \/ UAO(f[3], TRUE)
    [] f[1] \in Prefix  -> UAO(f[2], TRUE)
    [] f[1] = "not"     -> UAO(f[2], under)
    [] OTHER            -> UAO(f[2], under) \/ UAO(f[3], under)
UntilAtOffset(f) == UAO(f, FALSE)

\* ------------------------------------------------------------------ concrete syntax
(* Precedence as scenic.gram has it (and as the reference's examples need it):     *)
(*   until  <  next/always/eventually (operand extends as far right as possible,   *)
(*   up to `until`) and implies (non-associative; conclusion may be a prefix       *)
(*   formula)  <  or  <  and  <  not  <  atom / parenthesised group.               *)
(* A printed operand that ends in an unparenthesised prefix operator ("right       *)
(* open") swallows whatever follows, so it may only stand last or before `until`.  *)
(* p = [s |-> tokens, lvl |-> 0 until, 1 implies/prefix, 2 or, 3 and, 4 not, 5 atom,*)
(*      ro |-> right open, bad |-> contains `( temporal ) implies`]                *)
RECURSIVE HasGroupBreaker(_)
HasGroupBreaker(f) == CASE f[1] = "atom" -> FALSE
                        [] f[1] \in {"next", "always", "eventually", "until", "implies"} -> TRUE
                        [] f[1] = "not" -> HasGroupBreaker(f[2])
                        [] OTHER -> HasGroupBreaker(f[2]) \/ HasGroupBreaker(f[3])

Paren(s) == <<"(">> \o s \o <<")">>
\* is p usable bare at a position that needs level >= lvl (or a prefix formula if pre),
\* where `last` says nothing but `until`, `)` or the end follows
Bare(p, lvl, pre, last) == (p.lvl >= lvl \/ (pre /\ p.pre)) /\ (last \/ ~p.ro)

RECURSIVE Show(_, _)
Show(f, full) ==
  LET Put(g, lvl, pre, last) ==
        LET p == Show(g, full)
            bare == IF full THEN g[1] = "atom" ELSE Bare(p, lvl, pre, last)
        IN [s |-> IF bare THEN p.s ELSE Paren(p.s), ro |-> bare /\ p.ro, bad |-> p.bad, par |-> ~bare]
  IN
  CASE f[1] = "atom" -> [s |-> <<f[2]>>, lvl |-> 5, pre |-> FALSE, ro |-> FALSE, bad |-> FALSE]
    [] f[1] \in Prefix ->
         LET x == Put(f[2], 1, TRUE, TRUE)
         IN [s |-> <<f[1]>> \o x.s, lvl |-> 1, pre |-> TRUE, ro |-> TRUE, bad |-> x.bad]
    [] f[1] = "not" ->
         LET x == Put(f[2], 4, TRUE, TRUE)
         IN [s |-> <<"not">> \o x.s, lvl |-> 4, pre |-> FALSE, ro |-> x.ro, bad |-> x.bad]
    [] f[1] = "until" ->
         LET x == Put(f[2], 1, TRUE, TRUE)  y == Put(f[3], 1, TRUE, TRUE)
         IN [s |-> x.s \o <<"until">> \o y.s, lvl |-> 0, pre |-> FALSE, ro |-> y.ro, bad |-> x.bad \/ y.bad]
    [] f[1] = "implies" ->
         LET x == Put(f[2], 2, FALSE, FALSE)  y == Put(f[3], 2, TRUE, TRUE)
         IN [s |-> x.s \o <<"implies">> \o y.s, lvl |-> 1, pre |-> FALSE, ro |-> y.ro,
             bad |-> x.bad \/ y.bad \/ (x.par /\ HasGroupBreaker(f[2]))]
    [] f[1] = "or" ->
         LET x == Put(f[2], 2, FALSE, FALSE)  y == Put(f[3], 3, TRUE, TRUE)
         IN [s |-> x.s \o <<"or">> \o y.s, lvl |-> 2, pre |-> FALSE, ro |-> y.ro, bad |-> x.bad \/ y.bad]
    [] f[1] = "and" ->
         LET x == Put(f[2], 3, FALSE, FALSE)  y == Put(f[3], 4, TRUE, TRUE)
         IN [s |-> x.s \o <<"and">> \o y.s, lvl |-> 3, pre |-> FALSE, ro |-> y.ro, bad |-> x.bad \/ y.bad]

\* ------------------------------------------------------------------ enumeration
(* off: number of steps of the scenario that pass before the requirement takes     *)
(* effect; skipped: how many of them have passed; tr: the window observed so far.  *)
VARIABLES fid, off, skipped, tr, pc, rejImpl, rejMon, doomAt, demandAt
vars == <<fid, off, skipped, tr, pc, rejImpl, rejMon, doomAt, demandAt>>

F == Forms[fid]

Init == /\ fid \in 1..NF /\ off \in Offsets /\ skipped = 0 /\ tr = <<>> /\ pc = "start"
        /\ rejImpl = 0 /\ rejMon = 0 /\ doomAt = 0 /\ demandAt = 0

First(old, cond, n) == IF old # 0 THEN old ELSE IF cond THEN n ELSE 0

\* a step of the scenario before the statement is executed: nothing is observed
Wait ==
  /\ pc = "start" /\ skipped < off
  /\ skipped' = skipped + 1
  /\ UNCHANGED <<fid, off, tr, pc, rejImpl, rejMon, doomAt, demandAt>>

\* one more time step is observed (the first one is the step in which the statement
\* takes effect: the initial state for off = 0)
Observe(v) ==
  /\ pc \in {"start", "run"} /\ skipped = off /\ Len(tr) < MaxLenAt(off)
  /\ LET t == Append(tr, v)
         n == Len(tr) + 1
         mi == Mon(F, t, 1, TRUE)
         mc == Mon(F, t, 1, FALSE)
         \* with Lemmas the licence is recomputed from the definition in every state (so
         \* that DoomMonotone and RejectSound say something); without, the two lemmas are
         \* used as short cuts
         dm == IF Lemmas THEN Doomed(F, t) ELSE (doomAt # 0 \/ mc = 1 \/ Doomed(F, t))
     IN
       /\ tr' = t
       /\ rejImpl' = First(rejImpl, mi = 1, n)
       /\ rejMon' = First(rejMon, mc = 1, n)
       /\ doomAt' = IF dm THEN (IF doomAt # 0 THEN doomAt ELSE n) ELSE 0
       /\ demandAt' = First(demandAt, DemandShape(F) /\ ~Sat(F[2], t, n), n)
  /\ pc' = "run"
  /\ UNCHANGED <<fid, off, skipped>>

\* the scenario stops here: the verdict is due
Stop == /\ pc = "run" /\ pc' = "end"
        /\ UNCHANGED <<fid, off, skipped, tr, rejImpl, rejMon, doomAt, demandAt>>

Next == Wait \/ (\E v \in Vals : Observe(v)) \/ Stop
Spec == Init /\ [][Next]_vars

\* ------------------------------------------------------------------ outcomes
L == Len(tr)
\* what Scenic's loop does with a monitor whose first FALSE came at step r (0: never)
\* and whose value on the whole trace is v; a top-level requirement whose first
\* verdict is FALSE loses its scene at generation
Outcome(r, v) == IF r # 0 THEN [k |-> "rej", at |-> r, gen |-> r = 1]
                 ELSE IF Falsy(v) THEN [k |-> "rej", at |-> L, gen |-> FALSE]
                 ELSE [k |-> "acc", at |-> L, gen |-> FALSE]
ImplOutcome == Outcome(rejImpl, Mon(F, tr, 1, TRUE))
MonOutcome == Outcome(rejMon, Mon(F, tr, 1, FALSE))

\* ------------------------------------------------------------------ lemmas (invariants)
TypeOK == /\ pc \in {"start", "run", "end"} /\ Len(tr) <= MaxLenAt(off)
          /\ off \in Offsets /\ skipped \in 0..off
          /\ rejImpl \in 0..MaxLen /\ rejMon \in 0..MaxLen /\ doomAt \in 0..MaxLen /\ demandAt \in 0..MaxLen

\* nothing is observed, and nothing can be rejected, before the statement takes effect
NothingBeforeEffect == skipped < off => (pc = "start" /\ tr = <<>> /\ rejImpl = 0 /\ rejMon = 0 /\ doomAt = 0)

(* The lemmas below speak about (F, tr) only -- the offset never reaches Sat, Doomed or Mon -- *)
(* so they are evaluated once per (F, tr): in the states with off = 0 (AtBase).                *)
AtBase == off = 0

\* the corrected monitor is exact: truthy iff satisfied, at every index
MonitorExact == (pc = "run" /\ AtBase) => \A i \in 1..L : Truthy(Mon(F, tr, i, FALSE)) = Sat(F, tr, i)
\* evaluated from the first step the as-implemented monitor agrees unless the trigger holds
ImplExactUnlessTrigger == (pc = "run" /\ AtBase /\ ~UntilAtOffset(F)) =>
                             Mon(F, tr, 1, TRUE) = Mon(F, tr, 1, FALSE)
\* an early rejection by the corrected monitor is licensed
RejectSound == rejMon # 0 => (doomAt # 0 /\ doomAt <= rejMon)
\* a doomed prefix is not satisfied as it stands
DoomSound == (pc = "run" /\ AtBase /\ doomAt # 0) => ~Sat(F, tr, 1)
\* once doomed, always doomed (checked for real only with Lemmas)
DoomMonotone == [][doomAt # 0 => doomAt' = doomAt]_vars
\* the look-ahead of Doomed is long enough: one more step changes nothing (the shorter
\* continuations are covered by doomAt itself)
HorizonStable == (Lemmas /\ pc = "run" /\ AtBase /\ doomAt # 0) =>
                    \A c \in [1..(Depth(F) + Extra + 1) -> Vals] : ~Sat(F, tr \o c, 1)
\* definite TRUE from the corrected monitor means every continuation satisfies f
TrueIsAssured == (Lemmas /\ pc = "run" /\ AtBase /\ Mon(F, tr, 1, FALSE) = 4) => Assured(F, tr)
\* for `always g`, g non-temporal: doomed exactly from the first step where g is false,
\* and the corrected monitor rejects in that very step
DemandExact == DemandShape(F) => (doomAt = demandAt /\ rejMon = demandAt)
\* non-temporal formulas only look at the current step
CurrentStepOnly == (pc = "run" /\ AtBase /\ NonTemporal(F)) => \A i \in 1..L : Sat(F, tr, i) = Sat(F, <<tr[i]>>, 1)

G == Forms[(fid % NF) + 1]      \* a second formula for the binary laws
Taut == <<"or", <<"atom", "a">>, <<"not", <<"atom", "a">>>>>>
Dualities ==
  (pc = "run" /\ AtBase) => \A i \in 1..L :
     /\ Sat(<<"always", F>>, tr, i) = ~Sat(<<"eventually", <<"not", F>>>>, tr, i)
     /\ Sat(<<"eventually", F>>, tr, i) = Sat(<<"until", Taut, F>>, tr, i)
     /\ Sat(<<"implies", F, G>>, tr, i) = Sat(<<"or", <<"not", F>>, G>>, tr, i)
     /\ Sat(<<"not", <<"and", F, G>>>>, tr, i) = Sat(<<"or", <<"not", F>>, <<"not", G>>>>, tr, i)
     \* expansion laws; the strong operators fail at the last step
     /\ Sat(<<"until", F, G>>, tr, i) =
           (Sat(G, tr, i) \/ (Sat(F, tr, i) /\ i < L /\ Sat(<<"until", F, G>>, tr, i + 1)))
     /\ Sat(<<"always", F>>, tr, i) = (Sat(F, tr, i) /\ (i = L \/ Sat(<<"always", F>>, tr, i + 1)))
     /\ Sat(<<"next", F>>, tr, L) = FALSE
     /\ (i < L => Sat(<<"not", <<"next", F>>>>, tr, i) = Sat(<<"next", <<"not", F>>>>, tr, i))
     \* the monitor computes the same for the derived forms
     /\ Mon(<<"always", F>>, tr, i, FALSE) = 5 - Mon(<<"eventually", <<"not", F>>>>, tr, i, FALSE)

\* the as-implemented outcome departs from the corrected one only under the trigger
DiffOnlyUnderTrigger == (pc = "end" /\ ImplOutcome # MonOutcome) => UntilAtOffset(F)
\* the corrected monitor gives the verdict the semantics asks for
OutcomeVerdict == pc = "end" => ((MonOutcome.k = "acc") = Sat(F, tr, 1))

\* ------------------------------------------------------------------ output
\* once per formula: its Scenic texts and static facts
EmitForm ==
  (pc = "start" /\ off = 0) =>
    LET m == Show(F, FALSE)  u == Show(F, TRUE) IN
    PrintT(ToJson([t |-> "form", fid |-> fid, min |-> m.s, full |-> u.s,
                   minbad |-> m.bad, fullbad |-> u.bad, depth |-> Depth(F),
                   uao |-> UntilAtOffset(F), nontemporal |-> NonTemporal(F),
                   demand |-> DemandShape(F)]))

\* once per (formula, offset, window): the verdict, the licence for early rejection, the
\* demand, and what the monitor as implemented does; steps (doom, demand, at) are counted
\* in the window, i.e. step j of the window is step off + j of the scenario
EmitCase ==
  pc = "end" =>
    PrintT(ToJson([t |-> "case", fid |-> fid, off |-> off, tr |-> [i \in 1..L |-> Code(tr[i])],
                   sat |-> Sat(F, tr, 1), doom |-> doomAt, demand |-> demandAt,
                   impl |-> <<ImplOutcome.k, ImplOutcome.at>>,
                   mon |-> <<MonOutcome.k, MonOutcome.at>>]))
=============================================================================
