------------------------------ MODULE Visibility ------------------------------
(* C17 -- visibility respects the view volume and occlusion.                    *)
(*                                                                              *)
(* Meaning (docs/reference/visibility.rst, operators.rst "can see",             *)
(* classes.rst: visibleDistance, viewAngles, cameraOffset):                     *)
(*   - the camera of a viewer sits at  position + orientation * cameraOffset    *)
(*     (cameraOffset is given in the viewer's OWN frame; Points and             *)
(*     OrientedPoints have no offset);                                          *)
(*   - something is in the view volume when, seen from the camera IN THE        *)
(*     VIEWER'S OWN ORIENTATION, it is within visibleDistance and its azimuth   *)
(*     (anticlockwise from the viewer's +Y) lies within +-viewAngles[0]/2 and   *)
(*     its altitude within +-viewAngles[1]/2; a Point sees the whole sphere;    *)
(*   - "visible if any ray (within viewAngles) collides with it (within         *)
(*     visibleDistance) without colliding with an occluding object first".      *)
(* For a POINT target this is an exact specification:                            *)
(*     CanSee = InViewVolume /\ ~Blocked.                                       *)
(* For an OBJECT target (finitely many rays) only three clauses are demanded:   *)
(*     wholly outside the view volume            => not visible                 *)
(*     every line of sight walled off by ONE box => not visible                 *)
(*     wholly inside and nothing near the sight cone => visible                 *)
(* and anything else is free.  Adding an occluder never turns "not visible"     *)
(* into "visible".  Configurations ON a boundary (edge of a window, exactly at  *)
(* visibleDistance, a sight line grazing a face/edge/corner) are free.          *)
(*                                                                              *)
(* The sub-universe (DESIGN.md 1.4): a scene TEMPLATE is drawn in the camera    *)
(* frame on the quarter lattice (target point or box, 0-2 occluder boxes with   *)
(* cube-group rotations); it is turned by a relative cube rotation Q, then      *)
(* placed in the world by the viewer pose: position (away from the origin),     *)
(* orientation R = (Pythagorean or quarter-turn yaw) * cube rotation, camera    *)
(* offset.  World coordinates are carried scaled by 4*den(R), viewer-frame      *)
(* coordinates (obtained with the INVERSE orientation) by 4*den(R)^2.           *)
(* TLC enumerates templates x Q x R x viewer parameters x occluder prefixes.    *)
(*                                                                              *)
(* JSON input (IOEnv.VIS): [tpls, qs, rs, vps]                                  *)
(*   tpls[i] = [tk |-> "pt"|"box", tp |-> <<x,y,z>>, te |-> <<ky,kp,kr>>,       *)
(*              th |-> half-dimensions, occ |-> << [p, e, h], ... >>]           *)
(*   qs[i]   = <<ky,kp,kr>>               (quarter turns)                        *)
(*   rs[i]   = [yq |-> <<c,s,d>>, e |-> <<ky,kp,kr>>]                           *)
(*   vps[i]  = [vk |-> "P"|"OP"|"O", pos, cam, d, h, v]   (h in 90..360, v in   *)
(*              {90,180}; lengths scaled by 4)                                  *)
(*   mode    = "3D" | "2D"                                                      *)
EXTENDS Integers, Sequences, FiniteSets, TLC, Json, IOUtils, Lat3

D == JsonDeserialize(IOEnv.VIS)
Tpls == D.tpls
Qs == D.qs
Rs == D.rs
VPs == D.vps
Mode == D.mode                 \* "3D" | "2D" (2D compatibility classes: Point2D, OrientedPoint2D, Object2D)
NT == Len(Tpls)
NQ == Len(Qs)
NR == Len(Rs)
NV == Len(VPs)

VARIABLES pc, ti, qi, ri, vi, k, ans, impl, g
vars == <<pc, ti, qi, ri, vi, k, ans, impl, g>>
\* pc = "pick" (template and Q chosen), "placed" (viewer chosen, geometry g computed),
\* "case" (answers for the first k occluders computed)

\* ---- constant-level tables (recursive builders: cached by TLC, see the note in Lat3.tla)
ROf(r) == QMul(QYaw(Rs[r].yq[1], Rs[r].yq[2], Rs[r].yq[3]), QOf(FromEuler4(Rs[r].e)))
RT == BuildSeq(ROf, NR)                                   \* viewer orientations (rational: m / d)
RInvOf(r) == Transpose(RT[r].m)
RTI == BuildSeq(RInvOf, NR)                               \* their inverses (times d)
RCOf(r) == FromEuler4(Rs[r].e)
RCT == BuildSeq(RCOf, NR)                                 \* cube part of the viewer orientation
QOfQ(q) == FromEuler4(Qs[q])
QT == BuildSeq(QOfQ, NQ)
RQRow(r) == BuildSeq(LAMBDA q : Mul(RT[r].m, QT[q]), NQ)
RQT == BuildSeq(RQRow, NR)                                \* R * Q (times d)
CQRow(r) == BuildSeq(LAMBDA q : Mul(RCT[r], QT[q]), NQ)
CQT == BuildSeq(CQRow, NR)                                \* cube part of R * Q
TEOf(t) == FromEuler4(Tpls[t].te)
TE == BuildSeq(TEOf, NT)
OERow(t) == BuildSeq(LAMBDA j : FromEuler4(Tpls[t].occ[j].e), Len(Tpls[t].occ))
OE == BuildSeq(OERow, NT)

Tpl == Tpls[ti]
VP == VPs[vi]
R == RT[ri]
QQ == QT[qi]
Den == R.d
K2 == Den * Den
NOcc == Len(Tpl.occ)
DD == K2 * VP.d                                         \* visibleDistance in the viewer-frame scale

\* ---- placement of the template in the world and its image in the viewer's frame.
\* World (scale 4*d): forward map, local -> global is Apply(R, .):
\*     camera = position + R * cameraOffset;   body centre = camera + R * Q * l;
\*     body orientation = R * Q * E.
\* Viewer's frame (scale 4*d^2): the INVERSE orientation applied to (P - camera), and to the
\* body orientation.  A body whose orientation relative to the viewer is a cube rotation is an
\* axis-aligned box there.
Body(cam, rq, rinv, cq, p, eM, h) ==
  LET w == VAdd(cam, Apply(rq, p))
      wr == Mul(rq, eM)
      rel == Mul(rinv, wr)
      lc == Apply(rinv, VSub(w, cam))
      hw == Apply(AbsM(rel), h)
  IN [w |-> w, wr |-> wr, rel |-> rel, lc |-> lc, cube |-> Mul(cq, eM),
      box |-> [lo |-> VSub(lc, hw), hi |-> VAdd(lc, hw)]]
Geometry(r, v) ==
  LET cam == VAdd(VScale(RT[r].d, VPs[v].pos), Apply(RT[r].m, VPs[v].cam))
  IN [cam |-> cam,
      t |-> Body(cam, RQT[r][qi], RTI[r], CQT[r][qi], Tpl.tp, TE[ti], Tpl.th),
      o |-> BuildSeq(LAMBDA j : Body(cam, RQT[r][qi], RTI[r], CQT[r][qi], Tpl.occ[j].p, OE[ti][j], Tpl.occ[j].h), NOcc)]
CamW == g.cam
LocalOf(P) == Apply(RTI[ri], VSub(P, CamW))            \* world point -> viewer's frame
TgtL == g.t.lc
TgtBox == g.t.box
OccBox(j) == g.o[j].box

\* ---- windows (homogeneous integer inequalities on a viewer-frame vector l)
AzClass(h, l) ==
  CASE h = 360 -> "in"
    [] h = 180 -> IF l[2] > 0 THEN "in" ELSE IF l[2] < 0 THEN "out" ELSE "edge"
    [] h = 90 -> IF AbsI(l[1]) < l[2] THEN "in" ELSE IF AbsI(l[1]) > l[2] THEN "out" ELSE "edge"
    [] h = 270 -> IF AbsI(l[1]) > -l[2] THEN "in" ELSE IF AbsI(l[1]) < -l[2] THEN "out" ELSE "edge"
AltClass(v, l) ==
  CASE v = 180 -> "in"
    [] v = 90 -> LET a == l[3] * l[3] b == l[1] * l[1] + l[2] * l[2] IN
                 IF a < b THEN "in" ELSE IF a > b THEN "out" ELSE "edge"
DistClass(l) == LET n == Norm2(l) IN IF n < DD * DD THEN "in" ELSE IF n > DD * DD THEN "out" ELSE "edge"
Tri(cs) == IF "out" \in cs THEN "F" ELSE IF cs = {"in"} THEN "T" ELSE "free"
InViewVolume(l) == Tri({AzClass(VP.h, l), AltClass(VP.v, l), DistClass(l)})

\* ---- occlusion of the sight line camera -> l by the first n occluders
SightClass(l, j) == IF InBoxClosed(Zero3, OccBox(j)) \/ InBoxClosed(l, OccBox(j)) THEN "touch"
                    ELSE SegBox(Zero3, l, OccBox(j))
Blocked(l, n) == LET cs == {SightClass(l, j) : j \in 1..n} IN
                 IF "through" \in cs THEN "T" ELSE IF cs \subseteq {"miss"} THEN "F" ELSE "free"

\* ---- points: exact
PointAns(l, n) == LET vw == InViewVolume(l) bl == Blocked(l, n) IN
                  IF vw = "F" \/ bl = "T" THEN "F" ELSE IF vw = "T" /\ bl = "F" THEN "T" ELSE "free"

\* ---- objects: three clauses on the 8 corners of the target box in the viewer's frame
TC == Corners(TgtBox)
OutAz(h) == CASE h = 360 -> FALSE
              [] h = 180 -> \A c \in TC : c[2] < 0
              [] h = 90 -> \/ \A c \in TC : c[2] < 0
                           \/ \A c \in TC : c[2] < c[1]
                           \/ \A c \in TC : c[2] < -c[1]
              [] h = 270 -> \A c \in TC : c[2] < c[1] /\ c[2] < -c[1]
OutAlt(v) == CASE v = 180 -> FALSE
               [] v = 90 -> \/ \A c \in TC : c[3] > 0 /\ c[3] * c[3] > c[1] * c[1] + c[2] * c[2]
                            \/ \A c \in TC : c[3] < 0 /\ c[3] * c[3] > c[1] * c[1] + c[2] * c[2]
\* elongated targets: the part of the box inside an angular window may lie wholly beyond visibleDistance
\* although the nearest point of the box is in range (but outside the window).  Lower bounds of the distance
\* of (box /\ window): inside a 90 degree horizontal window y > |x| >= min|x|, inside a 180 degree one y > 0;
\* inside a 90 degree vertical window x^2 + y^2 >= z^2 >= (min|z|)^2.
MinAbs(lo, hi) == IF lo > 0 THEN lo ELSE IF hi < 0 THEN -hi ELSE 0
BoxMinAbs(ax) == MinAbs(TgtBox.lo[ax], TgtBox.hi[ax])
OutClipAz(h) == h \in {90, 180} /\
                LET ym == MaxI(TgtBox.lo[2], IF h = 90 THEN BoxMinAbs(1) ELSE 0) IN
                ym * ym + BoxMinAbs(1) * BoxMinAbs(1) + BoxMinAbs(3) * BoxMinAbs(3) > DD * DD
OutClipAlt(v) == v = 90 /\
                 LET r2 == BoxMinAbs(1) * BoxMinAbs(1) + BoxMinAbs(2) * BoxMinAbs(2)
                     z2 == BoxMinAbs(3) * BoxMinAbs(3) IN
                 (IF r2 > z2 THEN r2 ELSE z2) + z2 > DD * DD
WhollyOutside == Dist2PointBox(Zero3, TgtBox) > DD * DD \/ OutAz(VP.h) \/ OutAlt(VP.v)
                 \/ OutClipAz(VP.h) \/ OutClipAlt(VP.v)
InAz(h) == CASE h = 360 -> TRUE
             [] h = 180 -> \A c \in TC : c[2] > 0
             [] h = 90 -> \A c \in TC : c[2] > c[1] /\ c[2] > -c[1]
             [] h = 270 -> (\A c \in TC : c[2] > c[1]) \/ (\A c \in TC : c[2] > -c[1])
InAlt(v) == CASE v = 180 -> TRUE
              [] v = 90 -> \/ \A c \in TC : AbsI(c[3]) < c[2]
                           \/ \A c \in TC : AbsI(c[3]) < -c[2]
                           \/ \A c \in TC : AbsI(c[3]) < c[1]
                           \/ \A c \in TC : AbsI(c[3]) < -c[1]
WhollyInside == MaxDist2PointBox(Zero3, TgtBox) < DD * DD /\ InAz(VP.h) /\ InAlt(VP.v)
                /\ ~InBoxClosed(Zero3, TgtBox)
\* one occluder through which every sight line to the target passes (the set of points whose
\* sight line meets a convex body is convex, so the 8 corners decide)
WalledBy(j) == /\ ~InBoxClosed(Zero3, OccBox(j)) /\ ~BoxesMeet(TgtBox, OccBox(j))
               /\ \A c \in TC : SegThroughBox(Zero3, c, OccBox(j))
Walled(n) == \E j \in 1..n : WalledBy(j)
\* no occluder near the sight cone: it misses the bounding box of camera + target
Unoccluded(n) == \A j \in 1..n : ~BoxesMeet(BoxWithPoint(TgtBox, Zero3), OccBox(j))
BoxAns(n) == IF WhollyOutside \/ Walled(n) THEN "F"
             ELSE IF WhollyInside /\ Unoccluded(n) THEN "T" ELSE "free"

Answer(n) == IF Tpl.tk = "pt" THEN PointAns(TgtL, n) ELSE BoxAns(n)
\* a corner of the target box lies exactly on a boundary plane of the angular windows: a touching
\* configuration (the implementation may then refuse to answer: `assert h_size > 0`); don't-care
EdgeTouch == Tpl.tk = "box" /\ \E c \in TC : AzClass(VP.h, c) = "edge" \/ AltClass(VP.v, c) = "edge"

\* ---- visibleRegion.containsPoint (a mesh approximation of the view volume, ignoring occlusion):
\* demanded only with a 25% margin on the curved faces (sphere, altitude cone)
VRAnsD(l, dd) ==
  LET n == Norm2(l) dq == dd \div 4
      a == l[3] * l[3] b == l[1] * l[1] + l[2] * l[2]
      az == AzClass(VP.h, l)
      dOut == n > 25 * dq * dq
      dIn == n < 9 * dq * dq
      altOut == VP.v = 90 /\ 3 * a > 4 * b
      altIn == VP.v = 180 \/ 4 * a < 3 * b
  IN IF az = "out" \/ dOut \/ altOut THEN "F" ELSE IF az = "in" /\ dIn /\ altIn THEN "T" ELSE "free"
VRAns(l) == VRAnsD(l, DD)
\* named as-implemented deviation (known finding "point-visible-region-radius"): Point.visibleRegion
\* is built as SpheroidRegion(dimensions = (d, d, d)); dimensions are diameters, so the sphere has
\* radius visibleDistance / 2 although the reference says "radius visibleDistance".
VRAsImpl(l) == IF VP.vk = "P" THEN VRAnsD(l, DD \div 2) ELSE VRAns(l)

\* ---- named as-implemented deviation (known finding "point-viewer-rotation-order"):
\* visibility.canSee, point branch, rotates the TARGET about the world origin by the inverse
\* orientation and only then subtracts the camera position (R^-1 p - c instead of R^-1 (p - c)).
\* The angular windows are tested on that vector and the occlusion ray is mis-directed as well;
\* the distance test uses the true distance.  An Object target is first tested through its centre
\* with the same code ("if we can see the centre, the object is visible").
LocalAsImpl(P) == VSub(Apply(RTI[ri], P), VScale(Den, CamW))
DeviationTrigger == Apply(R.m, CamW) # VScale(Den, CamW)          \* R * camera # camera
PointAsImpl(P, n) ==
  LET lb == LocalAsImpl(P) IN
  IF DistClass(LocalOf(P)) = "out" THEN "F"
  ELSE IF lb = Zero3 THEN "free"
  ELSE IF AzClass(VP.h, lb) = "out" \/ AltClass(VP.v, lb) = "out" THEN "F"
  ELSE IF n = 0 /\ AzClass(VP.h, lb) = "in" /\ AltClass(VP.v, lb) = "in" /\ DistClass(LocalOf(P)) = "in" THEN "T"
  ELSE "free"
\* named as-implemented deviation (known finding "sector-polygon-wide-angle"): in 2D mode, without
\* occluders, an Object target is tested with visibleRegion.polygons.intersects(boundingPolygon); the
\* polygon of a SectorRegion is disc & kite(centre, left end, point 2r ahead, right end), which is a
\* proper subset of the sector for every angle > 120 degrees: a box inside the view sector can be missed.
SectorPolygonTrigger == Mode = "2D" /\ Tpl.tk = "box" /\ VP.vk # "P" /\ VP.h \in {180, 270}
\* which deviation (if any) governs the answer with n occluders.  The 2D classes use the exact sector
\* test / the polygon test when there is no occluder and fall back to the 3D code otherwise.
DevKey(n) == IF Mode = "2D" /\ n = 0 THEN (IF SectorPolygonTrigger THEN "sector-polygon-wide-angle" ELSE "none")
             ELSE IF DeviationTrigger THEN "point-viewer-rotation-order" ELSE "none"
AsImplemented(n) ==
  LET dk == DevKey(n) IN
  IF dk = "none" THEN Answer(n)
  ELSE IF dk = "sector-polygon-wide-angle" THEN (IF Answer(n) = "T" THEN "free" ELSE Answer(n))
  ELSE IF Tpl.tk = "pt" THEN PointAsImpl(g.t.w, n)
  ELSE LET c == PointAsImpl(g.t.w, n) IN IF c = "F" THEN Answer(n) ELSE c

\* ------------------------------------------------------------------ machine
Compatible(v, r) == VPs[v].vk = "P" => (r = 1 /\ VPs[v].h = 360 /\ VPs[v].v = 180)
Init == /\ pc = "pick" /\ ti \in 1..NT /\ qi \in 1..NQ
        /\ ri = 0 /\ vi = 0 /\ k = 0 /\ ans = "free" /\ impl = "free" /\ g = <<>>
Place == /\ pc = "pick"
         /\ \E r \in 1..NR, v \in 1..NV :
               /\ Compatible(v, r)
               /\ ri' = r /\ vi' = v /\ g' = Geometry(r, v)
         /\ pc' = "placed"
         /\ UNCHANGED <<ti, qi, k, ans, impl>>
Judge == /\ pc = "placed"
         /\ pc' = "case"
         /\ ans' = Answer(0) /\ impl' = AsImplemented(0)
         /\ UNCHANGED <<ti, qi, ri, vi, k, g>>
AddOccluder == /\ pc = "case" /\ k < NOcc
               /\ k' = k + 1
               /\ ans' = Answer(k + 1) /\ impl' = AsImplemented(k + 1)
               /\ UNCHANGED <<pc, ti, qi, ri, vi, g>>
Next == Place \/ Judge \/ AddOccluder
Spec == Init /\ [][Next]_vars

\* ------------------------------------------------------------------ invariants
Tri3 == {"T", "F", "free"}
Placed == pc # "pick"
TypeOK == /\ pc \in {"pick", "placed", "case"} /\ ans \in Tri3 /\ impl \in Tri3
          /\ ti \in 1..NT /\ qi \in 1..NQ /\ (Placed => ri \in 1..NR /\ vi \in 1..NV /\ k \in 0..NOcc)
WellFormed == (pc = "placed") =>
              /\ IsQRot(R) /\ RotIndex(QQ) > 0
              /\ (Rs[1].yq = <<1, 0, 1>> /\ RCT[1] = Ident3)
              /\ VP.h \in {90, 180, 270, 360} /\ VP.v \in {90, 180} /\ VP.d > 0 /\ VP.d % 4 = 0
              /\ (VP.vk # "O" => VP.cam = Zero3)
              /\ \A i \in 1..3 : Tpl.th[i] > 0
\* frame lemmas (checked on every placed case): the inverse orientation undoes the placement;
\* rotations preserve lengths; a body with a cube-group rotation relative to the viewer is
\* axis-aligned in the viewer's frame; the Euler angles handed to the implementation denote the
\* world orientation the spec used
Bodies == {g.t} \cup {g.o[j] : j \in 1..NOcc}
TemplateOf(b) == IF b = g.t THEN [p |-> Tpl.tp, eM |-> TE[ti]]
                 ELSE LET j == CHOOSE j \in 1..NOcc : g.o[j] = b IN [p |-> Tpl.occ[j].p, eM |-> OE[ti][j]]
FrameLemmas == (pc = "placed") =>
   \A b \in Bodies :
      /\ b.lc = VScale(K2, Apply(QQ, TemplateOf(b).p))                       \* round trip
      /\ b.lc = LocalOf(b.w)
      /\ Norm2(b.lc) = K2 * Norm2(VSub(b.w, CamW))                           \* rigid
      /\ b.rel = MScale(K2, Mul(QQ, TemplateOf(b).eM))                       \* axis-aligned for the viewer
      /\ Mul(RotZ(Rs[ri].yq[1], Rs[ri].yq[2], Rs[ri].yq[3]), Rot24Seq[RotIndex(b.cube)]) = b.wr   \* emitted pose
      /\ CamW = VAdd(VScale(Den, VP.pos), Apply(R.m, VP.cam))
\* the three object clauses never contradict each other ...
ClausesConsistent == (pc = "case" /\ Tpl.tk = "box") =>
                        /\ ~(WhollyOutside /\ WhollyInside)
                        /\ ~(Walled(k) /\ Unoccluded(k))
\* ... nor the exact point specification: a visible point of the target forbids "not visible"
PointBoxCoherent == (pc = "case" /\ Tpl.tk = "box" /\ ans = "F") =>
                       \A c \in TC \cup {TgtL} : PointAns(c, k) # "T"
\* the view volume contains the camera's forward axis and nothing behind a 90/180 degree camera
ForwardSeen == (pc = "placed") =>
               LET f == <<0, MinI(DD \div 2, 4 * K2), 0>> IN
               /\ InViewVolume(f) = "T"
               /\ (VP.h \in {90, 180} => InViewVolume(VNeg(f)) = "F")
               /\ (VP.h = 270 => InViewVolume(VNeg(f)) = "F" /\ InViewVolume(<<-f[2], 0, 0>>) = "T")
               /\ (VP.v = 90 => InViewVolume(<<0, 0, f[2]>>) = "F")
\* the deviation only differs from the ideal where its trigger holds
DeviationScoped == (pc = "case" /\ DevKey(k) = "none") => impl = ans
\* adding an occluder never turns "not visible" into "visible"
Monotone == [][(pc = "case" /\ pc' = "case") => ((ans = "F" => ans' = "F") /\ (ans' = "T" => ans = "T"))]_vars

\* ------------------------------------------------------------------ output
BodyPose(b, h) == [p |-> b.w, e |-> EulerOf(b.cube), h |-> h]
Emit == (pc = "case") => PrintT(ToJson(
          [c |-> <<ti, qi, ri, vi>>, k |-> k, ans |-> ans, impl |-> impl, dev |-> DevKey(k),
           vr |-> IF Tpl.tk = "pt" /\ k = 0 THEN VRAns(TgtL) ELSE "free",
           vri |-> IF Tpl.tk = "pt" /\ k = 0 THEN VRAsImpl(TgtL) ELSE "free",
           den |-> Den, edge |-> EdgeTouch,
           tgt |-> IF k = 0 THEN BodyPose(g.t, Tpl.th) ELSE [p |-> <<>>, e |-> <<>>, h |-> <<>>],
           occ |-> IF k = 0 THEN [j \in 1..NOcc |-> BodyPose(g.o[j], Tpl.occ[j].h)] ELSE <<>>,
           cam |-> CamW]))
=============================================================================
