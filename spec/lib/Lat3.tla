-------------------------------- MODULE Lat3 --------------------------------
(* Exact 3-D geometry on an integer lattice (DESIGN.md 1.4, A.10).            *)
(*                                                                            *)
(* Coordinates are integers: the caller scales real coordinates by 2, 4 or 8  *)
(* (half / quarter / eighth units) and, when a rational rotation with         *)
(* denominator d is involved, additionally by d (or d^2).  Nothing here       *)
(* depends on the scale: every predicate is homogeneous.                      *)
(*                                                                            *)
(* Orientations.  The reference manual (docs/reference/data.rst "Heading",    *)
(* "Orientation"; docs/tutorials/fundamentals.rst "Orientations in Depth")    *)
(* fixes the convention, which is defined ONCE here:                          *)
(*   - right-handed axes, X = right/East, Y = ahead/North, Z = up;            *)
(*   - a heading is measured anticlockwise from North: heading 0 is +Y and    *)
(*     heading pi/2 is due West (-X);                                         *)
(*   - Euler angles are (yaw, pitch, roll) = intrinsic rotations about Z,     *)
(*     then the resulting X, then the resulting Y, all counter-clockwise      *)
(*     (right-hand rule);                                                     *)
(*   - an orientation maps LOCAL coordinates to GLOBAL ones: the global       *)
(*     direction of the local vector v is Apply(M, v); composition "first A,  *)
(*     then B in A's frame" is Mul(A, B).                                     *)
(* Hence FromEuler(yaw,pitch,roll) = RotZ(yaw) * RotX(pitch) * RotY(roll).    *)
(*                                                                            *)
(* A matrix is a triple of rows.  Rotations of the cube group (all angles     *)
(* multiples of 90 degrees) are the 24 signed permutation matrices of         *)
(* determinant 1.  A rational rotation is a record [m |-> M, d |-> den]       *)
(* meaning M/den (e.g. yaw with cos = 3/5, sin = 4/5).                        *)
(*                                                                            *)
(* Module-level lemmas are stated as ASSUMEs, so TLC re-checks them every     *)
(* time any specification using this library is run.                          *)
EXTENDS Integers, Sequences, FiniteSets

\* ------------------------------------------------------------------ vectors
Zero3 == <<0, 0, 0>>
Ex == <<1, 0, 0>>
Ey == <<0, 1, 0>>
Ez == <<0, 0, 1>>
AbsI(x) == IF x < 0 THEN -x ELSE x
MinI(a, b) == IF a < b THEN a ELSE b
MaxI(a, b) == IF a > b THEN a ELSE b
SgnI(x) == IF x < 0 THEN -1 ELSE IF x > 0 THEN 1 ELSE 0
VAdd(a, b) == <<a[1] + b[1], a[2] + b[2], a[3] + b[3]>>
VSub(a, b) == <<a[1] - b[1], a[2] - b[2], a[3] - b[3]>>
VNeg(a) == <<-a[1], -a[2], -a[3]>>
VScale(k, a) == <<k * a[1], k * a[2], k * a[3]>>
VAbs(a) == <<AbsI(a[1]), AbsI(a[2]), AbsI(a[3])>>
Dot(a, b) == a[1] * b[1] + a[2] * b[2] + a[3] * b[3]
Norm2(a) == Dot(a, a)
Cross(a, b) == <<a[2] * b[3] - a[3] * b[2], a[3] * b[1] - a[1] * b[3], a[1] * b[2] - a[2] * b[1]>>

\* ------------------------------------------------------------------ matrices
Ident3 == <<Ex, Ey, Ez>>
Apply(M, v) == <<Dot(M[1], v), Dot(M[2], v), Dot(M[3], v)>>
Col(M, j) == <<M[1][j], M[2][j], M[3][j]>>
Transpose(M) == <<Col(M, 1), Col(M, 2), Col(M, 3)>>
MRow(A, B, i) == <<Dot(A[i], Col(B, 1)), Dot(A[i], Col(B, 2)), Dot(A[i], Col(B, 3))>>
Mul(A, B) == <<MRow(A, B, 1), MRow(A, B, 2), MRow(A, B, 3)>>
MScale(k, M) == <<VScale(k, M[1]), VScale(k, M[2]), VScale(k, M[3])>>
AbsM(M) == <<VAbs(M[1]), VAbs(M[2]), VAbs(M[3])>>
Det3(M) == Dot(M[1], Cross(M[2], M[3]))

\* ------------------------------------------------------------------ the cube group (definition)
\* TLC note: a zero-arity definition is evaluated once and cached ONLY if no bound variable
\* (quantifier, set/function constructor, CHOOSE) occurs anywhere below it; otherwise it is
\* re-evaluated at every use.  The definitional sets below are therefore used in the lemmas only;
\* specifications use the cached tables Rot24Seq / Rot24 defined further down with recursive
\* builders (no bound variables), and LemmaTables ties the two together.
Perms3 == {<<1, 2, 3>>, <<1, 3, 2>>, <<2, 1, 3>>, <<2, 3, 1>>, <<3, 1, 2>>, <<3, 2, 1>>}
Signs3 == {<<a, b, c>> : a \in {-1, 1}, b \in {-1, 1}, c \in {-1, 1}}
UnitRow(j, s) == <<IF j = 1 THEN s ELSE 0, IF j = 2 THEN s ELSE 0, IF j = 3 THEN s ELSE 0>>
SignedPerm3 == {<<UnitRow(p[1], s[1]), UnitRow(p[2], s[2]), UnitRow(p[3], s[3])>> : p \in Perms3, s \in Signs3}
Rot24Def == {M \in SignedPerm3 : Det3(M) = 1}
Inverse(M) == Transpose(M)          \* orthogonal matrices only

\* builders without bound variables (their results are cached by TLC)
RECURSIVE BuildSeq(_, _)
BuildSeq(f(_), n) == IF n = 0 THEN <<>> ELSE Append(BuildSeq(f, n - 1), f(n))
RECURSIVE SeqToSetN(_, _)
SeqToSetN(s, n) == IF n = 0 THEN {} ELSE SeqToSetN(s, n - 1) \cup {s[n]}

\* ------------------------------------------------------------------ the documented Euler convention
\* elementary rotations, counter-clockwise about the positive axis, scaled by d:
\* (c, s, d) stands for cos = c/d, sin = s/d
RotZ(c, s, d) == <<<<c, -s, 0>>, <<s, c, 0>>, <<0, 0, d>>>>
RotX(c, s, d) == <<<<d, 0, 0>>, <<0, c, -s>>, <<0, s, c>>>>
RotY(c, s, d) == <<<<c, 0, s>>, <<0, d, 0>>, <<-s, 0, c>>>>
\* quarter turns: k * 90 degrees
C4(k) == CASE k % 4 = 0 -> 1 [] k % 4 = 1 -> 0 [] k % 4 = 2 -> -1 [] OTHER -> 0
S4(k) == CASE k % 4 = 0 -> 0 [] k % 4 = 1 -> 1 [] k % 4 = 2 -> 0 [] OTHER -> -1
RotZ4(k) == RotZ(C4(k), S4(k), 1)
RotX4(k) == RotX(C4(k), S4(k), 1)
RotY4(k) == RotY(C4(k), S4(k), 1)
\* intrinsic Z-X-Y: yaw, then pitch about the resulting X, then roll about the resulting Y
FromEulerM(Z, X, Y) == Mul(Mul(Z, X), Y)
FromEuler4(e) == FromEulerM(RotZ4(e[1]), RotX4(e[2]), RotY4(e[3]))
Quarter == 0..3
Euler4All == {<<y, p, r>> : y \in Quarter, p \in Quarter, r \in Quarter}
\* one Euler triple per rotation: pitch in [-90, 90]; at pitch = +-90 (gimbal lock) roll = 0.
\* CanonEuler(i), i in 1..24, enumerates them: 1..16 pitch 0 (yaw, roll), 17..20 pitch +90, 21..24 pitch -90
CanonEuler(i) == IF i <= 16 THEN <<(i - 1) \div 4, 0, (i - 1) % 4>>
                 ELSE IF i <= 20 THEN <<i - 17, 1, 0>> ELSE <<i - 21, 3, 0>>
Euler4Canon == {e \in Euler4All : e[2] = 0 \/ (e[2] \in {1, 3} /\ e[3] = 0)}
CanonRot(i) == FromEuler4(CanonEuler(i))
Rot24Seq == BuildSeq(CanonRot, 24)                 \* cached table of the 24 cube rotations
Rot24 == SeqToSetN(Rot24Seq, 24)                   \* cached set
RECURSIVE FindRot(_, _)
FindRot(M, i) == IF i > 24 THEN 0 ELSE IF Rot24Seq[i] = M THEN i ELSE FindRot(M, i + 1)
RotIndex(M) == FindRot(M, 1)                       \* 0 when M is not a cube rotation
EulerOf(M) == CanonEuler(RotIndex(M))
\* heading (global yaw) of a cube rotation, in quarter turns: direction of the local +Y axis
\* projected on the XY plane; undefined (-1) when that axis is vertical
Heading4(M) == LET f == Apply(M, Ey) IN
               CASE f = <<0, 1, 0>> -> 0 [] f = <<-1, 0, 0>> -> 1
                 [] f = <<0, -1, 0>> -> 2 [] f = <<1, 0, 0>> -> 3 [] OTHER -> -1

\* ------------------------------------------------------------------ rational rotations
QOf(M) == [m |-> M, d |-> 1]
QIdent == QOf(Ident3)
QMul(A, B) == [m |-> Mul(A.m, B.m), d |-> A.d * B.d]
QInv(A) == [m |-> Transpose(A.m), d |-> A.d]
QApply(A, v) == Apply(A.m, v)                      \* = A.d * (rotated v)
QEq(A, B) == MScale(B.d, A.m) = MScale(A.d, B.m)   \* the same rotation
IsQRot(A) == /\ A.d > 0
             /\ Mul(A.m, Transpose(A.m)) = MScale(A.d * A.d, Ident3)
             /\ Det3(A.m) = A.d * A.d * A.d
\* lowest terms (keeps the integers small when several rational rotations are composed)
RECURSIVE GcdNN(_, _)
GcdNN(a, b) == IF b = 0 THEN a ELSE GcdNN(b, a % b)
GcdI(a, b) == GcdNN(AbsI(a), AbsI(b))
VGcd(v) == GcdI(GcdI(v[1], v[2]), v[3])
VDivExact(k, v) == <<v[1] \div k, v[2] \div k, v[3] \div k>>
QNorm(A) == LET g == GcdI(GcdI(GcdI(VGcd(A.m[1]), VGcd(A.m[2])), VGcd(A.m[3])), A.d) IN
            [m |-> <<VDivExact(g, A.m[1]), VDivExact(g, A.m[2]), VDivExact(g, A.m[3])>>, d |-> A.d \div g]
QMulN(A, B) == QNorm(QMul(A, B))
QYaw(c, s, d) == [m |-> RotZ(c, s, d), d |-> d]
\* the orientation that, composed on the right of the parent P (i.e. expressed in P's frame), gives the
\* global orientation T:  P * LocalFor(P, T) = T.  (NOT T * P^-1: that would give P * T * P^-1.)
LocalFor(P, T) == Mul(Inverse(P), T)
QLocalFor(P, T) == QMul(QInv(P), T)
QPitch(c, s, d) == [m |-> RotX(c, s, d), d |-> d]
QRoll(c, s, d) == [m |-> RotY(c, s, d), d |-> d]
\* Pythagorean angles (cos, sin, den); the angle is atan2(sin, cos)
PythAngles == {<<3, 4, 5>>, <<4, 3, 5>>, <<-3, 4, 5>>, <<3, -4, 5>>, <<-4, -3, 5>>,
               <<5, 12, 13>>, <<12, 5, 13>>, <<-5, 12, 13>>, <<12, -5, 13>>}
IsUnitTriple(t) == t[3] > 0 /\ t[1] * t[1] + t[2] * t[2] = t[3] * t[3]
\* a rational rotation that is d times a cube rotation (axis-aligned in the frame it is expressed in)
IsScaledCube(A) == \E i \in 1..24 : A.m = MScale(A.d, Rot24Seq[i])

\* ------------------------------------------------------------------ boxes
\* axis-aligned box: [lo |-> v, hi |-> v]; oriented box under a cube rotation:
\* centre pos, rotation M \in Rot24, half-dimensions half = <<w/2, l/2, h/2>> in the box's own frame
HalfWorld(M, half) == Apply(AbsM(M), half)
BoxOf(pos, M, half) == [lo |-> VSub(pos, HalfWorld(M, half)), hi |-> VAdd(pos, HalfWorld(M, half))]
\* same with a scaled rotation matrix k*M (M in Rot24): the half-dimensions come out scaled by k
BoxCentre2(b) == VAdd(b.lo, b.hi)                  \* twice the centre
Corners(b) == {<<x, y, z>> : x \in {b.lo[1], b.hi[1]}, y \in {b.lo[2], b.hi[2]}, z \in {b.lo[3], b.hi[3]}}
CornersOriented(pos, M, half) ==
   {VAdd(pos, Apply(M, <<sx * half[1], sy * half[2], sz * half[3]>>)) : sx \in {-1, 1}, sy \in {-1, 1}, sz \in {-1, 1}}
InBoxOpen(p, b) == \A i \in 1..3 : b.lo[i] < p[i] /\ p[i] < b.hi[i]
InBoxClosed(p, b) == \A i \in 1..3 : b.lo[i] <= p[i] /\ p[i] <= b.hi[i]
BoxesOverlap(a, b) == \A i \in 1..3 : a.lo[i] < b.hi[i] /\ b.lo[i] < a.hi[i]          \* interiors meet
BoxesMeet(a, b) == \A i \in 1..3 : a.lo[i] <= b.hi[i] /\ b.lo[i] <= a.hi[i]           \* closed boxes meet
BoxesTouch(a, b) == BoxesMeet(a, b) /\ ~BoxesOverlap(a, b)
BoxInBox(a, b) == \A i \in 1..3 : b.lo[i] <= a.lo[i] /\ a.hi[i] <= b.hi[i]
\* signed gap between two boxes along axis i (negative when their projections overlap)
GapAlong(a, b, i) == MaxI(b.lo[i] - a.hi[i], a.lo[i] - b.hi[i])
\* smallest box containing a box and a point
BoxWithPoint(b, p) == [lo |-> <<MinI(b.lo[1], p[1]), MinI(b.lo[2], p[2]), MinI(b.lo[3], p[3])>>,
                       hi |-> <<MaxI(b.hi[1], p[1]), MaxI(b.hi[2], p[2]), MaxI(b.hi[3], p[3])>>]
\* squared distance from a point to the nearest / farthest point of a box
Sq(x) == x * x
AxisDist(p, b, i) == MaxI(MaxI(b.lo[i] - p[i], p[i] - b.hi[i]), 0)
AxisFar(p, b, i) == MaxI(AbsI(p[i] - b.lo[i]), AbsI(p[i] - b.hi[i]))
Dist2PointBox(p, b) == Sq(AxisDist(p, b, 1)) + Sq(AxisDist(p, b, 2)) + Sq(AxisDist(p, b, 3))
MaxDist2PointBox(p, b) == Sq(AxisFar(p, b, 1)) + Sq(AxisFar(p, b, 2)) + Sq(AxisFar(p, b, 3))

\* ------------------------------------------------------------------ segment / box (slab test)
\* The segment a + t (b - a), t in [0,1].  Per axis the parameter interval in which the point is
\* between lo and hi is (Enter, Exit), carried as fractions <<num, den>> with den > 0.
FracLt(p, q) == p[1] * q[2] < q[1] * p[2]
FracLe(p, q) == p[1] * q[2] <= q[1] * p[2]
Frac0 == <<0, 1>>
Frac1 == <<1, 1>>
Moving(a, b) == {i \in 1..3 : a[i] # b[i]}
Enter(a, b, bx, i) == LET d == b[i] - a[i] IN
                      IF d > 0 THEN <<bx.lo[i] - a[i], d>> ELSE <<a[i] - bx.hi[i], -d>>
Exit(a, b, bx, i) == LET d == b[i] - a[i] IN
                     IF d > 0 THEN <<bx.hi[i] - a[i], d>> ELSE <<a[i] - bx.lo[i], -d>>
\* the segment meets the open interior of the box
SegThroughBox(a, b, bx) ==
   /\ \A i \in (1..3) \ Moving(a, b) : bx.lo[i] < a[i] /\ a[i] < bx.hi[i]
   /\ \A i \in Moving(a, b) : FracLt(Enter(a, b, bx, i), Frac1) /\ FracLt(Frac0, Exit(a, b, bx, i))
   /\ \A i \in Moving(a, b), j \in Moving(a, b) : FracLt(Enter(a, b, bx, i), Exit(a, b, bx, j))
\* the segment meets the closed box
SegMeetsBox(a, b, bx) ==
   /\ \A i \in (1..3) \ Moving(a, b) : bx.lo[i] <= a[i] /\ a[i] <= bx.hi[i]
   /\ \A i \in Moving(a, b) : FracLe(Enter(a, b, bx, i), Frac1) /\ FracLe(Frac0, Exit(a, b, bx, i))
   /\ \A i \in Moving(a, b), j \in Moving(a, b) : FracLe(Enter(a, b, bx, i), Exit(a, b, bx, j))
\* three-valued: "through" / "miss" / "touch" (grazing a face, an edge or a corner: a don't-care)
SegBox(a, b, bx) == IF SegThroughBox(a, b, bx) THEN "through"
                    ELSE IF ~SegMeetsBox(a, b, bx) THEN "miss" ELSE "touch"

\* ------------------------------------------------------------------ lemmas (checked by TLC)
LemmaCount == Cardinality(SignedPerm3) = 48 /\ Cardinality(Rot24Def) = 24
LemmaTables == /\ Rot24 = Rot24Def /\ Len(Rot24Seq) = 24
               /\ {CanonEuler(i) : i \in 1..24} = Euler4Canon
               /\ \A i \in 1..24 : RotIndex(Rot24Seq[i]) = i
               /\ RotIndex(<<Ex, Ey, VNeg(Ez)>>) = 0
LemmaClosed == \A A \in Rot24, B \in Rot24 : Mul(A, B) \in Rot24
LemmaIdentity == Ident3 \in Rot24 /\ \A A \in Rot24 : Mul(A, Ident3) = A /\ Mul(Ident3, A) = A
LemmaInverse == \A A \in Rot24 : /\ Inverse(A) \in Rot24
                                 /\ Mul(A, Inverse(A)) = Ident3 /\ Mul(Inverse(A), A) = Ident3
LemmaInverseOfProduct == \A A \in Rot24, B \in Rot24 : Inverse(Mul(A, B)) = Mul(Inverse(B), Inverse(A))
\* all 24 x 24 pairs against the three generating quarter turns and two composite rotations
AssocProbes == {RotZ4(1), RotX4(1), RotY4(1), Rot24Seq[12], Rot24Seq[23]}
LemmaAssoc == \A A \in Rot24, B \in Rot24, C \in AssocProbes : Mul(Mul(A, B), C) = Mul(A, Mul(B, C))
LemmaNonAbelian == \E A \in Rot24, B \in Rot24 : Mul(A, B) # Mul(B, A)
\* local angles invert composition; the conjugate P * T * P^-1 is a different rotation exactly when P and T
\* do not commute (which needs pitch or roll: two pure yaws always commute)
LemmaLocal == /\ \A P \in Rot24, T \in Rot24 :
                    /\ Mul(P, LocalFor(P, T)) = T
                    /\ (Mul(P, Mul(T, Inverse(P))) = T) <=> (Mul(P, T) = Mul(T, P))
              /\ \A j \in Quarter, k \in Quarter : Mul(RotZ4(j), RotZ4(k)) = Mul(RotZ4(k), RotZ4(j))
ProbeVecs == {Ey, <<1, 2, 3>>, <<-2, 5, 7>>}
LemmaAction == \A A \in Rot24, B \in Rot24 : \A v \in ProbeVecs :
                  /\ Apply(Mul(A, B), v) = Apply(A, Apply(B, v))
                  /\ Norm2(Apply(A, v)) = Norm2(v)
                  /\ Apply(Inverse(A), Apply(A, v)) = v
\* heading 0 = +Y; positive yaw = counter-clockwise seen from above (North -> West);
\* positive pitch lifts the nose (+Y -> +Z); positive roll is counter-clockwise about +Y (+Z -> +X)
LemmaHeading == /\ Apply(FromEuler4(<<0, 0, 0>>), Ey) = Ey
                /\ Apply(RotZ4(1), Ey) = <<-1, 0, 0>> /\ Apply(RotZ4(1), Ex) = Ey
                /\ Apply(RotX4(1), Ey) = Ez /\ Apply(RotX4(1), Ez) = <<0, -1, 0>>
                /\ Apply(RotY4(1), Ez) = Ex /\ Apply(RotY4(1), Ex) = <<0, 0, -1>>
                /\ \A k \in Quarter : Heading4(RotZ4(k)) = k
\* intrinsic: pitch is about the X axis produced by the yaw, roll about the Y axis produced by yaw and pitch
LemmaIntrinsic == \A e \in Euler4All :
                    /\ Col(Mul(RotZ4(e[1]), RotX4(e[2])), 1) = Col(RotZ4(e[1]), 1)
                    /\ Col(FromEuler4(e), 2) = Col(Mul(RotZ4(e[1]), RotX4(e[2])), 2)
\* Euler angles that are multiples of 90 degrees reach exactly the cube group; one triple per
\* rotation once the gimbal duplicates are removed
LemmaEulerOnto == {FromEuler4(e) : e \in Euler4All} = Rot24
LemmaEulerCanon == /\ Cardinality(Euler4Canon) = 24
                   /\ {FromEuler4(e) : e \in Euler4Canon} = Rot24
                   /\ \A M \in Rot24 : FromEuler4(EulerOf(M)) = M
LemmaGimbal == \A y \in Quarter, r \in Quarter :
                  /\ FromEuler4(<<y, 1, r>>) = FromEuler4(<<(y + r) % 4, 1, 0>>)
                  /\ FromEuler4(<<y, 3, r>>) = FromEuler4(<<(y + 4 - r) % 4, 3, 0>>)
LemmaEulerFlip == \A e \in Euler4All :
                     FromEuler4(e) = FromEuler4(<<(e[1] + 2) % 4, (6 - e[2]) % 4, (e[3] + 2) % 4>>)
LemmaPyth == \A t \in PythAngles :
                /\ IsUnitTriple(t)
                /\ IsQRot(QYaw(t[1], t[2], t[3])) /\ IsQRot(QPitch(t[1], t[2], t[3])) /\ IsQRot(QRoll(t[1], t[2], t[3]))
                /\ QEq(QMul(QYaw(t[1], t[2], t[3]), QInv(QYaw(t[1], t[2], t[3]))), QIdent)
                /\ \A M \in Rot24 : IsQRot(QMul(QYaw(t[1], t[2], t[3]), QOf(M)))
                /\ QNorm(QYaw(4 * t[1], 4 * t[2], 4 * t[3])) = QYaw(t[1], t[2], t[3])
                /\ QNorm([m |-> MScale(-6, Ident3), d |-> 6]) = [m |-> MScale(-1, Ident3), d |-> 1]
LemmaBoxes == LET U == [lo |-> <<-2, -2, -2>>, hi |-> <<2, 2, 2>>] IN
              /\ SegBox(<<-5, 0, 0>>, <<5, 0, 0>>, U) = "through"
              /\ SegBox(<<-5, 0, 0>>, <<-3, 0, 0>>, U) = "miss"
              /\ SegBox(<<-5, 2, 0>>, <<5, 2, 0>>, U) = "touch"
              /\ SegBox(<<-5, 0, 0>>, <<-2, 0, 0>>, U) = "touch"
              /\ SegBox(<<-4, 0, 0>>, <<0, 4, 0>>, U) = "touch"
              /\ SegBox(<<-5, -5, -5>>, <<5, 5, 5>>, U) = "through"
              /\ SegBox(<<3, 3, 3>>, <<5, 5, 5>>, U) = "miss"
              /\ SegBox(<<0, 0, 0>>, <<0, 0, 0>>, U) = "through"
              /\ Dist2PointBox(<<5, 0, 0>>, U) = 9 /\ Dist2PointBox(<<1, 1, 1>>, U) = 0
              /\ MaxDist2PointBox(<<0, 0, 0>>, U) = 12
              /\ \A M \in Rot24 : BoxOf(<<1, 2, 3>>, M, <<1, 2, 3>>) =
                    LET cs == CornersOriented(<<1, 2, 3>>, M, <<1, 2, 3>>) IN
                    [lo |-> <<CHOOSE x \in {c[1] : c \in cs} : \A c \in cs : x <= c[1],
                              CHOOSE y \in {c[2] : c \in cs} : \A c \in cs : y <= c[2],
                              CHOOSE z \in {c[3] : c \in cs} : \A c \in cs : z <= c[3]>>,
                     hi |-> <<CHOOSE x \in {c[1] : c \in cs} : \A c \in cs : x >= c[1],
                              CHOOSE y \in {c[2] : c \in cs} : \A c \in cs : y >= c[2],
                              CHOOSE z \in {c[3] : c \in cs} : \A c \in cs : z >= c[3]>>]

Lat3Lemmas == /\ LemmaCount /\ LemmaTables /\ LemmaClosed /\ LemmaIdentity /\ LemmaInverse /\ LemmaInverseOfProduct
              /\ LemmaAssoc /\ LemmaNonAbelian /\ LemmaLocal /\ LemmaAction /\ LemmaHeading /\ LemmaIntrinsic
              /\ LemmaEulerOnto /\ LemmaEulerCanon /\ LemmaGimbal /\ LemmaEulerFlip /\ LemmaPyth /\ LemmaBoxes

ASSUME Lat3Lemmas
=============================================================================
