------------------------------- MODULE PyNum -------------------------------
(* Python number semantics on the exact sub-universe used by Expr.tla (C05).    *)
(*                                                                              *)
(* Integers: flooring // and %, divmod, abs, ** with small non-negative          *)
(* exponents, min / max, sign.  Written from the Python language reference       *)
(* (6.7 Binary arithmetic operations: "the result of // is that of mathematical *)
(* division with the floor function applied", "the modulo operator always yields *)
(* a result with the same sign as its second operand (or zero)",                *)
(* "x == (x//y)*y + (x%y)", "divmod(x, y) == (x//y, x%y)"), NOT from Scenic.      *)
(*                                                                              *)
(* Dyadic rationals <<num, den>> (den a power of two, lowest terms, den > 0)    *)
(* stand for Python ints (den = 1) and for the floats that are exactly          *)
(* representable with small numerators: on these IEEE-754 +, -, *, //, %, abs,   *)
(* round, comparisons are exact, so float arithmetic coincides with rational     *)
(* arithmetic and the spec never needs a tolerance.  True division and negative  *)
(* powers may leave the dyadics; callers must test IsPow2 on the denominator.   *)
(*                                                                              *)
(* Only positive divisors are ever handed to TLA+'s \div, whose meaning for a   *)
(* positive divisor is the mathematical floor.  The ASSUMEs at the end are      *)
(* evaluated by TLC at start-up: they are the lemmas tying the definitions to   *)
(* the sentences of the reference quoted above.                                 *)
EXTENDS Integers, Sequences

\* ----------------------------------------------------------------- integers
IAbs(a)  == IF a < 0 THEN -a ELSE a
ISign(a) == IF a < 0 THEN -1 ELSE IF a = 0 THEN 0 ELSE 1
IMin(a, b) == IF b < a THEN b ELSE a
IMax(a, b) == IF b > a THEN b ELSE a

\* floor(a / b) for b # 0
IFloorDiv(a, b) == IF b > 0 THEN a \div b ELSE (-a) \div (-b)
\* Python a % b for b # 0: the remainder that makes a = b*(a//b) + a%b
IMod(a, b) == a - b * IFloorDiv(a, b)
IDivMod(a, b) == <<IFloorDiv(a, b), IMod(a, b)>>
\* ceil(a / b) for b > 0
ICeilDiv(a, b) == -((-a) \div b)

RECURSIVE IPow(_, _)
IPow(a, n) == IF n = 0 THEN 1 ELSE a * IPow(a, n - 1)      \* n >= 0; 0 ** 0 = 1 as in Python

RECURSIVE IGcd(_, _)
IGcd(a, b) == IF b = 0 THEN IAbs(a) ELSE IGcd(b, IMod(a, IAbs(b)))

RECURSIVE IsPow2(_)
IsPow2(d) == d = 1 \/ (d > 1 /\ IMod(d, 2) = 0 /\ IsPow2(d \div 2))

\* integer square root when n is a perfect square, else -1 (n >= 0, small)
RECURSIVE ISqrtFrom(_, _)
ISqrtFrom(n, k) == IF k * k = n THEN k ELSE IF k * k > n THEN -1 ELSE ISqrtFrom(n, k + 1)
ISqrtExact(n) == ISqrtFrom(n, 0)

\* ----------------------------------------------------------------- rationals
QNorm(n, d) == \* d > 0
  IF n = 0 THEN <<0, 1>> ELSE LET g == IGcd(n, d) IN <<n \div g, d \div g>>   \* g > 0 divides n exactly
QInt(i) == <<i, 1>>
QIsInt(x) == x[2] = 1
QAdd(x, y) == QNorm(x[1] * y[2] + y[1] * x[2], x[2] * y[2])
QNeg(x) == <<-x[1], x[2]>>
QSub(x, y) == QAdd(x, QNeg(y))
QMul(x, y) == QNorm(x[1] * y[1], x[2] * y[2])
QAbs(x) == <<IAbs(x[1]), x[2]>>
QLt(x, y) == x[1] * y[2] < y[1] * x[2]
QLe(x, y) == x[1] * y[2] <= y[1] * x[2]
QMin(x, y) == IF QLt(y, x) THEN y ELSE x
QMax(x, y) == IF QLt(x, y) THEN y ELSE x
\* x / y for y # 0 (may leave the dyadics)
QDiv(x, y) == LET n == x[1] * y[2]  d == x[2] * y[1]
              IN IF d > 0 THEN QNorm(n, d) ELSE QNorm(-n, -d)
QInv(x) == QDiv(<<1, 1>>, x)
QFloor(x) == IFloorDiv(x[1], x[2])                  \* an integer
QCeil(x) == ICeilDiv(x[1], x[2])
\* Python x // y on ints and on exactly representable floats: floor of the exact quotient
QFloorDiv(x, y) == QInt(IFloorDiv(x[1] * y[2], x[2] * y[1]))
\* Python x % y: x - y * (x // y); sign of y (or zero)
QMod(x, y) == QSub(x, QMul(y, QFloorDiv(x, y)))
QPow(x, n) == <<IPow(x[1], n), IPow(x[2], n)>>       \* n >= 0; stays in lowest terms
\* int(x): truncation towards zero
QTrunc(x) == IF x[1] >= 0 THEN QFloor(x) ELSE QCeil(x)
\* round(x): nearest integer, ties to the even one ("values are rounded to the closest
\* multiple of 10**-ndigits; if two multiples are equally close, rounding is done toward
\* the even choice")
QRound(x) == LET f == QFloor(x)
                 r == QSub(x, QInt(f))               \* in [0, 1)
             IN IF QLt(r, <<1, 2>>) THEN f
                ELSE IF QLt(<<1, 2>>, r) THEN f + 1
                ELSE IF IMod(f, 2) = 0 THEN f ELSE f + 1

\* ----------------------------------------------------------------- lemmas (checked by TLC)
SmallInts == -9 .. 9
SmallDivs == {-4, -3, -2, -1, 1, 2, 3, 4}
\* ints and odd multiples of 1/2 and 1/4
SmallQ == {QInt(i) : i \in -4 .. 4} \cup {<<i, 2>> : i \in {-7, -5, -3, -1, 1, 3, 5, 7}}
             \cup {<<i, 4>> : i \in {-5, -3, -1, 1, 3, 5}}
SmallQDivs == {y \in SmallQ : y[1] # 0}

ASSUME DivFloorsForPositiveDivisor ==
  /\ (-7) \div 2 = -4 /\ 7 \div 2 = 3 /\ (-8) \div 2 = -4 /\ (-1) \div 4 = -1
ASSUME IntDivModLaw ==
  \A a \in SmallInts, b \in SmallDivs :
     LET q == IFloorDiv(a, b)  r == IMod(a, b) IN
       /\ a = b * q + r
       /\ (r = 0 \/ ISign(r) = ISign(b))
       /\ IAbs(r) < IAbs(b)
       /\ IDivMod(a, b) = <<q, r>>
ASSUME IntExamples ==      \* the table of the reference / well-known corner cases
  /\ IFloorDiv(7, 2) = 3   /\ IMod(7, 2) = 1
  /\ IFloorDiv(-7, 2) = -4 /\ IMod(-7, 2) = 1
  /\ IFloorDiv(7, -2) = -4 /\ IMod(7, -2) = -1
  /\ IFloorDiv(-7, -2) = 3 /\ IMod(-7, -2) = -1
  /\ IPow(0, 0) = 1 /\ IPow(-2, 3) = -8 /\ IPow(3, 2) = 9
ASSUME RatDivModLaw ==
  \A x \in SmallQ, y \in SmallQDivs :
     LET q == QFloorDiv(x, y)  r == QMod(x, y) IN
       /\ QIsInt(q)
       /\ x = QAdd(QMul(y, q), r)
       /\ (r[1] = 0 \/ ISign(r[1]) = ISign(y[1]))
       /\ QLt(QAbs(r), QAbs(y))
ASSUME RoundLaw ==
  \A x \in SmallQ :
     LET k == QRound(x)  d == QAbs(QSub(x, QInt(k))) IN
       /\ QLe(d, <<1, 2>>)
       /\ (d = <<1, 2>> => IMod(k, 2) = 0)
ASSUME RoundExamples ==
  /\ QRound(<<1, 2>>) = 0 /\ QRound(<<3, 2>>) = 2 /\ QRound(<<5, 2>>) = 2
  /\ QRound(<<-1, 2>>) = 0 /\ QRound(<<-3, 2>>) = -2 /\ QRound(<<3, 4>>) = 1 /\ QRound(<<-5, 4>>) = -1
ASSUME TruncLaw ==
  \A x \in SmallQ : LET k == QTrunc(x) IN
       /\ IAbs(k) <= IAbs(QFloor(QAbs(x))) /\ IAbs(k) >= IAbs(QFloor(QAbs(x)))
       /\ (x[1] # 0 /\ k # 0 => ISign(k) = ISign(x[1]))
ASSUME NormLaw == \A x \in SmallQ, y \in SmallQ :
       /\ QAdd(x, y) = QAdd(y, x) /\ QMul(x, y) = QMul(y, x)
       /\ QSub(QAdd(x, y), y) = x
       /\ (y[1] # 0 => QMul(QDiv(x, y), y) = x)
=============================================================================
