------------------------------- MODULE Rat -------------------------------
(* Exact rationals <<num, den>> in lowest terms, den > 0.  All intermediate    *)
(* products must stay below 2^31 (TLC integers); callers keep factors small   *)
(* and carry long products as sequences of factors.                            *)
EXTENDS Integers, Sequences

RECURSIVE Gcd(_, _)
Gcd(a, b) == IF b = 0 THEN (IF a < 0 THEN -a ELSE a) ELSE Gcd(b, a % b)

Norm(n, d) == LET g == Gcd(IF n < 0 THEN -n ELSE n, d)
              IN IF n = 0 THEN <<0, 1>> ELSE <<n \div g, d \div g>>

Zero == <<0, 1>>
One  == <<1, 1>>
Of(n, d) == Norm(n, d)
Mul(p, q) == LET g1 == Gcd(IF p[1] < 0 THEN -p[1] ELSE p[1], q[2])
                 g2 == Gcd(IF q[1] < 0 THEN -q[1] ELSE q[1], p[2])
                 a == IF g1 = 0 THEN 1 ELSE g1
                 b == IF g2 = 0 THEN 1 ELSE g2
             IN Norm((p[1] \div a) * (q[1] \div b), (p[2] \div b) * (q[2] \div a))
Add(p, q) == LET g == Gcd(p[2], q[2])
                 l == (p[2] \div g) * q[2]
             IN Norm(p[1] * (l \div p[2]) + q[1] * (l \div q[2]), l)
Sub(p, q) == Add(p, <<-q[1], q[2]>>)
Lt(p, q)  == p[1] * q[2] < q[1] * p[2]
Leq(p, q) == p[1] * q[2] <= q[1] * p[2]
Pos(p)    == p[1] > 0

RECURSIVE SumSeq(_)
SumSeq(s) == IF s = <<>> THEN Zero ELSE Add(Head(s), SumSeq(Tail(s)))
RECURSIVE ProdSeq(_)
ProdSeq(s) == IF s = <<>> THEN One ELSE Mul(Head(s), ProdSeq(Tail(s)))
===========================================================================
