#!/bin/bash
# tools/confirm_tests.sh <worktree> <k> : apply seeded change k in the worktree and run the repository's
# test files that exercise the touched sources (chosen from the paths in the diff) against the patched
# sources (PYTHONPATH), comparing with BASELINE.json's stable_pass list (tools/run_baseline.py).
# Prints one line "TESTS <worktree> <k> rc=<rc> <summary>"; rc=0 means every stable_pass test of those
# files still passes with the change applied.
wt="$1"; k="$2"
cd "$wt" || exit 3
git checkout -q -- src
git checkout -q --detach "$(git -C /repo rev-parse HEAD)" || exit 3
cp /repo/src/scenic/syntax/parser.py src/scenic/syntax/parser.py
git apply SEEDED/change$k.diff || { echo "TESTS $wt $k patch does not apply"; exit 3; }
if grep -q "scenic.gram" SEEDED/change$k.diff; then
  /venv/bin/python -m pegen src/scenic/syntax/scenic.gram -o /tmp/parser_new.py >/dev/null 2>&1 && \
    (head -2 src/scenic/syntax/parser.py; tail -n +3 /tmp/parser_new.py) > /tmp/parser_merged.py && cp /tmp/parser_merged.py src/scenic/syntax/parser.py
fi
keys=""
add() { for x in "$@"; do case " $keys " in *" $x "*) ;; *) keys="$keys $x";; esac; done; }
for f in $(grep '^diff --git' SEEDED/change$k.diff | sed 's|.* b/||'); do
  case "$f" in
    *core/regions.py|*core/geometry.py|*core/shapes.py|*core/vectors.py|*core/utils.py) add core/test_regions syntax/test_regions core/test_shapes core/test_geometry core/test_vectors syntax/test_specifiers syntax/test_operators syntax/test_pruning;;
    *core/object_types.py) add syntax/test_specifiers syntax/test_basic core/test_specifiers syntax/test_properties syntax/test_classes syntax/test_pruning syntax/test_requirements core/test_scenarios syntax/test_operators core/test_pickle;;
    *syntax/veneer.py) add syntax/test_specifiers syntax/test_basic syntax/test_operators syntax/test_requirements syntax/test_dynamics syntax/test_modular syntax/test_distributions syntax/test_regions syntax/test_classes syntax/test_typing;;
    *core/dynamics/*|*core/simulators.py) add syntax/test_dynamics syntax/test_modular core/test_simulators syntax/test_requirements simulators/newtonian;;
    *core/pruning.py|*syntax/relations.py) add syntax/test_pruning syntax/test_requirements syntax/test_specifiers core/test_scenarios;;
    *core/distributions.py|*core/lazy_eval.py|*core/type_support.py) add core/test_distributions syntax/test_distributions syntax/test_basic syntax/test_operators core/test_lazy_eval syntax/test_typing core/test_pickle core/test_serialization syntax/test_specifiers;;
    *core/scenarios.py|*core/requirements.py|*core/sample_checking.py) add core/test_scenarios syntax/test_requirements syntax/test_basic core/test_pickle core/test_serialization syntax/test_pruning syntax/test_dynamics syntax/test_temporal;;
    *core/serialization.py) add core/test_serialization core/test_pickle core/test_simulators;;
    *syntax/compiler.py|*syntax/scenic.gram|*syntax/translator.py|*syntax/ast.py|*syntax/parser.py|*core/errors.py) add syntax/test_compiler syntax/test_parser syntax/test_errors syntax/test_basic syntax/test_dynamics syntax/test_modular syntax/test_translator;;
    *domains/driving/*|*formats/opendrive/*) add domains/driving;;
    *core/sensors.py) add syntax/test_dynamics syntax/test_modular core/test_simulators simulators/newtonian syntax/test_compiler syntax/test_parser;;
    *core/visibility.py) add syntax/test_operators syntax/test_specifiers syntax/test_requirements syntax/test_regions core/test_regions syntax/test_basic syntax/test_pruning;;
    *domains/driving/roads.py) add domains/driving;;
    *core/specifiers.py) add syntax/test_specifiers core/test_specifiers syntax/test_classes syntax/test_properties syntax/test_basic syntax/test_distributions core/test_pickle;;
    *core/propositions.py) add syntax/test_temporal syntax/test_requirements syntax/test_dynamics;;
    *) add syntax/test_basic;;
  esac
done
out=$(cd /verif && PYTHONPATH=$wt/src timeout 7200 /venv/bin/python tools/run_baseline.py -n 3 -k $keys 2>&1)
rc=$?
cd "$wt" && git checkout -q -- src
echo "TESTS $wt $k rc=$rc keys=[$keys] $(echo "$out" | head -1) $(echo "$out" | grep really_failed)"
echo "$out" | grep "NOT PASSING" | grep -v "not run" | head -5
