#!/usr/bin/env python3
"""tools/keep_seeded.py <worktree> <k> <id> <caught_by> <note...>: archive a confirmed seeded change
as /verif/seeded/<id>/{patch.diff, demo.py, meta.json}."""
import json, os, shutil, sys
wt, k, sid, caught = sys.argv[1:5]
note = " ".join(sys.argv[5:])
d = f"/verif/seeded/{sid}"
os.makedirs(d, exist_ok=True)
shutil.copy(f"{wt}/SEEDED/change{k}.diff", f"{d}/patch.diff")
shutil.copy(f"{wt}/SEEDED/demo{k}.py", f"{d}/demo.py")
meta = json.load(open(f"{wt}/SEEDED/meta{k}.json"))
meta["confirmed_by_lead"] = {
    "demo_without_change": "exit 0", "demo_with_change": "non-zero exit",
    "how": "tools/try_seeded.sh: demo run with PYTHONPATH=<worktree>/src before and after `git apply`; "
           "checks run against the patched sources (PYTHONPATH) / or git -C /repo apply + checkout",
    "caught_by": caught.split(","), "note": note,
}
json.dump(meta, open(f"{d}/meta.json", "w"), indent=1)
print("kept", d)
