#!/usr/bin/env python3
"""tools/keep_seeded.py <worktree> <k> <id> <caught_by> <note...>: archive a confirmed seeded change
as /verif/seeded/<id>/{patch.diff, demo.py, meta.json}.  The line written by tools/confirm_tests.sh
for this change (in /tmp/confirm_batch*.log) is recorded as the lead's own run of the repository tests."""
import glob, json, os, shutil, sys
wt, k, sid, caught = sys.argv[1:5]
note = " ".join(sys.argv[5:])
d = f"/verif/seeded/{sid}"
os.makedirs(d, exist_ok=True)
shutil.copy(f"{wt}/SEEDED/change{k}.diff", f"{d}/patch.diff")
shutil.copy(f"{wt}/SEEDED/demo{k}.py", f"{d}/demo.py")
meta = json.load(open(f"{wt}/SEEDED/meta{k}.json"))
tests = None
for log in sorted(glob.glob("/tmp/confirm_batch*.log") + glob.glob("/tmp/seed_batch*.log")):
    for ln in open(log):
        if ln.startswith(f"TESTS {wt} {k} rc="):
            tests = ln.strip()
meta["confirmed_by_lead"] = {
    "demo_without_change": "exit 0", "demo_with_change": "non-zero exit",
    "how": "tools/try_seeded.sh: worktree brought to /repo's HEAD, demo run with PYTHONPATH=<worktree>/src before and "
           "after `git apply`; checks run against the patched sources (PYTHONPATH)",
    "repository_tests_with_change": tests or "not re-run by the lead (the seeding agent's run is in tests_run)",
    "caught_by": [c for c in caught.split(",") if c], "note": note,
}
json.dump(meta, open(f"{d}/meta.json", "w"), indent=1)
print("kept", d, "| tests:", (tests or "-")[:90])
