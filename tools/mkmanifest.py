#!/usr/bin/env python3
"""Regenerate MANIFEST.json from the table below (single source of truth for the interface)."""
import json
import os

VERIF = os.path.dirname(os.path.dirname(os.path.abspath(__file__)))
props = [json.loads(l) for l in open(os.path.join(VERIF, "properties.jsonl"))]
ids = [p["id"] for p in props]

BASELINE = (
    "cd /repo && /venv/bin/python -m pytest -ra -q -p no:cacheprovider --timeout=900 "
    "--continue-on-collection-errors"
)

# id -> (category, technique, level text, level note, design ref)
CHECKS = {
    "C01": (
        "model_checking",
        "TLA+ Sampler.tla (operational rejection sampler + denotational prior) checked by TLC per program; "
        "bound to the code by exhaustive scripted-RNG replay: every RNG branch of Scenario.generate, exact rational law compared",
        "TLC explores every RNG outcome of every generated program (all attempts up to maxIter) and checks DrawnOnce, ChainRule, "
        "VerdictExact, IterExact, ActivateOnce; the law over (scene, iterations, exhaustion) derived from the spec's denotational "
        "table must equal, as exact rationals, the law obtained by running the real Scenario.generate once per RNG branch.",
        "Finite-discrete fragment only (scalar operators and lifted calls, Uniform over tuples / lists indexed by constant, negative "
        "and random indices, star-unpacked calls, coordinates of random vectors, globalParameters feeding later draws and read by "
        "requirements, tuple- and list-valued properties, two objects with ego rebound); scripted random module "
        "(random/randint/choices); the Scenic-text/JSON printer pair is trusted; programs are an exhaustive two-draw core, an ego "
        "core, a container / parameter core (a sixth of it per quick run) plus seeded random programs, not all programs.",
        "3/C01",
    ),
    "C02": (
        "model_checking",
        "TLA+ Checker.tla (requirement objects of a lattice program, truth from the exact Overlap.tla oracle on the FINAL scene "
        "(position + mutation noise, composed yaw, selected shape), checker actions Sort = any permutation / DropTrailingOptional / "
        "Eval / UpdateStats, BasicChecker) checked by TLC over program x assignment x active set x order; bound to the code by "
        "running Scenario.generate once per RNG branch (scripted random incl. gauss) under four checker passes with a scripted "
        "clock, auditing every verdict against SceneOK and validating every logged Eval trace with CheckerTrace.tla",
        "TLC checks AcceptSound, OnlyOptionalSkipped, RejectSound, OrderIrrelevant, OptionalConsistent, ListMatchesReference, "
        "StatsExact, InOrder for every assignment and order of every generated program; every accepted real scene (final geometry "
        "read from the sample handed to the checker and from the returned Scene) must satisfy SceneOK of its assignment, no "
        "assignment with SceneOK = T may be rejected, a compile-time InvalidScenarioError is legitimate only if no assignment is "
        "valid, and the logged Eval sequences are accepted by CheckerTrace.tla.",
        "Lattice programs only (2-4 box-union objects, discrete positions / yaw / allowCollisions, objects with fixed pose next to "
        "a boundary, `mutate` with scripted Gaussian noise, random shapes of fixed dimensions, own regionContainedIn, non-convex "
        "obstacle objects with positions wholly inside their material, long occluding walls whose centre is out of view range, "
        "box / polygon workspaces, coordinate predicates, 3-D mode); visibility only in clear-cut configurations with an unrotated "
        "viewer; "
        "touching = don't-care; seeded program sample; permutations complete up to 5 active requirements (rotation family beyond); "
        "2-D mode, curved shapes, continuous distributions and maxIterations > 1 not covered. No open finding (the two defects "
        "found, occluder iterator and validate() crash, are repaired).",
        "3/C02",
    ),
    "C04": (
        "model_checking",
        "TLA+ Overlap.tla: exact integer oracle for unions of lattice boxes under the 24 cube rotations (global rotation = exact "
        "composition of a parent and a local rotation; containment configurations optionally turned as a whole by the rational yaw "
        "3/5-4/5, world bounding-box quantities computed exactly on the turned corners) + the decision lists of Object.intersects / "
        "MeshVolumeRegion.intersects / containsObject / PolygonalFootprintRegion.containsObject / minimumDistanceTo as guarded "
        "exits over named exact quantities; TLC checks every exit sound, lists total, oracle lemmas; bound to the code by replay "
        "of a stratified batch on "
        "the real objects (tilt given through own angles or through parentOrientation; answers compared, exits probed with "
        "sys.monitoring)",
        "TLC enumerates every configuration of the universe blocks (shape pairs x parent and local rotations x lattice window) and "
        "every internal choice and checks ExitsSound, DoneSound, OracleLemmas and deadlock-freedom; the batch configurations, "
        "stratified by procedure, deciding exit and expected answer (parent-tilted boxes, and large objects at the extremities of "
        "an L-shaped container in the turned frame, as strata of their own), are replayed on the real Object / Region code and "
        "intersects (both directions), containsObject and minimumDistanceTo must equal the oracle unless the configuration touches.",
        "Exact lattice sub-universe only (unions of 1-3 half-unit lattice boxes, 24 cube rotations, rectilinear footprints); the "
        "one generic (rational-yaw) frame is used for mesh containment only, not for intersects / distance / footprints; no other "
        "generic angles, curved primitives or composed regions; the Object.intersects(PolygonalRegion) fast path is not modelled; "
        "touching / flush = don't-care; the exit taken is diagnostic only. Open known findings: fcl-convex-distance (third-party "
        "FCL) and nested-nonconvex-distance.",
        "3/C04",
    ),
    "C14": (
        "fault_enumeration",
        "TLA+ Lifecycle.tla (interpreter-state projection, proxies, override ledgers, fault disjunct in every state, cleanup of the "
        "finally clause, run-time writes to overridable properties, three nested scenarios) model-checked by TLC incl. three named as-implemented deviations (each found in the code and repaired); bound to the code by exhaustive fault "
        "enumeration (site x occurrence x ending x follow-up operation) with before/after snapshots and clean-process digests, and "
        "by trace validation of wrapper-recorded events with LifecycleTrace.tla",
        "For every fault schedule the real program raises at that point; the veneer globals named by the property, every tracked "
        "property of every scene object and proxy identity must be unchanged afterwards, the follow-up operation must give the "
        "digest a clean process gives, and the recorded begin/create/start/override/stop/read-back/destroy/unproxy/end trace must be "
        "a behaviour of Lifecycle.tla (ideal constants); TLC also shows the ideal model satisfies Quiescent/SceneUntouched/"
        "RevertOnStop and that each named deviation violates one of them.",
        "One program template (Main > Child > Inner, both children overriding the same property, Child cut short while Inner "
        "runs, a behaviour assigning the property before it is overridden, a top-level `terminate after` no single run reaches) in two variants; model-import faults and Simulation.destroy faults are not injected; internal run "
        "flags are diagnostic only; follow-up operations (simulate the same scene, generate and simulate, recompile, simulate with "
        "the top-level guard false) are compared with a process that simulated nothing before; five named deviations of "
        "Lifecycle.tla (ledger, start flag, cleanup order, run-time module globals, recorder buffer), all repaired or seeded; "
        "no open finding.",
        "3/C14",
    ),
    "C18": (
        "fault_enumeration",
        "TLA+ Codec.tla (scene writer/reader over the sample DAG with the seen set, byte-level integer fields, restricted-domain "
        "operations recomputed at decode time, Truncate/Flip/Foreign faults; strict reader = ideal, lenient reader = named "
        "deviation), CodecOptions.tla (options digest = injective function of the whole option valuation, every ordered pair of "
        "valuations) and Replay.tla (record/replay/divergence step machine, base-independent divergence criterion) checked by TLC; "
        "bound to the code by replay: every sample (all RNG branches) of every program through sceneToBytes/sceneFromBytes, every "
        "truncation point and representative byte changes, foreign readers, encode under options A / decode under B, and every "
        "TLC behaviour of Replay.tla through simulate/simulationToBytes/simulationFromBytes with scripted RNG and a perturbing "
        "simulator",
        "TLC checks RoundTrip, FieldsExact, OnlySelected, TruncationRefused, CorruptionContained, HeaderGuards, "
        "DomainErrorsRefused, AcceptIffEqual (options), ReplayEqual, LongerReplayContinues, CutReplay, "
        "DivergenceDetectedBothSigns, BaseIndependent on every (program, sample, fault) / option pair / behaviour; on the real code "
        "every truncation point of every distinct encoding must raise SerializationError, changed bytes (representative values; "
        "every value of the integer-field and exponent bytes for the domain programs) give a scene or SerializationError, foreign "
        "readers refuse, data encoded under A decodes under B iff A = B as valuations, decoded scenes equal the originals in every "
        "parameter and object property, replays reproduce the run and report a divergence iff |actual - expected| > tolerance in "
        "either direction, whatever the magnitude of the recorded value; every agreeing replay is encoded and replayed a second "
        "time and must reproduce itself without drawing anything new.",
        "Integer, float and Vector primitives only (no orientations, mutation, str / bytes / pickled or user codecs); representative "
        "flips per byte outside the sweep programs (truncation exhaustive per encoding); boundary core + seeded random programs of "
        "the finite-discrete fragment; harness-written deterministic simulator for replays; decoding in another process not "
        "exercised; byte layout is diagnostic only. Open known finding: options-value-type (override values hashed without their "
        "type); short-read, corrupt-index-exception and divergence-negative are repaired.",
        "3/C18",
    ),
    "C03": (
        "model_checking",
        "TLA+ RegionSampling.tla over RegionGeom.tla: discrete samplers exactly and the generic union / intersection / difference "
        "samplers as state machines; TLC enumerates every behaviour over an abstract universe (all ordered pairs of non-empty "
        "subsets of 5 atoms, exact rational weights) and checks proportionality to the measure of the composed set; bound to the "
        "code by exhaustive scripted-RNG replay of discrete compositions (exact laws), trace validation of the real generic "
        "samplers with the same actions, and TLC classifying seeded samples and triangulation weights on the lattice",
        "TLC checks ChainRule, ReturnInSet, RejectSound, Proportional, OperationalBelowDenot, DiscUniform, SeqIndependent on every "
        "behaviour. Every RNG branch of the real samplers of 274 discrete compositions (point sets, grid, point set x region, both "
        "orders) must reproduce the uniform law on the composed set computed from lattice membership; two consecutive samples of "
        "one point set intersected with a random second operand must have exactly the product law (nothing remembered between "
        "samples); every logged trace of the real "
        "UnionRegion / IntersectionRegion / DifferenceRegion samplers (choices weights, operand draws, multiplicity coin, returned "
        "point) must be a behaviour of the machine; every sample of every primitive and specialised composition must be a member "
        "in all three coordinates; the cumulative triangle weights of every polygonal result (incl. multi-component polygons and "
        "compositions) must be the running sum of the areas and the selection law exactly area/total.",
        "Uniformity of continuous primitive samplers is NOT decided (membership, triangulation weights and triangle selection law "
        "only; no statistical test); the level rests on layers (a) and (b), the sample layer is exploration-grade; two operands; "
        "lattice sub-universe; seeded traces; voxel / view regions not covered. No open finding (sector circumcircle, point-set "
        "intersection crash and footprint membership, polygon height are repaired).",
        "3/C03",
    ),
    "C05": (
        "model_checking",
        "TLA+ Expr.tla over lib/PyNum.tla: Eval of expression DAGs in plain-Python semantics (integers and dyadic floats, tuples / "
        "lists / namedtuples with the container type part of the value, lifted operators incl. reflected forms, divmod/round/abs, "
        "getitem/slices, calls with keyword and star arguments in every position, attribute / method of a random choice, a lifted "
        "vector operator seen through a coordinate, `self.`-dependent class defaults as a dependency fixpoint, container literals "
        "with lazily evaluated elements inside random expressions) and the library's construction rewrites with "
        "their side conditions, checked by TLC on every leaf assignment; bound to the code by replay: every node of every DAG is a "
        "global parameter of a generated program and every RNG branch of Scenario.generate is compared with TLC's vectors, "
        "supportInterval must contain the exact support",
        "For every case (expression DAG over DiscreteRange / Uniform / Discrete / Range leaves, or a class chain with "
        "self-dependent defaults plus one object with specifiers) TLC enumerates every leaf assignment, checks Python's division / "
        "rounding / slicing laws, the eight construction rewrites with their side conditions and the dependency fixpoint, and "
        "prints the plain-Python value of every node and the exact supports; the set of value vectors observed over all RNG "
        "branches of the real program must equal the printed set and each supportInterval must contain the spec's [min, max] or "
        "be unknown. Expr.tla's rows are cross-checked against CPython on every case (disagreement = machinery failure).",
        "Exact sub-universe (ints, dyadic floats, tuples / lists / namedtuples; Range scripted to lo/mid/hi); cases where plain "
        "Python raises, a leaf support is empty or a value leaves the dyadics are dropped by the spec's well-formedness predicate; "
        "comparisons enter through lifted functions only; literal containers indexed by random values and star-calls through bound "
        "methods of literals with random fields are outside the fragment; vectors only through (Vector(a, 2, 0) * b).x; "
        "orientations, trigonometry, str, dicts not covered; exhaustive depth-2 core (incl. star positions, container kinds, "
        "quotient / product supports around zero, a fixed object core) + seeded random DAGs and class chains, not all programs; "
        "the Scenic-text / JSON printer pair is trusted. No open finding (the nine defects found are repaired; their named "
        "deviations stay in the spec for regression).",
        "3/C05",
    ),
    "C06": (
        "model_checking",
        "TLA+ Specifiers.tla: the reference's declarative five-step resolution (Decl) and the _resolveSpecifiers algorithm as a "
        "state machine over the documented specifier table (33 symbols for 91 forms, class tables); TLC enumerates every word of "
        "specifier symbols per class (EvalSeesFinal, WrittenOnce, ExactlyOne, DeclOrderIndependent, DupIsTie, DiffExplained); "
        "bound to the code by table conformance of every documented form and class default and by replay of the emitted cases as "
        "`new C <specifiers>` in compiled Scenic programs (exception kind, per-property winner via values in the final context, "
        "evaluation order)",
        "TLC checks the invariants on every sub-bag x permutation up to the bound and prints the reference outcome of each case "
        "(the machine, kept as the named pre-repair deviation, may differ from Decl only under TieBelowWinner). Every documented "
        "form's priorities, dependencies and modifying-ness and every class default are compared with the code; each replayed "
        "(bag, permutation, class) must raise an admissible error kind or give every property its documented winner's value "
        "evaluated in the final context, in an evaluation order satisfying the reference's dependency edges. The verdict is "
        "agreement with Decl.",
        "Symbol and class tables hand-transcribed from the reference; words <= 3 (quick: length 3 only for Object / Object2D, "
        "sampled in replay; thorough: all, 4 in 2D over 9 symbols); a deterministic FlatRegion stands for regions; value functions "
        "themselves are C07's subject; `dynamic` only table-checked, mutation of existing objects not exercised. No open finding "
        "(tie-below-winner is repaired; a regression is a violation).",
        "3/C06",
    ),
    "C07": (
        "model_checking",
        "TLA+ GeomSpec.tla over lib/Lat3.tla: one definition per documented specifier/operator on the lattice sub-universe "
        "(cube-group and Pythagorean rotations as integer matrices with a common denominator), evaluated and lemma-checked by TLC "
        "per case; bound to the code by replay: every case created in a compiled Scenic program, position / orientation matrix / "
        "operator value compared (abs tol 1e-6)",
        "TLC evaluates every generated case (constructs x reference poses x rotations x parent orientations; incl. the directional "
        "specifiers relative to an Object with `by` omitted / 0 / positive / a vector and explicit or default contactTolerance "
        "(explicit D gives a gap of exactly D, only an omitted D half the new object's tolerance), `facing` a vector field or "
        "value under given / inherited tilted parents and `on` placement onto box surfaces, volumes, object tops and vectors with "
        "the nearest hit on either side), checks the frame lemmas (bounding-box gap through the target's inverse "
        "orientation, line-of-sight frame, side points on the box, forward axis parallel to the direction, P * (P^-1 * F) = F, "
        "nearest-hit lemma, isometry) and prints expected position, rotation matrix, angle or squared distance; all are replayed "
        "on real objects.",
        "Sub-universe only (quarter lattice, 24 cube rotations + Pythagorean yaws, Pythagorean lines of sight); vector-valued `by` "
        "is read as the docstrings describe it (the reference only has the scalar form); `following`, the random specifying form "
        "of `on <region>`, `distance past`, field-valued `relative to`, mesh "
        "surfaces other than box faces not covered; `apparently facing` demanded only for planar (pure-yaw) parents, free under "
        "pitch / roll because the reference does not say; quick is a seeded sample of the cross product; the case printer is "
        "trusted glue. No open finding (beyond and apparently-facing parent orientation, projectVector nearest hit are repaired).",
        "3/C07",
    ),
    "C17": (
        "model_checking",
        "TLA+ Visibility.tla over lib/Lat3.tla (exact lattice geometry: cube-group and Pythagorean rotations, integer slab test) "
        "checked by TLC over templates x relative rotations x viewer orientations x viewer parameters x occluder prefixes; bound to "
        "the code by replay: real Point/OrientedPoint/Object (3D and 2D) built at the printed poses, canSee / "
        "visibleRegion.containsPoint / the `can see` operator / `visible from` and `not visible from` requirements of compiled "
        "scenes compared",
        "TLC enumerates every case of the generated cross product (incl. templates with long / large occluders whose centre lies "
        "outside the view distance while the body crosses the sight line, and elongated targets whose near end is in range but "
        "whose part inside the view window is not), checks the frame lemmas (inverse orientation undoes "
        "placement, rigid lengths, axis alignment), consistency of the three object clauses with each other and with the exact "
        "point specification, and monotonicity in occluders; every printed expectation (TRUE/FALSE/free per occluder prefix; "
        "visibleRegion membership for point targets) is replayed on the real objects, a sample also through `require ... can see` "
        "and through compiled scenes declaring the target `visible from` / `not visible from` the viewer (after another visibility "
        "requirement) as the spec answers with all occluders, which must be accepted.",
        "Sub-universe only: quarter-lattice scenes, 24 cube rotations + 5 Pythagorean yaws, view angles {90,180,270,360}x{90,180}, "
        "box targets / occluders; exact for point targets off boundaries, three clauses for objects (everything else free, decided "
        "by ray sampling in the code); visibleRegion with a 25 % margin on curved faces; quick uses a seeded subset of the "
        "rotations and replays part of the 3D box cases; of the default requirements only the `visible from` / `not visible from` "
        "specifier requirements at fixed positions are exercised (requireVisible and random positions are C02's). No open finding "
        "(point-branch rotation order, wide sector polygon, Point.visibleRegion radius are repaired).",
        "3/C17",
    ),
    "C08": (
        "model_checking",
        "TLA+ Relations.tla (function specification of bound extraction from requirement syntax: every comparison shape incl. the "
        "abs(Q +- k) / abs(k +- Q) forms x constants, soundness of the tightest interval checked by TLC) and Pruning.tla (feasible "
        "positions AND poses of lattice programs versus the documented pruning techniques); bound to the code by replay of the "
        "extracted relations, by probing the real pruned regions at every lattice probe, by a pose replay (real containsObject in "
        "every lattice pose against the spec's Feasible bit) and by differential validation: each program compiled with and "
        "without pruning under a time guard, accepted scenes of the unpruned program must lie in the real pruned region",
        "TLC enumerates every requirement shape and every probe of every lattice program of the batch (containment with offsets and "
        "with constant / random yaw, pitch, roll, box volumes, visibility incl. objects `on` a polygon seen from above / below its "
        "plane, relative heading on polygonal vector fields incl. headings = field heading + bounded random deviation crossing "
        "+-180 degrees), checks "
        "RuleSound / RuleTight / MirrorSound and Feasible within PrunedIdeal within Base; on the real code an extracted interval "
        "must contain the true hull, and a feasible probe outside the pruned region, a base-exterior probe inside it, a "
        "satisfiable program refused or timing out, a changed non-positional property or a lost accepted scene is a violation.",
        "Lattice sub-universe (rectilinear regions, box objects, angles multiple of 90 degrees, Range between lattice angles), "
        "per-object (marginal) feasibility over a finite witness set, seeded programs + fixed core; an unsound interval alone is "
        "only an observation unless it changes a pruned region; heading deviations are decided on witness values kept 1-2 degrees "
        "off every boundary; voxel erosion that keeps too much and generic angles not covered; regions depending on a random "
        "observer are probed before pruneVisibility. No open finding "
        "(the seven pruning defects found are repaired and act as regression guards).",
        "3/C08",
    ),
    "C20": (
        "model_checking",
        "TLA+ MapCache.tla (cache protocol of Network.fromFile: Load/EditMap/ChangeOptions/CorruptCache/BumpVersion, and ordered "
        "pairs of option sets from the whole option universe with the cache fresh / absent / stale / corrupt in between) "
        "model-checked exhaustively and replayed behaviour by behaviour on the real Network.fromFile; TLA+ RoadNet.tla (40 named "
        "conjuncts of WellFormed from the attribute documentation and the maintainers' single-map tests) evaluated by TLC on the "
        "exported link structure and measured point facts of every present map x parser options x parsed/cached/mutated file "
        "(state audit); byte-fault sweep of a cache file",
        "TLC explores every sequence of <= 4 cache actions and every ordered pair of option sets (each option absent / explicit "
        "default / falsy / None / other: 17 accepted sets) and checks HitOnlyWhenAllMatch, HitWhenAllMatch, FreshNetwork, "
        "CacheHonest, WriteRewrites, OnlyLoadWrites, LoadTotal; the printed behaviours (all 289 + 16 fresh-cache pairs, a seeded "
        "part of the rest in quick) are replayed with hit/miss observed through wrapped fromPickle/fromOpenDrive and the loaded "
        "network compared, incl. option-dependent observables, with a fresh parse under the SAME options; all present maps are "
        "exported and audited conjunct by conjunct, cached networks must export like parsed ones; 25 in-process mutants of the "
        "structure must be flagged.",
        "State audit, not a proof about the parser; geometric facts measured with shapely/numpy at a seeded sample of points; "
        "attributes outside the export (signals, speed limits, tags, curb) not compared; Town03/05 placeholders skipped; option "
        "sets under which a map fails its own construction assertions are counted, not audited; equivalent spellings of an option "
        "valuation may hit or parse; crossing conjuncts vacuous (no map has crossings). No open finding (raw-opendrive-id, "
        "reverse-maneuvers-of-merger, corrupt-cache-served are repaired).",
        "3/C20",
    ),
    "C09": (
        "exploration",
        "TLA+ PyFront.tla (Python 3.12 abstract grammar as data + Rewrite = the documented rewrites, invariants Total / "
        "IdentityWithoutTrigger / Idempotent / PositionsPreserved checked by TLC on every enumerated tree) bound to the code by "
        "replay: each text compiled by Scenic's parser (regenerated from scenic.gram) + compiler must equal Rewrite(CPython's "
        "ast.parse) node by node with line numbers",
        "Pairwise constructor coverage of the Python 3.12 abstract syntax (every constructor under every field of every "
        "constructor that CPython reads back, minimal + variants), every order of positional / starred / keyword / ** arguments "
        "CPython accepts in calls and class definitions, f-string debug fields (expression x `=` form x conversion x format spec "
        "incl. nested fields), subscripts of 1-3 index elements (names, slices, starred, ellipsis, tuples) in load / store / del / "
        "augmented / annotation positions, a catalogue of ~190 lexical forms and ~75 rewrite-trigger placements, at module level "
        "and (all or a seeded part) inside a behaviour body / require condition / specifier argument; tree and line numbers "
        "compared with Rewrite(ast.parse), and the compiled tree must pass compile().",
        "Reduced claim (DESIGN 5): no corpus run over the standard library; the oracle is CPython's parser; columns are "
        "don't-cares; trees deeper than two constructors and tokenizer behaviour outside the catalogue are not covered; an "
        "unparenthesised Python expression in a require / specifier position may be refused. No open finding (f-string incl. debug "
        "text after a form feed, ternary chain, behaviour-local target, empty target and star-annotation defects are repaired).",
        "3/C09",
    ),
    "C10": (
        "exploration",
        "TLA+ FrontEnd.tla (compilation lifecycle over the veneer's global state, re-entrant through imports, failure at every "
        "step, model-checked exhaustively) + FrontEndTrace.tla validating traces recorded by probes wrapped around the translator / "
        "veneer entry points while seeded token-mutated, line-truncated, targeted and statement-x-context matrix programs run "
        "through scenarioFromString, "
        "scenarioFromFile (incl. imported modules, CRLF / tabs / BOM / non-UTF-8 files) and parse+compile; FrontEndForms.tla "
        "formulas and every form quoted in the reference replayed into the parser",
        "Each program must end in a scenario or a ScenicSyntaxError naming a line inside the module it names (and, from a file, "
        "carrying that line's text), leave the veneer, sys.path and sys.modules quiescent also for the next compilation in the "
        "same process, and its event trace must be a behaviour of the lifecycle machine (an internal error at an input stage has "
        "no action); every documented form and every requirement formula of depth <= 2 must compile with the documented grouping.",
        "Totality over all texts is approximated by seeded mutation of ~880 seed programs, truncation of 7 base programs at every "
        "line boundary, targeted texts (incl. long operator / call / elif chains) and a matrix of 48 statement forms in 20 "
        "contexts (960 programs, each compiling or refused with a located error); exec-stage errors of the user's own code are "
        "don't-cares (only cleanup is checked); "
        "error messages not compared; seeds needing a simulator / map world model only go through the bare pipeline. No open "
        "finding (all front-end crashes found are repaired).",
        "3/C10",
    ),
    "C15": (
        "model_checking",
        "TLA+ Determinism.tla: self-composition of the Sampler machine (two copies, same program and RNG stream with a position, "
        "different environments: order of an unordered group of dependencies (requirement-only values / an object's random "
        "properties / the random parameters of one param statement / the random locals of a modular scenario), requirement-check "
        "order as a nondeterministic permutation, internal randomness between SaveRng/RestoreRng, 0-2 prior scenes) checked by "
        "TLC; the set-ordered, never-restored, restored-only-when-accepted and skip-a-requirement-once-another-passed variants "
        "must fail; "
        "bound to the code by cross-process trace validation (DeterminismTrace.tla looks for ONE unlogged order explaining the "
        "draw traces of N perturbed fresh interpreters) and equality of canonical dumps",
        "TLC enumerates every environment and RNG stream for programs with <= 3 values in the unordered group, <= 3 requirements "
        "(all check orders), <= 2 prior scenes and checks Deterministic, PrefixConsistent, StreamUntouched, FlagsFresh "
        "(counterexamples of the failing variants in the evidence). Every generated program is run in 4-6 (quick) / 7-9 "
        "(thorough) fresh processes with the same seeds and different hash seeds (chosen to cover the orderings of the needed "
        "names), heap layout, scripted asc / desc or jittering checker clock, prior scenes, import order, reused process; the "
        "dumps (params, all object properties, iterations, further scenes, simulation result, generator states afterwards) must "
        "be identical and every traced draw trace a behaviour of the specification under one common order.",
        "Program families: finite-discrete programs (requirement-only values, RNG-consuming requirements, behaviours simulated with "
        "DummySimulator), classes whose defaults need several random properties, multi-name param statements (with / without a "
        "world model), modular scenarios with random locals, two mesh programs (ring arena; box around a non-convex solid with the "
        "blanket collision check; dump comparison only, no trace); a handful of perturbed layouts / hash seeds / timing profiles "
        "per program, not all (the exhaustive enumeration is on the model); pruning, visibility and external samplers are outside; "
        "run-time draws are logged but not replayed in TLC. No open finding (requirement-deps-set-order and the hash-ordered "
        "locals of modular scenarios are repaired; a regression is a violation).",
        "3/C15",
    ),
    "C16": (
        "model_checking",
        "TLA+ RegionAlg.tla / RegionGeom.tla: structural 3-D membership, height, AABB, distance, intersects and containment of "
        "lattice regions (incl. mesh volumes whose cross-sections have a hole) and their compositions with the set laws as TLC "
        "invariants over every ordered pair of a 35-region catalogue x 700 probes, plus reuse histories (one operand object reused "
        "over several steps against operands translated along z, also straddling the end of a cached prism; HistoryFree); bound to "
        "the code by replay of containsPoint/z/AABB/size/distanceTo/intersects/containsRegion of operands and results and by TLC "
        "classifying seeded samples of every result region",
        "TLC checks LawMember, LawCommute, LawPartition, LawIdentities, LawPlane, HeightSound, BoxSound, DistSound, MeasSound, "
        "IntersectsSound, ContainsSound, HistoryFree on every (ordered pair, operation) and history step; every answer of the real "
        "regions on the probes the spec allows, every height, AABB and (where the lattice decides it) size, and every sample drawn "
        "from a result must agree with the "
        "printed expectation, whatever the operand objects were used for before; unsupported combinations must refuse with the "
        "documented exception kinds (anything else is a crash).",
        "Integer-lattice sub-universe only (axis-parallel / 45-90 degree shapes, heights 0 and 2); quick = a core, the holed-mesh "
        "pairs and seeded others (about 480 of the 1 225 ordered pairs); containsPoint compared only in the common plane of planar "
        "operands and clear of boundaries; touching configurations, probes within half a unit of a common face plane of two "
        "volumes and samples in cells crossed by an arc are don't-cares; curved kinds with a margin; projectVector and lazily "
        "evaluated operands not bound. No open finding (the eleven region defects found, the last being containsRegion ignoring "
        "heights, are repaired; their trigger predicates stay in the spec but excuse nothing).",
        "3/C16",
    ),
    "C11": (
        "model_checking",
        "TLA+ Temporal.tla (textbook strong finite-trace semantics Sat, Doomed, a transcription of the rv_ltl four-valued monitor "
        "with an as-implemented/corrected switch, the offset of the step at which the statement takes effect, and the printer of "
        "the concrete syntax) checked by TLC on every (formula, offset, trace prefix) of the batch; bound to the code by replay: "
        "generated Scenic programs whose atoms read a harness-owned step-indexed truth table, one DummySimulator run per "
        "(formula, placement, trace), outcome compared with TLC's record; proposition tree read back for both parenthesisations",
        "For every formula of the batch (all of depth <= 1, the forms the reference quotes, pointed shapes, a seeded sample (quick) "
        "/ all (thorough) of depth 2, a depth-3 sample) TLC enumerates all traces over two atoms up to length 3 (quick) / 4 "
        "(thorough), checks MonitorExact, RejectSound, DemandExact, CurrentStepOnly, DiffOnlyUnderTrigger, OutcomeVerdict, "
        "NothingBeforeEffect (and DoomMonotone, HorizonStable, TrueIsAssured, Dualities on a lemma batch); the real `require` at "
        "top level, in a run-time sub-scenario's setup block, and executed in the compose block of the top-level scenario / of a "
        "sub-scenario after k = 0..2 waits must be accepted iff Sat on its window, rejected early only where Doomed, at once for "
        "`always` of a false non-temporal condition; the same statement executed twice in one compose block (steps 0 and 1) must be "
        "accepted iff Sat holds for the trace and for its suffix; the tree built from minimal and fully parenthesised text must be the formula.",
        "Two atoms, traces <= 4 (compose placements: windows <= 3), depth <= 3 (depth 3 sampled); atoms are pure table look-ups, "
        "DummySimulator; compose placements run one (k, ending) combination per (formula, trace), not the full product; a "
        "`require` executed in a behaviour or monitor and soft temporal requirements are not exercised; Doomed looks depth+1 "
        "steps ahead (stability checked on the lemma batch). Open known finding: until-at-offset (third-party rv_ltl `until` "
        "under next / always / eventually / until); the parse, non-temporal implies and compose-block defects are repaired.",
        "3/C11",
    ),
    "C12": (
        "model_checking",
        "TLA+ Dynamics.tla (the reference's ten-step procedure, one action per numbered step, plus a coroutine machine for "
        "behaviour/monitor statements) checked by TLC per case (PhaseOrder, ClockOnlyInTick, NothingAfterEnding, "
        "EachAgentOncePerStep, OneEntryPerStep); bound to the code by replay: generated Scenic program + logging Simulator "
        "subclass, observed event sequence must equal the behaviour TLC emits",
        "For every case (program of the core dynamic fragment x truth table x agent schedule x time step) TLC runs the "
        "specification, checks the phase-order action properties and emits the expected event log; the real "
        "Simulator.simulate is driven with the same table and schedules and its create/record/monitor/schedule/behaviour/"
        "exec/simstep/read events, ending type and step, action-log and trajectory lengths must coincide.",
        "Covers the flat fragment and trees of scenario instances (compose blocks, parallel and sequential sub-scenarios, do-for/"
        "until over scenarios, their monitors/records/terminate statements, objects created by sub-scenario setup blocks and "
        "`terminate` by their agents, the order of application of the chosen actions); not modelled: override, temporal "
        "requirements inside scenarios (C11), sensors, recorders; conditions are table look-ups; the case->Scenic printer is "
        "trusted; exhaustive duration / nested / dynamic-object cores, an idle core (steps in which no agent has a behaviour: the "
        "action dict is empty and executeActions still runs) + seeded random programs.",
        "3/C12",
    ),
    "C13": (
        "model_checking",
        "TLA+ Dynamics.tla try/interrupt + guard semantics (Walk/EnterBlock/Unwind/StartBeh) run by TLC per case; replay into the "
        "real simulator with and without raiseGuardViolations, event sequences and endings compared; named as-implemented "
        "deviations (UnwindReturnImpl, invimpl) with trigger predicates for the known findings",
        "Each case (program of the interrupt fragment x step-indexed truth table of interrupt conditions and guards) has exactly "
        "one behaviour in the spec; the real code must produce the same action/log sequence, the same ending, and raise the "
        "right GuardViolation class when asked to. Exhaustive small core (all tables over 4 steps), targeted nested-flow core, "
        "invariant core (invariants broken and restored inside sub-behaviours), compose-level core (try/interrupt in compose "
        "blocks whose blocks invoke sub-scenarios: resume-where-stopped, suspended and abandoned sub-scenarios), seeded random "
        "nested programs.",
        "Productive programs only; the random generator keeps the invariants of a behaviour true while it runs a sub-behaviour "
        "under do-for/do-until/try (the targeted core decides that situation: known finding invariant-checked-inside-sub-behaviour).",
        "3/C13",
    ),
    "C19": (
        "model_checking",
        "TLA+ Dynamics.tla choose/shuffle/run-time-draw actions (Pick for behaviours, oracle scripts for compose blocks and "
        "monitors, exact rational weights) enumerated by TLC; bound to the "
        "code by exhaustive scripted-RNG replay of Simulator.simulate (every RNG branch), exact law over runs compared",
        "For each case TLC enumerates every random outcome with its exact weight; the scripted-RNG driver executes the real "
        "simulation once per RNG branch with weights computed from the logged random.choices/randint arguments; the two laws over "
        "(event log, ending) must be equal as rationals (hence enabled-set conditioning, weights, exactly-once for shuffle, "
        "deadlock rejection, independence of run-time draws).",
        "choose/shuffle over sub-behaviours and over sub-scenarios (compose blocks), run-time draws in behaviours, monitors and "
        "compose blocks; item sets of size <= 3; random programs cover the behaviour forms only; scripted random module.",
        "3/C19",
    ),
}

NOT_YET ="check not built yet (build in progress): no TLA+ specification/conformance harness committed for it so far"

manifest = {
    "version": 1,
    "setup_cmd": "cd /verif && /venv/bin/python harness/setup_check.py",
    "hooks": {
        "guard": "SCENIC_VERIF",
        "enable": "no repository hooks: all observation is done from the harness by monkeypatching "
        "(scripted random module, wrapped requirement instances, logging Simulator subclass)",
        "baseline_off_cmd": BASELINE,
        "source_commits": [],
        "add_only": True,
    },
    "engines": [
        {
            "name": "tlc",
            "path": "/opt/veriftools/tla/tla2tools.jar",
            "serves_properties": sorted(CHECKS),
            "kind_free_text": "TLC 1.8 explicit-state model checker on the TLA+ specifications under /verif/spec; "
            "the Python harness under /verif/harness binds them to /repo (replay of TLC behaviours / trace validation)",
        }
    ],
    "checks": [],
    "notes": "See DESIGN.md. ./check <id> --tier quick|thorough; exit 0 held, 1 VIOLATION, 2 machinery failure. "
    "Known findings: KNOWN_FINDINGS.txt.",
    "not_applicable": [],
}
for pid in ids:
    if pid in CHECKS:
        cat, tech, text, note, ref = CHECKS[pid]
        manifest["checks"].append(
            {
                "property_id": pid,
                "quick_cmd": f"./check {pid} --tier quick",
                "thorough_cmd": f"./check {pid} --tier thorough",
                "evidence_file": f"/verif/evidence/{pid}.json",
                "replay_cmd_template": f"./check {pid} --replay {{path}}",
                "engine": "tlc",
                "level_claimed": {"category": cat, "text": text, "design_ref": ref},
                "level_note": note,
                "technique": tech,
            }
        )
    else:
        manifest["not_applicable"].append({"property_id": pid, "reason": NOT_YET})
with open(os.path.join(VERIF, "MANIFEST.json"), "w") as f:
    json.dump(manifest, f, indent=1)
print("checks:", [c["property_id"] for c in manifest["checks"]])
