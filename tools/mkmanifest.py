#!/usr/bin/env python3
"""Regenerate MANIFEST.json from the table below (single source of truth for the interface)."""
import json
import os

VERIF = os.path.dirname(os.path.dirname(os.path.abspath(__file__)))
props = [json.loads(l) for l in open(os.path.join(VERIF, "properties.jsonl"))]
ids = [p["id"] for p in props]

BASELINE = (
    "cd /repo && /venv/bin/python -m pytest -ra -q -p no:cacheprovider --timeout=900 "
    "--continue-on-collection-errors"
)

# id -> (category, technique, level text, level note, design ref)
CHECKS = {
    "C01": (
        "model_checking",
        "TLA+ Sampler.tla (operational rejection sampler + denotational prior) checked by TLC per program; "
        "bound to the code by exhaustive scripted-RNG replay: every RNG branch of Scenario.generate, exact rational law compared",
        "TLC explores every RNG outcome of every generated program (all attempts up to maxIter) and checks DrawnOnce, ChainRule, "
        "VerdictExact, IterExact, ActivateOnce; the law over (scene, iterations, exhaustion) derived from the spec's denotational "
        "table must equal, as exact rationals, the law obtained by running the real Scenario.generate once per RNG branch.",
        "Finite-discrete fragment only; scripted random module (random/randint/choices); the Scenic-text/JSON printer pair is trusted; "
        "programs are an exhaustive two-draw core plus seeded random programs, not all programs.",
        "3/C01",
    ),
}

NOT_YET = "check not built yet (build in progress): no TLA+ specification/conformance harness committed for it so far"

manifest = {
    "version": 1,
    "setup_cmd": "cd /verif && /venv/bin/python harness/setup_check.py",
    "hooks": {
        "guard": "SCENIC_VERIF",
        "enable": "no repository hooks: all observation is done from the harness by monkeypatching "
        "(scripted random module, wrapped requirement instances, logging Simulator subclass)",
        "baseline_off_cmd": BASELINE,
        "source_commits": [],
        "add_only": True,
    },
    "engines": [
        {
            "name": "tlc",
            "path": "/opt/veriftools/tla/tla2tools.jar",
            "serves_properties": sorted(CHECKS),
            "kind_free_text": "TLC 1.8 explicit-state model checker on the TLA+ specifications under /verif/spec; "
            "the Python harness under /verif/harness binds them to /repo (replay of TLC behaviours / trace validation)",
        }
    ],
    "checks": [],
    "notes": "See DESIGN.md. ./check <id> --tier quick|thorough; exit 0 held, 1 VIOLATION, 2 machinery failure. "
    "Known findings: KNOWN_FINDINGS.txt.",
    "not_applicable": [],
}
for pid in ids:
    if pid in CHECKS:
        cat, tech, text, note, ref = CHECKS[pid]
        manifest["checks"].append(
            {
                "property_id": pid,
                "quick_cmd": f"./check {pid} --tier quick",
                "thorough_cmd": f"./check {pid} --tier thorough",
                "evidence_file": f"/verif/evidence/{pid}.json",
                "replay_cmd_template": f"./check {pid} --replay {{path}}",
                "engine": "tlc",
                "level_claimed": {"category": cat, "text": text, "design_ref": ref},
                "level_note": note,
                "technique": tech,
            }
        )
    else:
        manifest["not_applicable"].append({"property_id": pid, "reason": NOT_YET})
with open(os.path.join(VERIF, "MANIFEST.json"), "w") as f:
    json.dump(manifest, f, indent=1)
print("checks:", [c["property_id"] for c in manifest["checks"]])
