#!/usr/bin/env python3
"""Regenerate MANIFEST.json from the table below (single source of truth for the interface)."""
import json
import os

VERIF = os.path.dirname(os.path.dirname(os.path.abspath(__file__)))
props = [json.loads(l) for l in open(os.path.join(VERIF, "properties.jsonl"))]
ids = [p["id"] for p in props]

BASELINE = (
    "cd /repo && /venv/bin/python -m pytest -ra -q -p no:cacheprovider --timeout=900 "
    "--continue-on-collection-errors"
)

# id -> (category, technique, level text, level note, design ref)
CHECKS = {
    "C01": (
        "model_checking",
        "TLA+ Sampler.tla (operational rejection sampler + denotational prior) checked by TLC per program; "
        "bound to the code by exhaustive scripted-RNG replay: every RNG branch of Scenario.generate, exact rational law compared",
        "TLC explores every RNG outcome of every generated program (all attempts up to maxIter) and checks DrawnOnce, ChainRule, "
        "VerdictExact, IterExact, ActivateOnce; the law over (scene, iterations, exhaustion) derived from the spec's denotational "
        "table must equal, as exact rationals, the law obtained by running the real Scenario.generate once per RNG branch.",
        "Finite-discrete fragment only; scripted random module (random/randint/choices); the Scenic-text/JSON printer pair is trusted; "
        "programs are an exhaustive two-draw core plus seeded random programs, not all programs.",
        "3/C01",
    ),
    "C02": (
        "model_checking",
        "TLA+ Checker.tla (requirement objects of a lattice program, truth from the exact Overlap.tla oracle, checker actions "
        "Sort = any permutation / DropTrailingOptional / Eval / UpdateStats, BasicChecker) checked by TLC over program x assignment x "
        "active set x order; bound to the code by running Scenario.generate once per RNG branch under four checker passes with a "
        "scripted clock, auditing every verdict against SceneOK and validating every logged Eval trace with CheckerTrace.tla",
        "TLC checks AcceptSound, OnlyOptionalSkipped, RejectSound, OrderIrrelevant, OptionalConsistent, ListMatchesReference, "
        "StatsExact, InOrder for every assignment and order of every generated program; every accepted real scene must satisfy "
        "SceneOK of its assignment, no assignment with SceneOK = T may be rejected, and the logged Eval sequences are accepted by "
        "CheckerTrace.tla.",
        "Lattice programs only, 3-D mode, visibility only in clear-cut configurations, touching = don't-care, seeded program sample, "
        "permutations complete up to 5 active requirements.",
        "3/C02",
    ),
    "C04": (
        "model_checking",
        "TLA+ Overlap.tla: exact integer oracle for unions of lattice boxes under the 24 cube rotations + the decision lists of "
        "Object.intersects / MeshVolumeRegion.intersects / containsObject / PolygonalFootprintRegion.containsObject / "
        "minimumDistanceTo as guarded exits over named exact quantities; TLC checks every exit sound, lists total, oracle lemmas; "
        "bound to the code by replay of a stratified batch on the real objects (answers compared, exits probed with sys.monitoring)",
        "TLC enumerates every configuration of the universe blocks and every internal choice and checks ExitsSound, DoneSound, "
        "OracleLemmas and deadlock-freedom; the batch configurations are replayed on the real Object/Region code and intersects "
        "(both directions), containsObject and minimumDistanceTo must equal the oracle unless the configuration touches.",
        "Exact lattice sub-universe only (no generic angles, curved primitives, composed regions); touching = don't-care; known "
        "findings fcl-convex-distance (third-party) and nested-nonconvex-distance.",
        "3/C04",
    ),
    "C14": (
        "fault_enumeration",
        "TLA+ Lifecycle.tla (interpreter-state projection, proxies, override ledgers, fault disjunct in every state, cleanup of the "
        "finally clause, run-time writes to overridable properties, three nested scenarios) model-checked by TLC incl. three named as-implemented deviations (each found in the code and repaired); bound to the code by exhaustive fault "
        "enumeration (site x occurrence x ending x follow-up operation) with before/after snapshots and clean-process digests, and "
        "by trace validation of wrapper-recorded events with LifecycleTrace.tla",
        "For every fault schedule the real program raises at that point; the veneer globals named by the property, every tracked "
        "property of every scene object and proxy identity must be unchanged afterwards, the follow-up operation must give the "
        "digest a clean process gives, and the recorded begin/create/start/override/stop/read-back/destroy/unproxy/end trace must be "
        "a behaviour of Lifecycle.tla (ideal constants); TLC also shows the ideal model satisfies Quiescent/SceneUntouched/"
        "RevertOnStop and that each named deviation violates one of them.",
        "One program template (Main > Child > Inner, both children overriding the same property, Child cut short while Inner "
        "runs, a behaviour assigning the property before it is overridden) in two variants; model-import faults and Simulation.destroy faults are not injected; internal run "
        "flags are diagnostic only; known finding current-behavior-restored-late.",
        "3/C14",
    ),
    "C18": (
        "fault_enumeration",
        "TLA+ Codec.tla (scene writer/reader over the sample DAG with the seen set, byte-level integer fields, Truncate/Flip/Foreign "
        "faults; strict reader = ideal, lenient reader = named deviation) and Replay.tla (record/replay/divergence step machine) "
        "checked by TLC; bound to the code by replay: every sample of every program through sceneToBytes/sceneFromBytes, every "
        "truncation point and representative byte changes, foreign readers, and every TLC behaviour of Replay.tla through "
        "simulate/simulationToBytes/simulationFromBytes with scripted RNG and a perturbing simulator",
        "TLC checks RoundTrip, FieldsExact, OnlySelected, TruncationRefused, CorruptionContained, HeaderGuards, ReplayEqual, "
        "LongerReplayContinues, DivergenceDetectedBothSigns on every (program, sample, fault)/behaviour; on the real code every "
        "truncation point of every distinct encoding must raise SerializationError, changed bytes give a scene or "
        "SerializationError, foreign readers refuse, decoded scenes equal the originals, replays reproduce the run and report a "
        "divergence iff |actual - expected| > tolerance in either direction.",
        "Integer, float and Vector primitives only; representative flips per byte (truncation exhaustive per encoding); boundary "
        "core + seeded random programs; harness-written deterministic simulator for replays.",
        "3/C18",
    ),
    "C03": (
        "model_checking",
        "TLA+ RegionSampling.tla (discrete samplers exactly; the generic union/intersection/difference samplers as state machines "
        "checked by TLC over all pairs of subsets of 5 atoms with exact rationals: ChainRule, Proportional) bound to the code by "
        "exhaustive scripted-RNG replay of discrete compositions (exact laws), trace validation of the real generic samplers with "
        "the same actions, and lattice classification of seeded samples by RegionGeom.tla",
        "Layer (a): the exact law of every discrete composition (point sets, grids, point set x region) must be uniform on the "
        "composed set computed from lattice membership; layer (b): traces of the real UnionRegion/IntersectionRegion/"
        "DifferenceRegion samplers (choices weights, operand draws, multiplicity coin, returned point) must be behaviours of the "
        "TLC-checked machine; layer (c): every sample of every primitive and specialised composition must be a member in all three "
        "coordinates, polygon triangulation weights exact.",
        "Uniformity of continuous primitive samplers is NOT decided (membership and triangulation weights only); two operands; "
        "lattice sub-universe; seeded traces.",
        "3/C03",
    ),
    "C05": (
        "model_checking",
        "TLA+ Expr.tla over lib/PyNum.tla: Eval of expression DAGs in plain-Python semantics (integers and dyadic floats, lifted "
        "operators incl. reflected forms, divmod/round/abs, getitem/slices, calls with keyword and star arguments, attribute of a "
        "random choice, `self.`-dependent class defaults as a dependency fixpoint) and the library's construction rewrites with "
        "their side conditions, checked by TLC on every leaf assignment; bound to the code by replay: every node of every DAG is a "
        "global parameter of a generated program and every RNG branch of Scenario.generate is compared with TLC's vectors, "
        "supportInterval must contain the exact support",
        "TLC enumerates every leaf assignment of every case, checks the Python laws, the rewrite side conditions and the dependency "
        "fixpoint and prints every node value and the exact supports; the set of value vectors observed over all RNG branches of "
        "the real program must equal the printed set and each supportInterval must contain the spec's min/max or be unknown.",
        "Exact sub-universe (ints, dyadic floats, tuples; Range scripted to lo/mid/hi); error and non-dyadic cases dropped by the "
        "spec's well-formedness predicate; vectors, orientations, trigonometry, str, dicts not covered; exhaustive core + seeded "
        "random DAGs; four open known findings.",
        "3/C05",
    ),
    "C06": (
        "model_checking",
        "TLA+ Specifiers.tla: the reference's declarative five-step resolution and the _resolveSpecifiers algorithm as a state "
        "machine over the documented specifier table; TLC enumerates every word of specifier symbols per class (EvalSeesFinal, "
        "WrittenOnce, ExactlyOne, DeclOrderIndependent, DupIsTie, DiffExplained); bound to the code by table conformance of every "
        "documented form and class default and by replay of the emitted cases as `new C <specifiers>` in compiled Scenic programs",
        "Every documented form's priorities, dependencies and modifying-ness and every class default are compared with the code; "
        "each replayed (bag, permutation, class) must raise an admissible error kind or give every property its documented winner's "
        "value in the final context, evaluated in an order satisfying the reference's dependency edges.",
        "Tables hand-transcribed from the reference; words <= 3 (4 in 2D over 9 symbols), length 3 sampled in quick; value functions "
        "are C07's subject; known finding tie-below-winner.",
        "3/C06",
    ),
    "C07": (
        "model_checking",
        "TLA+ GeomSpec.tla over lib/Lat3.tla: one definition per documented specifier/operator on the lattice sub-universe "
        "(cube-group and Pythagorean rotations as integer matrices with a common denominator), evaluated and lemma-checked by TLC "
        "per case; bound to the code by replay: every case created in a compiled Scenic program, position / orientation matrix / "
        "operator value compared (abs tol 1e-6)",
        "TLC evaluates every generated case (constructs x reference poses x rotations x parent orientations), checks the frame "
        "lemmas (bounding-box gap through the target's inverse orientation, line-of-sight frame, isometry) and prints expected "
        "position, rotation matrix, angle or squared distance; all replayed on real objects.",
        "Sub-universe only (quarter lattice, cube rotations + Pythagorean yaws); `by` absent or scalar; `following`/`on`/`distance "
        "past` not covered; `apparently facing` demanded only for planar parents (known finding); case printer is trusted glue.",
        "3/C07",
    ),
    "C17": (
        "model_checking",
        "TLA+ Visibility.tla over lib/Lat3.tla (exact lattice geometry: cube-group and Pythagorean rotations, integer slab test) "
        "checked by TLC over templates x relative rotations x viewer orientations x viewer parameters x occluder prefixes; bound to "
        "the code by replay: real Point/OrientedPoint/Object (3D and 2D) built at the printed poses, canSee / "
        "visibleRegion.containsPoint / the `can see` operator compared",
        "TLC enumerates every case of the generated cross product, checks the frame lemmas, consistency of the three object clauses "
        "with each other and with the exact point specification, and monotonicity in occluders; every printed expectation "
        "(TRUE/FALSE/free per occluder prefix) is replayed on the real objects.",
        "Sub-universe only: quarter-lattice scenes, 24 cube rotations + 5 Pythagorean yaws, view angles {90,180,270,360}x{90,180}, "
        "box targets/occluders; exact for points off boundaries, three clauses for objects (rest free).",
        "3/C17",
    ),
    "C08": (
        "model_checking",
        "TLA+ Relations.tla (function specification of bound extraction from requirement syntax: every comparison shape x "
        "constants, soundness of the tightest interval checked by TLC) and Pruning.tla (feasible positions of lattice programs "
        "versus the documented pruning techniques); bound to the code by replay of the extracted relations and by differential "
        "validation: each program compiled with and without pruning, feasible probes must lie in the real pruned region and "
        "accepted scenes of the unpruned program must be generable",
        "TLC enumerates every requirement shape and every lattice program of the batch, checks Feasible within PrunedIdeal within "
        "Base and the soundness of extracted intervals; on the real code a feasible probe outside the pruned region, a satisfiable "
        "program refused or not terminating, or a non-positional property changed is a violation.",
        "Lattice sub-universe (rectilinear regions, headings multiple of 90 degrees), marginal feasibility over a finite witness set, "
        "seeded programs; an unsound interval alone is only an observation unless it changes a pruned region.",
        "3/C08",
    ),
    "C20": (
        "model_checking",
        "TLA+ MapCache.tla (cache protocol: Load/EditMap/ChangeOptions/CorruptCache/BumpVersion) model-checked exhaustively and "
        "replayed behaviour by behaviour on the real Network.fromFile; TLA+ RoadNet.tla (40 named conjuncts of WellFormed from the "
        "attribute documentation and the maintainers' single-map tests) evaluated by TLC on the exported link structure and measured "
        "point facts of every present map x parser options x parsed/cached/mutated file; byte-fault sweep of a cache file",
        "TLC explores every sequence of <= 4 cache actions and checks HitOnlyWhenAllMatch, HitWhenAllMatch, FreshNetwork, "
        "CacheHonest, WriteRewrites, LoadTotal; every printed behaviour is replayed with hit/miss observed through wrapped "
        "fromPickle/fromOpenDrive and the loaded network compared with a fresh parse; all present maps are exported and audited "
        "conjunct by conjunct; 25 in-process mutants of the structure must be flagged.",
        "State audit, not a proof about the parser; geometric facts measured with shapely at a seeded sample of points; Town03/05 "
        "placeholders skipped; three known findings.",
        "3/C20",
    ),
    "C09": (
        "exploration",
        "TLA+ PyFront.tla (Python 3.12 abstract grammar as data + Rewrite = the documented rewrites, invariants Total / "
        "IdentityWithoutTrigger / Idempotent / PositionsPreserved checked by TLC on every enumerated tree) bound to the code by "
        "replay: each text compiled by Scenic's parser (regenerated from scenic.gram) + compiler must equal Rewrite(CPython's "
        "ast.parse) node by node with line numbers",
        "Pairwise constructor coverage of Python's abstract syntax (every constructor under every field of every constructor), a "
        "catalogue of lexical forms and every rewrite trigger, each in module / behaviour / require / specifier context.",
        "Reduced claim (DESIGN 5): no corpus run over the standard library; the oracle is CPython's parser; columns are don't-cares.",
        "3/C09",
    ),
    "C10": (
        "exploration",
        "TLA+ FrontEnd.tla (compilation lifecycle over the veneer state, model-checked exhaustively) + FrontEndTrace.tla validating "
        "recorded traces of seeded token-mutation runs of scenarioFromString / parse+compile; FrontEndForms.tla formulas and every "
        "form quoted in the reference replayed into the parser",
        "Each mutated program must end in a scenario or a ScenicSyntaxError with a line inside the input, leave the veneer "
        "quiescent, and its event trace must be a behaviour of the lifecycle machine; every documented form must compile with the "
        "documented grouping.",
        "Totality over all texts is approximated by seeded mutation of ~900 seed programs; exec-stage user errors are don't-cares.",
        "3/C10",
    ),
    "C15": (
        "model_checking",
        "TLA+ Determinism.tla: self-composition of the sampler machine on one program and RNG stream under different environments "
        "(dependency order, check order, internal RNG consumption, prior scenes); TLC shows the ordered model deterministic and the "
        "set-ordered / no-restore models not; bound to the code by cross-process trace validation (DeterminismTrace.tla looks for "
        "ONE dependency order explaining the draw traces of N perturbed fresh processes) and equality of canonical dumps",
        "Every program is run in N fresh processes with the same seeds and different perturbations (hash seed, heap layout, jittering "
        "clock, prior scenes); dumps (params, object properties, iterations, generator state, simulation results) must be identical "
        "and the draw traces jointly accepted by DeterminismTrace.tla.",
        "Finite-discrete programs plus a few dynamic ones; perturbations are a sample of the environments; counts of exposed "
        "programs vary with the heap, the verdict does not.",
        "3/C15",
    ),
    "C16": (
        "model_checking",
        "TLA+ RegionAlg.tla / RegionGeom.tla: structural 3-D membership, height, AABB, distance, intersects and containment of "
        "lattice regions and their compositions with the set laws as TLC invariants over every ordered pair of a 29-region "
        "catalogue x 700 probes; bound to the code by replay of containsPoint/z/AABB/distanceTo/intersects/containsRegion and by "
        "TLC classifying seeded samples of every result region",
        "The set laws hold in the spec on every (ordered pair, operation); every real answer, height and sample must agree with the "
        "printed expectation; unsupported combinations must refuse with the documented exception kinds.",
        "Lattice sub-universe; quick = 213 of 841 ordered pairs; containsPoint compared only in the common plane of planar "
        "operands; projectVector and lazy operands not bound; several open known findings.",
        "3/C16",
    ),
    "C11": (
        "model_checking",
        "TLA+ Temporal.tla (textbook strong finite-trace semantics Sat, Doomed, a transcription of the rv_ltl four-valued monitor "
        "with an as-implemented/corrected switch, and the printer of the concrete syntax) checked by TLC on every (formula, trace "
        "prefix) of the batch; bound to the code by replay: generated Scenic programs whose atoms read a harness-owned step-indexed "
        "truth table, one DummySimulator run per (formula, placement, trace), outcome compared with TLC's record; proposition tree "
        "read back for both parenthesisations",
        "For every formula of the batch TLC enumerates all traces over two atoms up to length 3 (quick) / 4 (thorough), checks "
        "MonitorExact, RejectSound, DemandExact, CurrentStepOnly, DiffOnlyUnderTrigger, OutcomeVerdict (and DoomMonotone, "
        "HorizonStable, TrueIsAssured, Dualities on a lemma batch); the real `require` at top level and in a sub-scenario's setup "
        "block must be accepted iff Sat, rejected early only where Doomed, at once for `always` of a false non-temporal condition; "
        "the tree built from minimal and fully parenthesised text must be the formula.",
        "Two atoms, traces <= 4, depth <= 3 (depth 3 sampled); atoms are pure table look-ups; a `require` executed inside a compose "
        "block is not exercised (undocumented timing); known finding: third-party rv_ltl until at an offset.",
        "3/C11",
    ),
    "C12": (
        "model_checking",
        "TLA+ Dynamics.tla (the reference's ten-step procedure, one action per numbered step, plus a coroutine machine for "
        "behaviour/monitor statements) checked by TLC per case (PhaseOrder, ClockOnlyInTick, NothingAfterEnding, "
        "EachAgentOncePerStep, OneEntryPerStep); bound to the code by replay: generated Scenic program + logging Simulator "
        "subclass, observed event sequence must equal the behaviour TLC emits",
        "For every case (program of the core dynamic fragment x truth table x agent schedule x time step) TLC runs the "
        "specification, checks the phase-order action properties and emits the expected event log; the real "
        "Simulator.simulate is driven with the same table and schedules and its create/record/monitor/schedule/behaviour/"
        "exec/simstep/read events, ending type and step, action-log and trajectory lengths must coincide.",
        "Covers the flat fragment and trees of scenario instances (compose blocks, parallel and sequential sub-scenarios, do-for/"
        "until over scenarios, their monitors/records/terminate statements, objects created by sub-scenario setup blocks and "
        "`terminate` by their agents, the order of application of the chosen actions); not modelled: override, temporal "
        "requirements inside scenarios (C11), sensors, recorders; conditions are table look-ups; the case->Scenic printer is "
        "trusted; exhaustive duration / nested / dynamic-object cores + seeded random programs.",
        "3/C12",
    ),
    "C13": (
        "model_checking",
        "TLA+ Dynamics.tla try/interrupt + guard semantics (Walk/EnterBlock/Unwind/StartBeh) run by TLC per case; replay into the "
        "real simulator with and without raiseGuardViolations, event sequences and endings compared; named as-implemented "
        "deviations (UnwindReturnImpl, invimpl) with trigger predicates for the known findings",
        "Each case (program of the interrupt fragment x step-indexed truth table of interrupt conditions and guards) has exactly "
        "one behaviour in the spec; the real code must produce the same action/log sequence, the same ending, and raise the "
        "right GuardViolation class when asked to. Exhaustive small core (all tables over 4 steps), targeted nested-flow core, "
        "invariant core (invariants broken and restored inside sub-behaviours), compose-level core (try/interrupt in compose "
        "blocks whose blocks invoke sub-scenarios: resume-where-stopped, suspended and abandoned sub-scenarios), seeded random "
        "nested programs.",
        "Productive programs only; the random generator keeps the invariants of a behaviour true while it runs a sub-behaviour "
        "under do-for/do-until/try (the targeted core decides that situation: known finding invariant-checked-inside-sub-behaviour).",
        "3/C13",
    ),
    "C19": (
        "model_checking",
        "TLA+ Dynamics.tla choose/shuffle/run-time-draw actions (Pick for behaviours, oracle scripts for compose blocks and "
        "monitors, exact rational weights) enumerated by TLC; bound to the "
        "code by exhaustive scripted-RNG replay of Simulator.simulate (every RNG branch), exact law over runs compared",
        "For each case TLC enumerates every random outcome with its exact weight; the scripted-RNG driver executes the real "
        "simulation once per RNG branch with weights computed from the logged random.choices/randint arguments; the two laws over "
        "(event log, ending) must be equal as rationals (hence enabled-set conditioning, weights, exactly-once for shuffle, "
        "deadlock rejection, independence of run-time draws).",
        "choose/shuffle over sub-behaviours and over sub-scenarios (compose blocks), run-time draws in behaviours, monitors and "
        "compose blocks; item sets of size <= 3; random programs cover the behaviour forms only; scripted random module.",
        "3/C19",
    ),
}

NOT_YET ="check not built yet (build in progress): no TLA+ specification/conformance harness committed for it so far"

manifest = {
    "version": 1,
    "setup_cmd": "cd /verif && /venv/bin/python harness/setup_check.py",
    "hooks": {
        "guard": "SCENIC_VERIF",
        "enable": "no repository hooks: all observation is done from the harness by monkeypatching "
        "(scripted random module, wrapped requirement instances, logging Simulator subclass)",
        "baseline_off_cmd": BASELINE,
        "source_commits": [],
        "add_only": True,
    },
    "engines": [
        {
            "name": "tlc",
            "path": "/opt/veriftools/tla/tla2tools.jar",
            "serves_properties": sorted(CHECKS),
            "kind_free_text": "TLC 1.8 explicit-state model checker on the TLA+ specifications under /verif/spec; "
            "the Python harness under /verif/harness binds them to /repo (replay of TLC behaviours / trace validation)",
        }
    ],
    "checks": [],
    "notes": "See DESIGN.md. ./check <id> --tier quick|thorough; exit 0 held, 1 VIOLATION, 2 machinery failure. "
    "Known findings: KNOWN_FINDINGS.txt.",
    "not_applicable": [],
}
for pid in ids:
    if pid in CHECKS:
        cat, tech, text, note, ref = CHECKS[pid]
        manifest["checks"].append(
            {
                "property_id": pid,
                "quick_cmd": f"./check {pid} --tier quick",
                "thorough_cmd": f"./check {pid} --tier thorough",
                "evidence_file": f"/verif/evidence/{pid}.json",
                "replay_cmd_template": f"./check {pid} --replay {{path}}",
                "engine": "tlc",
                "level_claimed": {"category": cat, "text": text, "design_ref": ref},
                "level_note": note,
                "technique": tech,
            }
        )
    else:
        manifest["not_applicable"].append({"property_id": pid, "reason": NOT_YET})
with open(os.path.join(VERIF, "MANIFEST.json"), "w") as f:
    json.dump(manifest, f, indent=1)
print("checks:", [c["property_id"] for c in manifest["checks"]])
