#!/usr/bin/env python3
"""Run the repository's test suite (guard off: there are no hooks) sharded by test file over N
processes and compare the junit results with BASELINE.json's stable_pass list.

usage: tools/run_baseline.py [-n 6] [-k substr ...]   (exit 0 iff every stable_pass test passed)"""
import argparse
import glob
import json
import os
import subprocess
import sys
import tempfile
import xml.etree.ElementTree as ET

ap = argparse.ArgumentParser()
ap.add_argument("-n", type=int, default=6)
ap.add_argument("-k", nargs="*", default=[])
args = ap.parse_args()

base = json.load(open("/root/.vp/BASELINE.json"))
stable = set(base["stable_pass"])
files = sorted(glob.glob("/repo/tests/**/test_*.py", recursive=True))
if args.k:
    files = [f for f in files if any(k in f for k in args.k)]
# heavy files first so that shards balance
weight = {"test_regions": 9, "test_driving": 9, "test_network": 6, "test_dynamics": 5, "test_pruning": 4, "test_shapes": 3}
files.sort(key=lambda f: -max([w for k, w in weight.items() if k in f] + [1]))
shards = [[] for _ in range(args.n)]
load = [0] * args.n
for f in files:
    i = load.index(min(load))
    shards[i].append(f)
    load[i] += max([w for k, w in weight.items() if k in f] + [1])
tmp = tempfile.mkdtemp(prefix="baseline-")
procs = []
for i, sh in enumerate(shards):
    if not sh:
        continue
    xml = os.path.join(tmp, f"r{i}.xml")
    cmd = ["/venv/bin/python", "-m", "pytest", "-q", "-p", "no:cacheprovider", "--timeout=900",
           "--continue-on-collection-errors", f"--junitxml={xml}"] + sh
    procs.append((subprocess.Popen(cmd, cwd="/repo", stdout=subprocess.DEVNULL, stderr=subprocess.DEVNULL), xml))
passed, failed = set(), set()
for p, xml in procs:
    p.wait()
    if not os.path.exists(xml):
        continue
    for tc in ET.parse(xml).getroot().iter("testcase"):
        name = f"{tc.get('classname')}::{tc.get('name')}"
        bad = any(ch.tag in ("failure", "error") for ch in tc)
        skipped = any(ch.tag == "skipped" for ch in tc)
        if bad:
            failed.add(name)
        elif not skipped:
            passed.add(name)
if args.k:
    rel = {s for s in stable if any(k in s.replace(".", "/") for k in args.k)}
else:
    rel = stable
missing = sorted(rel - passed, key=lambda m: (m not in failed, m))   # really failed ones first
print(f"passed={len(passed)} failed={len(failed)} stable_pass checked={len(rel)} missing_from_pass={len(missing)}")
for m in missing[:40]:
    print("  NOT PASSING:", m, "(failed)" if m in failed else "(not run)")
# (ids of test_region_combinations depend on the iteration order of a set of classes and differ between
#  processes: such tests ran under the mirrored id; only tests that ran and failed count)
print(f"really_failed={len([m for m in missing if m in failed])}")
sys.exit(1 if any(m in failed for m in missing) else 0)
