#!/usr/bin/env python3
"""tools/seeded_table.py: print the markdown table of the archived seeded changes (DESIGN.md 8.4)
from /verif/seeded/*/meta.json."""
import glob, json, os

rows = []
for d in sorted(glob.glob("/verif/seeded/*/")):
    m = json.load(open(os.path.join(d, "meta.json")))
    c = m.get("confirmed_by_lead", {})
    files = sorted({ln.split(" b/")[1].strip().replace("src/scenic/", "") for ln in open(os.path.join(d, "patch.diff"))
                    if ln.startswith("diff --git")})
    needs = " ".join(m.get("needs", "").split())
    if len(needs) > 230:
        needs = needs[:227].rsplit(" ", 1)[0] + " …"
    note = " ".join(c.get("note", "").split())
    rows.append((os.path.basename(d.rstrip("/")), ", ".join(files), needs, ", ".join(c.get("caught_by", [])) or "—", note))
print("| seeded change | touches | needs | caught by | how / first result |")
print("|---|---|---|---|---|")
for r in rows:
    print("| " + " | ".join(x.replace("|", "\\|") for x in r) + " |")
