#!/bin/bash
# tools/try_seeded.sh <worktree> <k> <check id>... : confirm seeded change k of a worktree
# (demo passes without / fails with) and run the given checks against the patched sources
# (PYTHONPATH=<worktree>/src, so /repo itself is not touched while other work is going on).
wt="$1"; k="$2"; shift 2
cd "$wt" || exit 3
git checkout -q -- src
# bring the worktree to /repo's current HEAD (later fix: commits included), with /repo's generated parser
git checkout -q --detach "$(git -C /repo rev-parse HEAD)" || exit 3
cp /repo/src/scenic/syntax/parser.py src/scenic/syntax/parser.py
echo "== demo without change"; PYTHONPATH=$wt/src timeout 900 /venv/bin/python SEEDED/demo$k.py >/tmp/seed_demo_without.log 2>&1; echo "rc=$?"
git apply SEEDED/change$k.diff || { echo "patch does not apply"; exit 3; }
if grep -q "scenic.gram" SEEDED/change$k.diff; then   # grammar change: regenerate the (untracked) parser, keeping its header
  /venv/bin/python -m pegen src/scenic/syntax/scenic.gram -o /tmp/parser_new.py >/dev/null 2>&1 && \
    (head -2 src/scenic/syntax/parser.py; tail -n +3 /tmp/parser_new.py) > /tmp/parser_merged.py && cp /tmp/parser_merged.py src/scenic/syntax/parser.py
fi
echo "== demo with change"; PYTHONPATH=$wt/src timeout 900 /venv/bin/python SEEDED/demo$k.py >/tmp/seed_demo_with.log 2>&1; echo "rc=$?"
for c in "$@"; do
  echo "== check $c against the change"
  (cd /verif && PYTHONPATH=$wt/src VERIF_EVIDENCE_SUFFIX=.seeded timeout 3000 ./check $c --tier quick > /tmp/seed_check_$c.log 2>&1; echo "   rc=$? violations=$(grep -c '^VIOLATION' /tmp/seed_check_$c.log)"; grep -E "^\[C|MACHINERY|KNOWN-FINDING" /tmp/seed_check_$c.log | cut -c1-160; grep -A1 "^VIOLATION" /tmp/seed_check_$c.log | grep -v "^VIOLATION\|^--" | head -2 | cut -c1-260)
done
git checkout -q -- src
cp /repo/src/scenic/syntax/parser.py src/scenic/syntax/parser.py
echo "== reverted"
