#!/bin/bash
# tools/try_seeded.sh <worktree> <k> <check id>... : confirm seeded change k of a worktree
# (demo passes without / fails with) and run the given checks against the patched sources
# (PYTHONPATH=<worktree>/src, so /repo itself is not touched while other work is going on).
wt="$1"; k="$2"; shift 2
cd "$wt" || exit 3
git checkout -q -- src
echo "== demo without change"; PYTHONPATH=$wt/src timeout 900 /venv/bin/python SEEDED/demo$k.py >/tmp/seed_demo_without.log 2>&1; echo "rc=$?"
git apply SEEDED/change$k.diff || { echo "patch does not apply"; exit 3; }
echo "== demo with change"; PYTHONPATH=$wt/src timeout 900 /venv/bin/python SEEDED/demo$k.py >/tmp/seed_demo_with.log 2>&1; echo "rc=$?"
for c in "$@"; do
  echo "== check $c against the change"
  (cd /verif && PYTHONPATH=$wt/src VERIF_EVIDENCE_SUFFIX=.seeded timeout 3000 ./check $c --tier quick 2>&1 | grep -E "^VIOLATION|^\[C|MACHINERY|KNOWN-FINDING" | head -6)
done
git checkout -q -- src
echo "== reverted"
