#!/bin/bash
# tools/verify_seeded.sh [id...]: for every archived seeded change (or the given ones) check, on a scratch
# worktree of /repo's current head, that the patch applies, that the demonstration exits 0 without the change
# and non-zero with it.  Prints one line per change; the worktree is removed at the end.
wt=/tmp/wt-verify-seeded
git -C /repo worktree remove --force $wt >/dev/null 2>&1
git -C /repo worktree add -q --detach $wt HEAD || exit 3
cp /repo/src/scenic/syntax/parser.py $wt/src/scenic/syntax/parser.py
ids="$@"; [ -z "$ids" ] && ids=$(ls -d /verif/seeded/*/ | xargs -n1 basename)
for id in $ids; do
  d=/verif/seeded/$id
  cd $wt && git checkout -q -- src && cp /repo/src/scenic/syntax/parser.py src/scenic/syntax/parser.py
  PYTHONPATH=$wt/src timeout 1200 /venv/bin/python $d/demo.py >/dev/null 2>&1; r0=$?
  if ! git apply $d/patch.diff 2>/dev/null; then echo "$id patch-does-not-apply"; continue; fi
  if grep -q "scenic.gram" $d/patch.diff; then
    /venv/bin/python -m pegen src/scenic/syntax/scenic.gram -o /tmp/parser_new_v.py >/dev/null 2>&1 && \
      (head -2 src/scenic/syntax/parser.py; tail -n +3 /tmp/parser_new_v.py) > /tmp/parser_merged_v.py && cp /tmp/parser_merged_v.py src/scenic/syntax/parser.py
  fi
  PYTHONPATH=$wt/src timeout 1200 /venv/bin/python $d/demo.py >/dev/null 2>&1; r1=$?
  st=OK; [ $r0 -ne 0 ] && st="DEMO-FAILS-ON-CLEAN-TREE"; [ $r1 -eq 0 ] && st="DEMO-PASSES-WITH-CHANGE"
  echo "$id without=$r0 with=$r1 $st"
done
cd /; git -C /repo worktree remove --force $wt
