#!/bin/sh
# tools/with_patch.sh <patch.diff> <command...> : apply a patch to /repo, run the command, always revert.
p="$1"; shift
git -C /repo apply "$p" || { echo "patch does not apply"; exit 3; }
"$@"; rc=$?
git -C /repo checkout -- . 
exit $rc
